(** C34 — SizeV1 / SSizeV1: round trip, suffix meaning, overflow. *)
From Verif Require Import Base.Prelude Model.C34 Proofs.C34_dec.
From Coq Require Import ZifyBool ZifyNat ZifyN.
Ltac Zify.zify_post_hook ::= Z.to_euclidean_division_equations.
Local Open Scope N_scope.

Lemma bare_not_digit c : is_bare_suffix c = true -> is_digit c = false /\ is_re_space c = false.
Proof. unfold is_bare_suffix, is_digit, is_re_space. lia. Qed.

Lemma space_not_digit c : is_re_space c = true -> is_digit c = false.
Proof. unfold is_digit, is_re_space. lia. Qed.

(** The tail "optional whitespace, optional bare suffix" after the digits. *)
Definition tail_ok (ws : list N) (sfx : option N) : Prop :=
  forallb is_re_space ws = true /\
  match sfx with Some c => is_bare_suffix c = true | None => True end.

Definition sfx_bytes (sfx : option N) : list N :=
  match sfx with Some c => [c] | None => [] end.

Lemma tail_stops_digit ws sfx : tail_ok ws sfx -> stops is_digit (ws ++ sfx_bytes sfx).
Proof.
  intros [Hw Hs]. destruct ws as [|w ws]; cbn.
  - destruct sfx as [c|]; cbn; [apply bare_not_digit, Hs|exact I].
  - cbn in Hw. apply andb_true_iff in Hw as [Hw _]. apply space_not_digit, Hw.
Qed.

Lemma tail_drop_space ws sfx :
  tail_ok ws sfx -> drop_while is_re_space (ws ++ sfx_bytes sfx) = sfx_bytes sfx.
Proof.
  intros [Hw Hs]. apply drop_while_app; [exact Hw|].
  destruct sfx as [c|]; cbn; [apply bare_not_digit, Hs|exact I].
Qed.

(** sizeV1Pattern on "digits ws suffix". *)
Lemma match_v1_unsigned n ws sfx :
  tail_ok ws sfx ->
  match_v1 false (dec n ++ ws ++ sfx_bytes sfx) = Some (dec n, sfx).
Proof.
  intro Ht. unfold match_v1.
  destruct (dec_head_digit n) as [c [l [E Hc]]].
  assert (Etext : dec n ++ ws ++ sfx_bytes sfx = c :: (l ++ ws ++ sfx_bytes sfx))
    by (rewrite E; reflexivity).
  rewrite Etext. cbn [andb]. rewrite <- Etext.
  rewrite take_while_app by (apply dec_digits || apply tail_stops_digit, Ht).
  rewrite drop_while_app by (apply dec_digits || apply tail_stops_digit, Ht).
  rewrite tail_drop_space by exact Ht.
  rewrite E at 1. destruct sfx as [s|]; cbn [sfx_bytes app].
  - destruct Ht as [_ Hs]. rewrite Hs, E. reflexivity.
  - rewrite E. reflexivity.
Qed.

Lemma match_v1_signed z ws sfx :
  tail_ok ws sfx ->
  match_v1 true (dec_z z ++ ws ++ sfx_bytes sfx) = Some (dec_z z, sfx).
Proof.
  intro Ht. unfold match_v1, dec_z. destruct (z <? 0)%Z.
  - cbn [app]. change ((45 =? 43) || (45 =? 45)) with true. cbn [andb].
    set (n := Z.to_N (- z)).
    destruct (dec_head_digit n) as [c [l [E Hc]]].
    rewrite take_while_app by (apply dec_digits || apply tail_stops_digit, Ht).
    rewrite drop_while_app by (apply dec_digits || apply tail_stops_digit, Ht).
    rewrite tail_drop_space by exact Ht.
    rewrite E at 1. destruct sfx as [s|]; cbn [sfx_bytes app].
    + destruct Ht as [_ Hs]. rewrite Hs, E. reflexivity.
    + rewrite E. reflexivity.
  - set (n := Z.to_N z).
    destruct (dec_head_digit n) as [c [l [E Hc]]].
    assert (Etext : dec n ++ ws ++ sfx_bytes sfx = c :: (l ++ ws ++ sfx_bytes sfx))
      by (rewrite E; reflexivity).
    rewrite Etext.
    assert (Hs : (c =? 43) || (c =? 45) = false) by (unfold is_digit in Hc; lia).
    rewrite Hs. cbn [andb]. rewrite <- Etext.
    rewrite take_while_app by (apply dec_digits || apply tail_stops_digit, Ht).
    rewrite drop_while_app by (apply dec_digits || apply tail_stops_digit, Ht).
    rewrite tail_drop_space by exact Ht.
    rewrite E at 1. destruct sfx as [s|]; cbn [sfx_bytes app].
    + destruct Ht as [_ Hs']. rewrite Hs', E. reflexivity.
    + rewrite E. reflexivity.
Qed.

Definition sfx_mult (sfx : option N) : N :=
  match sfx with Some c => bare_mult c | None => 1 end.

Lemma sfx_mult_cases sfx :
  sfx_mult sfx = 1 \/ sfx_mult sfx = 1024 \/ sfx_mult sfx = 1048576 \/ sfx_mult sfx = 1073741824.
Proof.
  destruct sfx as [c|]; [|auto]. unfold sfx_mult, bare_mult.
  destruct ((c =? 107) || (c =? 75)); [auto|].
  destruct ((c =? 109) || (c =? 77)); auto.
Qed.

(** ** Suffix meaning and overflow on the strconv path (all values) *)
Lemma unmarshal_v1_unsigned n ws sfx :
  n < 2 ^ 64 -> tail_ok ws sfx ->
  unmarshal_v1 false (dec n ++ ws ++ sfx_bytes sfx) =
  if n * sfx_mult sfx <? 2 ^ 64 then Some (Z.of_N (n * sfx_mult sfx)) else None.
Proof.
  intros Hn Ht. unfold unmarshal_v1. rewrite match_v1_unsigned by exact Ht.
  rewrite parse_uint_dec. fold (sfx_mult sfx).
  change (2 ^ 64) with 18446744073709551616 in *.
  destruct (n <? 18446744073709551616) eqn:E; [|lia].
  destruct (sfx_mult_cases sfx) as [-> | [-> | [-> | ->]]];
    split_ifs; try lia; try reflexivity; f_equal; lia.
Qed.

Lemma unmarshal_v1_signed z ws sfx :
  (- 2 ^ 63 <= z < 2 ^ 63)%Z -> tail_ok ws sfx ->
  unmarshal_v1 true (dec_z z ++ ws ++ sfx_bytes sfx) =
  let r := (z * Z.of_N (sfx_mult sfx))%Z in
  if ((- 2 ^ 63 <=? r) && (r <? 2 ^ 63))%Z then Some r else None.
Proof.
  intros Hz Ht. unfold unmarshal_v1. rewrite match_v1_signed by exact Ht.
  rewrite parse_int_dec_z. fold (sfx_mult sfx). unfold wrap64s. cbv zeta.
  change (2 ^ 64)%Z with 18446744073709551616%Z in *.
  change (2 ^ 63)%Z with 9223372036854775808%Z in *.
  destruct ((- 9223372036854775808 <=? z) && (z <? 9223372036854775808))%Z eqn:E; [|lia].
  destruct (sfx_mult_cases sfx) as [-> | [-> | [-> | ->]]];
    split_ifs; try lia; try reflexivity; f_equal; lia.
Qed.

(** ** Round trips *)
Lemma tail_none : tail_ok [] None.
Proof. split; [reflexivity|exact I]. Qed.
Lemma tail_sfx c : is_bare_suffix c = true -> tail_ok [] (Some c).
Proof. intro H. split; [reflexivity|exact H]. Qed.

Lemma sizev1_roundtrip n :
  n < 2 ^ 64 -> unmarshal_v1 false (marshal_v1 (Z.of_N n)) = Some (Z.of_N n).
Proof.
  intro Hn. unfold marshal_v1.
  change (2 ^ 64) with 18446744073709551616 in *.
  change (2 ^ 30)%Z with 1073741824%Z. change (2 ^ 20)%Z with 1048576%Z.
  change (2 ^ 10)%Z with 1024%Z.
  assert (Hdz : forall q, (0 <= q)%Z -> dec_z q = dec (Z.to_N q)).
  { intros q Hq. unfold dec_z. destruct (q <? 0)%Z eqn:E; [lia|reflexivity]. }
  destruct (negb (Z.quot (Z.of_N n) 1073741824 =? 0)%Z && (Z.rem (Z.of_N n) 1073741824 =? 0)%Z) eqn:E30.
  { rewrite Hdz by lia.
    pose proof (unmarshal_v1_unsigned (Z.to_N (Z.quot (Z.of_N n) 1073741824)) [] (Some 103)
                  ltac:(change (2 ^ 64) with 18446744073709551616; lia) (tail_sfx 103 eq_refl)) as H.
    cbn [app sfx_bytes] in H. rewrite H. change (sfx_mult (Some 103)) with 1073741824.
    change (2 ^ 64) with 18446744073709551616. split_ifs; [f_equal; lia|lia]. }
  destruct (negb (Z.quot (Z.of_N n) 1048576 =? 0)%Z && (Z.rem (Z.of_N n) 1048576 =? 0)%Z) eqn:E20.
  { rewrite Hdz by lia.
    pose proof (unmarshal_v1_unsigned (Z.to_N (Z.quot (Z.of_N n) 1048576)) [] (Some 109)
                  ltac:(change (2 ^ 64) with 18446744073709551616; lia) (tail_sfx 109 eq_refl)) as H.
    cbn [app sfx_bytes] in H. rewrite H. change (sfx_mult (Some 109)) with 1048576.
    change (2 ^ 64) with 18446744073709551616. split_ifs; [f_equal; lia|lia]. }
  destruct (negb (Z.quot (Z.of_N n) 1024 =? 0)%Z && (Z.rem (Z.of_N n) 1024 =? 0)%Z) eqn:E10.
  { rewrite Hdz by lia.
    pose proof (unmarshal_v1_unsigned (Z.to_N (Z.quot (Z.of_N n) 1024)) [] (Some 107)
                  ltac:(change (2 ^ 64) with 18446744073709551616; lia) (tail_sfx 107 eq_refl)) as H.
    cbn [app sfx_bytes] in H. rewrite H. change (sfx_mult (Some 107)) with 1024.
    change (2 ^ 64) with 18446744073709551616. split_ifs; [f_equal; lia|lia]. }
  rewrite Hdz by lia.
  pose proof (unmarshal_v1_unsigned (Z.to_N (Z.of_N n)) [] None
                ltac:(change (2 ^ 64) with 18446744073709551616; lia) tail_none) as H.
  cbn [app sfx_bytes] in H. rewrite app_nil_r in H. rewrite H. change (sfx_mult None) with 1.
  change (2 ^ 64) with 18446744073709551616. split_ifs; [f_equal; lia|lia].
Qed.

Lemma ssizev1_roundtrip z :
  (- 2 ^ 63 <= z < 2 ^ 63)%Z -> unmarshal_v1 true (marshal_v1 z) = Some z.
Proof.
  intro Hz. unfold marshal_v1.
  change (2 ^ 63)%Z with 9223372036854775808%Z in *.
  change (2 ^ 30)%Z with 1073741824%Z. change (2 ^ 20)%Z with 1048576%Z.
  change (2 ^ 10)%Z with 1024%Z.
  destruct (negb (Z.quot z 1073741824 =? 0)%Z && (Z.rem z 1073741824 =? 0)%Z) eqn:E30.
  { pose proof (unmarshal_v1_signed (Z.quot z 1073741824) [] (Some 103)
                  ltac:(change (2 ^ 63)%Z with 9223372036854775808%Z; lia) (tail_sfx 103 eq_refl)) as H.
    cbn [app sfx_bytes] in H. rewrite H. change (sfx_mult (Some 103)) with 1073741824.
    cbv zeta. change (2 ^ 63)%Z with 9223372036854775808%Z.
    split_ifs; [f_equal; lia|lia]. }
  destruct (negb (Z.quot z 1048576 =? 0)%Z && (Z.rem z 1048576 =? 0)%Z) eqn:E20.
  { pose proof (unmarshal_v1_signed (Z.quot z 1048576) [] (Some 109)
                  ltac:(change (2 ^ 63)%Z with 9223372036854775808%Z; lia) (tail_sfx 109 eq_refl)) as H.
    cbn [app sfx_bytes] in H. rewrite H. change (sfx_mult (Some 109)) with 1048576.
    cbv zeta. change (2 ^ 63)%Z with 9223372036854775808%Z.
    split_ifs; [f_equal; lia|lia]. }
  destruct (negb (Z.quot z 1024 =? 0)%Z && (Z.rem z 1024 =? 0)%Z) eqn:E10.
  { pose proof (unmarshal_v1_signed (Z.quot z 1024) [] (Some 107)
                  ltac:(change (2 ^ 63)%Z with 9223372036854775808%Z; lia) (tail_sfx 107 eq_refl)) as H.
    cbn [app sfx_bytes] in H. rewrite H. change (sfx_mult (Some 107)) with 1024.
    cbv zeta. change (2 ^ 63)%Z with 9223372036854775808%Z.
    split_ifs; [f_equal; lia|lia]. }
  pose proof (unmarshal_v1_signed z [] None
                ltac:(change (2 ^ 63)%Z with 9223372036854775808%Z; lia) tail_none) as H.
  cbn [app sfx_bytes] in H. rewrite app_nil_r in H. rewrite H. change (sfx_mult None) with 1.
  cbv zeta. change (2 ^ 63)%Z with 9223372036854775808%Z.
  split_ifs; [f_equal; lia|lia].
Qed.

(** With the (?s) repair the 1.x binary meaning of bare suffixes also holds after a
    leading newline (before it, "\n1k" reached humanize unchanged and meant 1000). *)
Lemma ssizev1_newline_witness :
  unmarshal_v1 true [10; 49; 107] = Some 1024%Z /\ unmarshal_v1 false [10; 49; 107] = Some 1024%Z /\ unmarshal_v1 true [32; 10; 32; 50; 32; 32; 103; 10] = Some 2147483648%Z.
Proof. repeat split; vm_compute; reflexivity. Qed.
