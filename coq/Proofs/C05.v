(** C05 proofs, part 1: the in-use set, acquire/Release, disjointness from held files. *)
From Verif Require Import Base.Prelude Model.C05.
From Coq Require Import Permutation.
Local Open Scope N_scope.

(** ---- finite sets of paths as lists ---- *)
Lemma mem_spec p s : mem p s = true <-> In p s.
Proof.
  unfold mem. rewrite existsb_exists. split.
  - intros [x [Hin E]]. apply N.eqb_eq in E. subst. exact Hin.
  - intro H. exists p. split; [exact H | apply N.eqb_refl].
Qed.

Lemma mem_false p s : mem p s = false <-> ~ In p s.
Proof.
  rewrite <- mem_spec. destruct (mem p s); split; intro H; try reflexivity; try discriminate.
  exfalso. apply H. reflexivity.
Qed.

Lemma add_in q p s : In q (add p s) <-> q = p \/ In q s.
Proof.
  unfold add. destruct (mem p s) eqn:E.
  - apply mem_spec in E. split; [auto|]. intros [H|H]; subst; auto.
  - simpl. split; intros [H|H]; subst; auto.
Qed.

Lemma add_nodup p s : NoDup s -> NoDup (add p s).
Proof.
  intro H. unfold add. destruct (mem p s) eqn:E; [exact H|].
  constructor; [apply mem_false; exact E | exact H].
Qed.

Lemma add_all_in q ps : forall s, In q (add_all ps s) <-> In q ps \/ In q s.
Proof.
  unfold add_all. induction ps as [|p ps IH]; intro s; simpl.
  - tauto.
  - rewrite IH, add_in. split; intros [H|H]; auto; destruct H; auto.
Qed.

Lemma add_all_nodup ps : forall s, NoDup s -> NoDup (add_all ps s).
Proof.
  unfold add_all. induction ps as [|p ps IH]; intros s H; simpl; [exact H|].
  apply IH, add_nodup, H.
Qed.

Lemma remove_all_in q ps s : In q (remove_all ps s) <-> In q s /\ ~ In q ps.
Proof.
  unfold remove_all. rewrite filter_In, negb_true_iff, mem_false. tauto.
Qed.

Lemma remove_all_nodup ps s : NoDup s -> NoDup (remove_all ps s).
Proof. apply NoDup_filter. Qed.

(** ---- acquire / finish ---- *)
Definition same_flags (a b : pstate) : Prop :=
  force_full a = force_full b /\ checked a = checked b.

Lemma finish_spec st groups st' out :
  finish st groups = (st', out) ->
  (out = groups \/ out = []) /\
  (forall p, In p (concat out) -> ~ In p (in_use st)) /\
  (forall p, In p (in_use st') <-> In p (in_use st) \/ In p (concat out)) /\
  (NoDup (in_use st) -> NoDup (in_use st')) /\
  same_flags st' st.
Proof.
  unfold finish, acquire. destruct (is_nil groups) eqn:En.
  - destruct groups; [|discriminate]. intro E. inversion E; subst.
    repeat split; auto; simpl; tauto.
  - destruct (existsb (fun p => mem p (in_use st)) (concat groups)) eqn:Ex.
    + intro E. inversion E; subst. repeat split; auto; simpl; tauto.
    + intro E. inversion E; subst. clear E. simpl.
      repeat split; auto.
      * intros p Hp Hin.
        assert (X : existsb (fun p => mem p (in_use st)) (concat out) = true).
        { apply existsb_exists. exists p. split; [exact Hp | apply mem_spec; exact Hin]. }
        congruence.
      * intro H. apply add_all_in in H. tauto.
      * intro H. apply add_all_in. tauto.
      * apply add_all_nodup.
Qed.

(** acquire never fails on groups whose files are all not in use *)
Lemma finish_ok st groups :
  (forall p, In p (concat groups) -> ~ In p (in_use st)) ->
  snd (finish st groups) = groups.
Proof.
  intro H. unfold finish, acquire. destruct (is_nil groups) eqn:En; [reflexivity|].
  destruct (existsb _ (concat groups)) eqn:Ex; [|reflexivity].
  apply existsb_exists in Ex as [p [Hp Hm]]. apply mem_spec in Hm. exfalso. exact (H p Hp Hm).
Qed.

(** ---- every planner call: disjointness from the in-use set, exact growth ---- *)
Lemma plan_inv st gens c r st' out :
  plan st gens c r = (st', out) ->
  (forall p, In p (concat out) -> ~ In p (in_use st)) /\
  (forall p, In p (in_use st') <-> In p (in_use st) \/ In p (concat out)) /\
  (NoDup (in_use st) -> NoDup (in_use st')).
Proof.
  unfold plan. destruct (plan_is_full st gens c).
  - intro E. apply finish_spec in E as (_ & H1 & H2 & H3 & _). simpl in *. auto.
  - destruct (_ && negb (gs_tomb gens)).
    + intro E. inversion E; subst. simpl. repeat split; auto; tauto.
    + intro E. apply finish_spec in E as (_ & H1 & H2 & H3 & _). simpl in *. auto.
Qed.

Lemma step_plan_inv st gens o st' out :
  step st gens o = (st', out) -> is_plan_op o = true ->
  (forall p, In p (concat out) -> ~ In p (in_use st)) /\
  (forall p, In p (in_use st') <-> In p (in_use st) \/ In p (concat out)) /\
  (NoDup (in_use st) -> NoDup (in_use st')).
Proof.
  destruct o; simpl; intros E Hp; try discriminate.
  - unfold plan_level in E. apply finish_spec in E as (_ & H1 & H2 & H3 & _). auto.
  - eapply plan_inv; eauto.
  - unfold plan_optimize in E. apply finish_spec in E as (_ & H1 & H2 & H3 & _). auto.
Qed.

Lemma step_nonplan st gens o st' out :
  step st gens o = (st', out) -> is_plan_op o = false ->
  out = [] /\
  match o with
  | ORelease gs => forall p, In p (in_use st') <-> In p (in_use st) /\ ~ In p (concat gs)
  | _ => in_use st' = in_use st
  end.
Proof.
  destruct o; simpl; intros E Hp; try discriminate; inversion E; subst; split; auto.
  intro p. simpl. apply remove_all_in.
Qed.

Lemma step_nodup st gens o :
  NoDup (in_use st) -> NoDup (in_use (fst (step st gens o))).
Proof.
  intro H. destruct (step st gens o) as [st' out] eqn:E. simpl.
  destruct (is_plan_op o) eqn:Ep.
  - apply (step_plan_inv _ _ _ _ _ E Ep). exact H.
  - destruct o; try discriminate; simpl in E; inversion E; subst; simpl; auto.
    apply remove_all_nodup, H.
Qed.

(** ---- histories ---- *)
Definition call_t := (list gen * op)%type.
Definition exec (st : pstate) (cs : list call_t) : pstate :=
  fold_left (fun st c => fst (step st (fst c) (snd c))) cs st.
Definition reachable (st : pstate) : Prop := exists cs, st = exec init cs.

Lemma exec_app st a b : exec st (a ++ b) = exec (exec st a) b.
Proof. apply fold_left_app. Qed.

Lemma reachable_nodup st : reachable st -> NoDup (in_use st).
Proof.
  intros [cs ->]. induction cs as [|c cs IH] using rev_ind.
  - constructor.
  - rewrite exec_app. simpl. apply step_nodup, IH.
Qed.

(** The "held" set the oracle tracks from the responses alone. *)
Definition held_step (held : list N) (o : op) (out : list (list N)) : list N :=
  match o with
  | ORelease gs => remove_all (concat gs) held
  | _ => add_all (concat out) held
  end.

Fixpoint exec_held (st : pstate) (held : list N) (cs : list call_t) : pstate * list N :=
  match cs with
  | [] => (st, held)
  | c :: r =>
      let '(st', out) := step st (fst c) (snd c) in
      exec_held st' (held_step held (snd c) out) r
  end.

Lemma exec_held_fst cs : forall st held, fst (exec_held st held cs) = exec st cs.
Proof.
  induction cs as [|c cs IH]; intros st held; simpl; [reflexivity|].
  destruct (step st (fst c) (snd c)) as [st' out] eqn:E. rewrite IH. reflexivity.
Qed.

Lemma held_step_sync st gens o st' out held :
  step st gens o = (st', out) ->
  (forall p, In p (in_use st) <-> In p held) ->
  forall p, In p (in_use st') <-> In p (held_step held o out).
Proof.
  intros E Hs p. destruct (is_plan_op o) eqn:Ep.
  - destruct (step_plan_inv _ _ _ _ _ E Ep) as (_ & H2 & _).
    rewrite H2. destruct o; try discriminate; simpl; rewrite add_all_in, Hs; tauto.
  - destruct (step_nonplan _ _ _ _ _ E Ep) as [-> H]. destruct o; try discriminate; simpl.
    + rewrite H. simpl. apply Hs.
    + rewrite H, remove_all_in, Hs. tauto.
Qed.

Lemma in_use_is_held cs : forall st held,
  (forall p, In p (in_use st) <-> In p held) ->
  forall p, In p (in_use (fst (exec_held st held cs))) <-> In p (snd (exec_held st held cs)).
Proof.
  induction cs as [|c cs IH]; intros st held Hs; simpl; [exact Hs|].
  destruct (step st (fst c) (snd c)) as [st' out] eqn:E.
  apply IH. eapply held_step_sync; eauto.
Qed.
