(** C07 — Value encodings round-trip bit-exactly.  Property theorems only. *)
From Verif Require Import Base.Prelude Model.C07_s8b Proofs.C07_s8b.
Local Open Scope N_scope.

(** ** simple8b *)

(** in-repo EncodeAll: every list (any length) of values < 2^60 is accepted and DecodeAll
    of the produced words returns the list; CountBytes returns its length. *)
Theorem C07_s8b_roundtrip : forall l,
  Forall (fun v => v < 2 ^ 60) l ->
  exists ws, encode_all l = Some ws /\ decode_all ws = l /\ count_words ws = length l.
Proof.
  intros l H. destruct (encode_all_roundtrip l H) as (ws & E & D).
  exists ws. repeat split; auto. rewrite count_words_spec, D. reflexivity.
Qed.
Print Assumptions C07_s8b_roundtrip.

(** a value that does not fit 60 bits anywhere in the input makes EncodeAll fail *)
Theorem C07_s8b_rejects : forall l,
  Exists (fun v => 2 ^ 60 <= v) l -> encode_all l = None.
Proof. exact encode_all_rejects. Qed.
Print Assumptions C07_s8b_rejects.

(** the jwilder EncodeAll (= repeated Encode, used by the scalar integer encoder) *)
Theorem C07_s8b_jw_roundtrip : forall l,
  Forall (fun v => v < 2 ^ 60) l -> exists ws, jw_encode_all l = Some ws /\ decode_all ws = l.
Proof. exact jw_encode_all_roundtrip. Qed.
Print Assumptions C07_s8b_jw_roundtrip.

Theorem C07_s8b_jw_rejects : forall l,
  Exists (fun v => 2 ^ 60 <= v) l -> jw_encode_all l = None.
Proof. exact jw_encode_all_rejects. Qed.
Print Assumptions C07_s8b_jw_rejects.

(** the streaming Encoder (Write*; Bytes), used by the scalar timestamp encoder *)
Theorem C07_s8b_stream_roundtrip : forall l,
  Forall (fun v => v < 2 ^ 60) l -> exists ws, stream_encode l = Some ws /\ decode_all ws = l.
Proof. exact stream_encode_roundtrip. Qed.
Print Assumptions C07_s8b_stream_roundtrip.

Theorem C07_s8b_stream_rejects : forall l,
  Exists (fun v => 2 ^ 60 <= v) l -> stream_encode l = None.
Proof. exact stream_encode_rejects. Qed.
Print Assumptions C07_s8b_stream_rejects.

(** Non-vacuity: a run of 240 ones followed by a value that needs 60 bits. *)
Example C07_nonvacuous_s8b :
  let l := repeat 1 240 ++ [2 ^ 60 - 1; 5] in
  Forall (fun v => v < 2 ^ 60) l /\
  encode_all l = Some [0; 15 * 2 ^ 60 + (2 ^ 60 - 1); 15 * 2 ^ 60 + 5] /\
  jw_encode_all l <> encode_all l.
Proof.
  cbv zeta. split; [|split].
  - apply Forall_forall. intros x Hx. apply in_app_or in Hx as [Hx|Hx].
    + apply repeat_spec in Hx. subst. reflexivity.
    + destruct Hx as [<-|[<-|[]]]; reflexivity.
  - vm_compute. reflexivity.
  - vm_compute. discriminate.
Qed.
