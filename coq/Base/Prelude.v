(** Shared prelude of the correspondence protocol.

    Every property's Go driver writes "shard" files that list cases
    [(index, case)] — the inputs it generated together with the outputs the real
    implementation produced on them — and evaluates [run_cases check cases] with
    [vm_compute].  [check] is the property's own executable judge, defined in
    [Model/Cxx.v] from the same definitions the theorems of [Props/Cxx.v] are about.

    Verdict codes returned by a judge:
      0  implementation output = model output (and hence, by the theorems, the property);
      1  implementation differs from the model but its output still satisfies the
         property's oracle on this case (the tie is broken, no failing input);
      2  the implementation's output violates the property's oracle on this case
         (and differs from the model);
      3  the implementation's output violates the oracle and EQUALS the model's output:
         the faithful model itself refutes the full statement here (a [_refuted]
         theorem); accepted only for cases carrying a listed known-finding signature. *)
From Coq Require Export List ZArith NArith Bool Lia.
Export ListNotations.

Definition verdict := N.
Definition V_OK : verdict := 0%N.
Definition V_TIE : verdict := 1%N.
Definition V_BAD : verdict := 2%N.

(** [judge same ok]: [same] = implementation agrees with the model, [ok] = the
    implementation's output passes the property oracle. *)
Definition V_MODEL_BAD : verdict := 3%N.
Definition judge (same ok : bool) : verdict :=
  if ok then (if same then V_OK else V_TIE) else (if same then V_MODEL_BAD else V_BAD).

Fixpoint run_cases {A} (check : A -> verdict) (cs : list (N * A)) : list (N * N) :=
  match cs with
  | [] => []
  | (i, c) :: r =>
      let v := check c in
      if N.eqb v 0 then run_cases check r else (i, v) :: run_cases check r
  end.

(** Generic boolean equality helpers used by judges. *)
Fixpoint list_eqb {A} (eqb : A -> A -> bool) (a b : list A) : bool :=
  match a, b with
  | [], [] => true
  | x :: a', y :: b' => eqb x y && list_eqb eqb a' b'
  | _, _ => false
  end.

Definition option_eqb {A} (eqb : A -> A -> bool) (a b : option A) : bool :=
  match a, b with
  | None, None => true
  | Some x, Some y => eqb x y
  | _, _ => false
  end.

Definition pair_eqb {A B} (ea : A -> A -> bool) (eb : B -> B -> bool)
  (a b : A * B) : bool := ea (fst a) (fst b) && eb (snd a) (snd b).

Lemma list_eqb_spec {A} (eqb : A -> A -> bool) :
  (forall x y, eqb x y = true <-> x = y) ->
  forall a b, list_eqb eqb a b = true <-> a = b.
Proof.
  intros H a; induction a as [|x a IH]; intros [|y b]; simpl; split; intro E;
    try reflexivity; try discriminate.
  - apply andb_true_iff in E as [E1 E2]. apply H in E1. apply IH in E2. congruence.
  - inversion E; subst. apply andb_true_iff; split; [apply H | apply IH]; reflexivity.
Qed.
