// C01/C03 driver: a real tsm1.Engine (tsi1 index, series file, WAL on, background
// compactions off) executes generated histories step by step:
//
//	write        Engine.WritePoints
//	snap         Engine.WriteSnapshot (begin+commit atomically)
//	snapbegin    Engine.WriteSnapshot on a goroutine, parked at the verif hook point
//	             "tsm1.snapshot:after-cache-snapshot" (after Cache.Snapshot(), engine lock released)
//	snapcommit   release the parked snapshot and wait for it
//	snapfail     a WriteSnapshot whose Compactor.WriteSnapshot fails (snapshots disabled) -> ClearSnapshot(false)
//	compact      Compactor.CompactFull/CompactFast on a contiguous run of files + FileStore.Replace (= compactGroup)
//	delete       Engine.DeleteSeriesRange
//	read         CreateCursorIterator -> typed array cursor, ascending or descending, drained
//
// One case = one history with every observation; the Coq judge (coq/Model/C01.v) replays it.
package main

import (
	"context"
	"fmt"
	"math"
	"os"
	"path/filepath"
	"sort"
	"sync"
	"time"

	"github.com/influxdata/influxdb/v2/models"
	"github.com/influxdata/influxdb/v2/pkg/verifhook"
	"github.com/influxdata/influxdb/v2/tsdb"
	"github.com/influxdata/influxdb/v2/tsdb/cursors"
	"github.com/influxdata/influxdb/v2/tsdb/engine/tsm1"
	_ "github.com/influxdata/influxdb/v2/tsdb/index"
	"github.com/influxdata/influxql"
	"go.uber.org/zap"
	"verifh/vh"
)

const nSeries, nFields = 2, 2 // model key = series*nFields + field; field 0 integer, field 1 float

type jpoint struct {
	Series int   `json:"s"`
	Field  int   `json:"f"`
	T      int64 `json:"t"`
	V      int64 `json:"v"`
}
type jstep struct {
	Op     string   `json:"op"`
	Points []jpoint `json:"points,omitempty"` // write
	I      int      `json:"i,omitempty"`      // compact: first file index
	N      int      `json:"n,omitempty"`      // compact: number of files
	Fast   bool     `json:"fast,omitempty"`
	Series []int    `json:"series,omitempty"` // delete
	Key    int      `json:"key,omitempty"`    // read
	Lo     int64    `json:"lo,omitempty"`
	Hi     int64    `json:"hi,omitempty"`
	Asc    bool     `json:"asc,omitempty"`
	// observations
	OK  bool       `json:"impl_ok"`
	Res [][2]int64 `json:"impl_res"`
	Err string     `json:"impl_err,omitempty"`
}
type jcase struct {
	Steps []jstep `json:"steps"`
}

type seriesIterator struct{ keys [][]byte }
type series struct {
	name []byte
	tags models.Tags
}

func (s series) Name() []byte            { return s.name }
func (s series) Tags() models.Tags       { return s.tags }
func (s series) Deleted() bool           { return false }
func (s series) Expr() influxql.Expr     { return nil }
func (itr *seriesIterator) Close() error { return nil }
func (itr *seriesIterator) Next() (tsdb.SeriesElem, error) {
	if len(itr.keys) == 0 {
		return nil, nil
	}
	name, tags := models.ParseKeyBytes(itr.keys[0])
	itr.keys = itr.keys[1:]
	return series{name: name, tags: tags}, nil
}

type seriesIDSets []*tsdb.SeriesIDSet

func (a seriesIDSets) ForEach(f func(ids *tsdb.SeriesIDSet)) error {
	for _, v := range a {
		f(v)
	}
	return nil
}

type eng struct {
	*tsm1.Engine
	root  string
	sfile *tsdb.SeriesFile
	idx   tsdb.Index
	// parked snapshot
	parked  bool
	release chan struct{}
	done    chan error
}

var hookMu sync.Mutex
var hookWant string
var hookReached chan struct{}
var hookRelease chan struct{}

func openEngine(root string) (*eng, error) {
	dbPath := filepath.Join(root, "data", "db0")
	if err := os.MkdirAll(dbPath, 0o777); err != nil {
		return nil, err
	}
	sfile := tsdb.NewSeriesFile(filepath.Join(dbPath, tsdb.SeriesFileDirectory))
	sfile.Logger = zap.NewNop()
	if err := sfile.Open(); err != nil {
		return nil, err
	}
	opt := tsdb.NewEngineOptions()
	opt.IndexVersion = tsdb.TSI1IndexName
	ids := tsdb.NewSeriesIDSet()
	opt.SeriesIDSets = seriesIDSets([]*tsdb.SeriesIDSet{ids})
	idx := tsdb.MustOpenIndex(1, "db0", filepath.Join(dbPath, "index"), ids, sfile, opt)
	e := tsm1.NewEngine(1, idx, filepath.Join(root, "data"), filepath.Join(root, "wal"), sfile, opt).(*tsm1.Engine)
	e.SetEnabled(false) // no background snapshot/compaction goroutines; the driver places them
	if err := e.Open(context.Background()); err != nil {
		return nil, err
	}
	for s := 0; s < nSeries; s++ {
		if err := e.CreateSeriesIfNotExists(seriesKey(s), []byte("m"), seriesTags(s)); err != nil {
			return nil, err
		}
	}
	mf := e.MeasurementFields([]byte("m"))
	mf.CreateFieldIfNotExists("f0", influxql.Integer)
	mf.CreateFieldIfNotExists("f1", influxql.Float)
	return &eng{Engine: e, root: root, sfile: sfile, idx: idx}, nil
}

func (e *eng) close() {
	if e.parked {
		close(e.release)
		<-e.done
		e.parked = false
	}
	e.Engine.Close(false)
	e.idx.Close()
	e.sfile.Close()
	os.RemoveAll(e.root)
}

func seriesTags(s int) models.Tags { return models.NewTags(map[string]string{"s": fmt.Sprint(s)}) }
func seriesKey(s int) []byte       { return models.MakeKey([]byte("m"), seriesTags(s)) }

func (e *eng) exec(st *jstep) {
	st.OK, st.Err, st.Res = true, "", nil
	fail := func(err error) {
		if err != nil {
			st.OK = false
			st.Err = err.Error()
		}
	}
	switch st.Op {
	case "write":
		// one models.Point per (series,time) run of consecutive entries is not required:
		// each entry becomes its own point so batch order = entry order per key.
		var pts []models.Point
		for _, p := range st.Points {
			var fields models.Fields
			if p.Field == 0 {
				fields = models.Fields{"f0": p.V}
			} else {
				fields = models.Fields{"f1": float64(p.V)}
			}
			pt, err := models.NewPoint("m", seriesTags(p.Series), fields, time.Unix(0, p.T))
			if err != nil {
				fail(err)
				return
			}
			pts = append(pts, pt)
		}
		// what tsdb.Shard.WritePoints does before handing points to the engine: make sure the
		// series and the field definitions exist (a delete that empties a measurement drops them)
		mf := e.MeasurementFields([]byte("m"))
		mf.CreateFieldIfNotExists("f0", influxql.Integer)
		mf.CreateFieldIfNotExists("f1", influxql.Float)
		for _, p := range st.Points {
			if err := e.CreateSeriesIfNotExists(seriesKey(p.Series), []byte("m"), seriesTags(p.Series)); err != nil {
				fail(err)
				return
			}
		}
		fail(e.WritePoints(context.Background(), pts))
	case "snap":
		if e.parked {
			err := e.WriteSnapshot()
			if err == nil {
				fail(fmt.Errorf("WriteSnapshot succeeded while another snapshot is in progress"))
			} else {
				st.OK = false
				st.Err = "in-progress"
			}
			return
		}
		fail(e.WriteSnapshot())
	case "snapbegin":
		if e.parked {
			err := e.WriteSnapshot()
			st.OK = false
			if err == nil {
				st.Err = "unexpected success"
				st.OK = true
			}
			return
		}
		reached := make(chan struct{})
		e.release = make(chan struct{})
		e.done = make(chan error, 1)
		rel := e.release
		var once sync.Once
		verifhook.Set(func(name string) {
			if name == "tsm1.snapshot:after-cache-snapshot" {
				hit := false
				once.Do(func() { hit = true })
				if hit {
					close(reached)
					<-rel
				}
			}
		})
		go func() { e.done <- e.WriteSnapshot() }()
		select {
		case <-reached:
			e.parked = true
		case err := <-e.done:
			verifhook.Set(nil)
			fail(err)
			if err == nil {
				fail(fmt.Errorf("snapshot finished without reaching the hook point"))
			}
		case <-time.After(20 * time.Second):
			fail(fmt.Errorf("timeout waiting for snapshot hook"))
		}
	case "snapcommit":
		if !e.parked {
			st.OK = false
			return
		}
		close(e.release)
		err := <-e.done
		verifhook.Set(nil)
		e.parked = false
		fail(err)
	case "snapfail":
		if e.parked {
			// make the parked snapshot's file write fail: snapshots disabled in the compactor
			e.Compactor.DisableSnapshots()
			close(e.release)
			err := <-e.done
			verifhook.Set(nil)
			e.parked = false
			e.Compactor.EnableSnapshots()
			if err == nil {
				// an empty snapshot returns before writing; that is a successful (empty) commit
				st.Err = "empty-snapshot-committed"
			}
			st.OK = true
			return
		}
		st.OK = false
	case "compact":
		files := e.FileStore.Files()
		var paths []string
		for _, f := range files {
			paths = append(paths, f.Path())
		}
		sort.Strings(paths)
		if st.N < 1 || st.I+st.N > len(paths) {
			st.OK = false
			return
		}
		group := paths[st.I : st.I+st.N]
		var out []string
		var err error
		if st.Fast {
			out, err = e.Compactor.CompactFast(group, zap.NewNop(), tsdb.DefaultMaxPointsPerBlock)
		} else {
			out, err = e.Compactor.CompactFull(group, zap.NewNop(), 3) // tiny blocks: many blocks per key
		}
		if err != nil {
			fail(err)
			return
		}
		fail(e.FileStore.Replace(group, out))
	case "delete":
		var keys [][]byte
		for _, s := range st.Series {
			keys = append(keys, seriesKey(s))
		}
		fail(e.DeleteSeriesRange(context.Background(), &seriesIterator{keys: keys}, st.Lo, st.Hi))
	case "read":
		s, f := st.Key/nFields, st.Key%nFields
		itr, err := e.CreateCursorIterator(context.Background())
		if err != nil {
			fail(err)
			return
		}
		cur, err := itr.Next(context.Background(), &cursors.CursorRequest{
			Name: []byte("m"), Tags: seriesTags(s), Field: fmt.Sprintf("f%d", f),
			Ascending: st.Asc, StartTime: st.Lo, EndTime: st.Hi,
		})
		if err != nil {
			fail(err)
			return
		}
		st.Res = [][2]int64{}
		if cur == nil {
			return
		}
		defer cur.Close()
		switch c := cur.(type) {
		case cursors.IntegerArrayCursor:
			for {
				a := c.Next()
				if a.Len() == 0 {
					break
				}
				for i := range a.Timestamps {
					st.Res = append(st.Res, [2]int64{a.Timestamps[i], a.Values[i]})
				}
			}
		case cursors.FloatArrayCursor:
			for {
				a := c.Next()
				if a.Len() == 0 {
					break
				}
				for i := range a.Timestamps {
					v := a.Values[i]
					if v != math.Trunc(v) {
						fail(fmt.Errorf("non-integral float %v read back", v))
					}
					st.Res = append(st.Res, [2]int64{a.Timestamps[i], int64(v)})
				}
			}
		default:
			fail(fmt.Errorf("unexpected cursor type %T", cur))
		}
		fail(cur.Err())
	}
}

// ---- Gallina rendering ----
func opTerm(st *jstep, nfiles int) string {
	switch st.Op {
	case "write":
		xs := make([]string, len(st.Points))
		for i, p := range st.Points {
			xs[i] = fmt.Sprintf("(%s, %s, %s)", vh.N(uint64(p.Series*nFields+p.Field)), vh.Z(p.T), vh.Z(p.V))
		}
		return "Write " + vh.List(xs)
	case "snapbegin":
		return "SnapBegin"
	case "snapcommit":
		return "SnapCommit"
	case "snapfail":
		return "SnapFail"
	case "compact":
		return fmt.Sprintf("Compact %s %s", vh.Nat(st.I), vh.Nat(st.N))
	case "delete":
		var ks []string
		for _, s := range st.Series {
			for f := 0; f < nFields; f++ {
				ks = append(ks, vh.N(uint64(s*nFields+f)))
			}
		}
		return fmt.Sprintf("Delete %s %s %s", vh.List(ks), vh.Z(st.Lo), vh.Z(st.Hi))
	}
	panic("opTerm " + st.Op)
}

func caseTerm(c *jcase) string {
	var xs []string
	for i := range c.Steps {
		st := &c.Steps[i]
		switch st.Op {
		case "reopen": // invisible in the model
		case "snap": // atomic snapshot = begin; commit
			xs = append(xs, fmt.Sprintf("COp SnapBegin %s", vh.Bool(st.OK)), fmt.Sprintf("COp SnapCommit %s", vh.Bool(st.OK)))
		case "read":
			rs := make([]string, len(st.Res))
			for j, r := range st.Res {
				rs[j] = vh.Pair(vh.Z(r[0]), vh.Z(r[1]))
			}
			xs = append(xs, fmt.Sprintf("CRead %s %s %s %s %s", vh.N(uint64(st.Key)), vh.Z(st.Lo), vh.Z(st.Hi), vh.Bool(st.Asc), vh.List(rs)))
		default:
			xs = append(xs, fmt.Sprintf("COp (%s) %s", opTerm(st, 0), vh.Bool(st.OK)))
		}
	}
	return vh.List(xs)
}

// shape: does a delete fall while the snapshot store may be non-empty (between a snapbegin
// and the next successful commit, or after a failed snapshot until the next successful one)?

// contentSim: a coarse input-only simulation of where the points of each series-field key live (hot cache
// store / pending snapshot store / TSM files), used ONLY to recognise the shape of the known finding
// delete-during-pending-snapshot-drops-measurement-fields: a delete issued while a snapshot store is pending,
// naming every series written so far, after which none of those series has a point left in the hot store or in
// a TSM file while the pending snapshot store still holds points. (The engine then drops the series from the
// index and the measurement from the field set, because its reconciliation looks at the hot store and the
// files only; every later read of the measurement returns nothing until the fields are written again.)
type contentSim struct {
	hot, pend, tsm map[int]map[int64]bool
	written        map[int]bool
}

func newContentSim() *contentSim {
	return &contentSim{hot: map[int]map[int64]bool{}, pend: map[int]map[int64]bool{}, tsm: map[int]map[int64]bool{}, written: map[int]bool{}}
}
func simCount(m map[int]map[int64]bool) int {
	n := 0
	for _, v := range m {
		n += len(v)
	}
	return n
}
func simMove(dst, src map[int]map[int64]bool) {
	for k, v := range src {
		if dst[k] == nil {
			dst[k] = map[int64]bool{}
		}
		for t := range v {
			dst[k][t] = true
		}
		delete(src, k)
	}
}
func (s *contentSim) write(series, field int, t int64) {
	k := series*nFields + field
	if s.hot[k] == nil {
		s.hot[k] = map[int64]bool{}
	}
	s.hot[k][t] = true
	s.written[series] = true
}
func (s *contentSim) begin() { // Cache.Snapshot: a non-empty pending store is returned as it is
	if simCount(s.pend) == 0 {
		simMove(s.pend, s.hot)
	}
}
func (s *contentSim) commit() { simMove(s.tsm, s.pend) }
func (s *contentSim) restart() { simMove(s.hot, s.pend) }

// del applies a series range delete to the hot store and the files and reports the shape
func (s *contentSim) del(series []int, lo, hi int64) bool {
	named := map[int]bool{}
	for _, x := range series {
		named[x] = true
	}
	for _, m := range []map[int]map[int64]bool{s.hot, s.tsm} {
		for k, v := range m {
			if !named[k/nFields] {
				continue
			}
			for t := range v {
				if lo <= t && t <= hi {
					delete(v, t)
				}
			}
		}
	}
	if simCount(s.pend) == 0 {
		return false
	}
	for x := range s.written {
		if !named[x] {
			return false
		}
	}
	for _, m := range []map[int]map[int64]bool{s.hot, s.tsm} {
		for k, v := range m {
			if named[k/nFields] && len(v) > 0 {
				return false
			}
		}
	}
	return true
}

func overDeleteShape(c *jcase) bool {
	sim := newContentSim()
	for _, st := range c.Steps {
		switch st.Op {
		case "write":
			for _, p := range st.Points {
				sim.write(p.Series, p.Field, p.T)
			}
		case "snap":
			sim.begin()
			sim.commit()
		case "snapbegin":
			sim.begin()
		case "snapcommit":
			sim.commit()
		case "reopen":
			sim.restart()
		case "delete":
			if sim.del(st.Series, st.Lo, st.Hi) {
				return true
			}
		}
	}
	return false
}

func deleteDuringSnapshot(c *jcase) bool {
	pending := false
	for _, st := range c.Steps {
		switch st.Op {
		case "snapbegin":
			pending = true
		case "snapcommit":
			if st.OK {
				pending = false
			}
		case "snap":
			if st.OK {
				pending = false
			}
		case "delete":
			if pending {
				return true
			}
		}
	}
	return false
}

func runCase(w *vh.W, c *jcase, mode string) {
	root, err := os.MkdirTemp("", "verif-c01-")
	if err != nil {
		panic(err)
	}
	e, err := openEngine(root)
	if err != nil {
		fmt.Fprintln(os.Stderr, "open engine:", err)
		os.Exit(3)
	}
	var failure string
	for i := range c.Steps {
		st := &c.Steps[i]
		if st.Op == "reopen" {
			// clean restart of the shard engine (Close without flush + Open = WAL replay, TSM files and
			// tombstones reloaded). It is invisible in the model: the content must not change.
			// Only generated while no snapshot is pending and in histories without failed snapshots.
			if e.parked {
				st.OK = false
				continue
			}
			e.Engine.Close(false)
			e.idx.Close()
			e.sfile.Close()
			ne, err := openEngine(root)
			if err != nil {
				failure = fmt.Sprintf("step %d: reopen failed: %v", i, err)
				e = nil
				break
			}
			e = ne
			st.OK = true
			continue
		}
		if p := vh.Guard(func() { e.exec(st) }); p != "" {
			failure = fmt.Sprintf("panic at step %d (%s): %s", i, st.Op, p)
			break
		}
		if st.Err != "" && st.Op != "snap" && st.Op != "snapbegin" && st.Op != "snapfail" && st.Op != "snapcommit" {
			failure = fmt.Sprintf("step %d (%s) returned error: %s", i, st.Op, st.Err)
		}
	}
	if e != nil {
		e.close()
	} else {
		os.RemoveAll(root)
	}
	sig := ""
	if deleteDuringSnapshot(c) {
		sig = "delete-during-pending-snapshot"
	}
	if overDeleteShape(c) {
		sig = "delete-during-pending-snapshot-drops-measurement-fields"
	}
	nontrivial := false
	writes, reads := 0, 0
	for _, st := range c.Steps {
		if st.Op == "write" {
			writes++
		}
		if st.Op == "read" && len(st.Res) > 0 {
			reads++
		}
		w.Count("op", st.Op)
	}
	nontrivial = writes >= 2 && reads >= 1
	idx := w.Add(caseTerm(c), c, nontrivial, sig)
	if failure != "" {
		w.Fail(idx, failure, "")
	}
	w.Count("history_len", fmt.Sprint(len(c.Steps)/5*5))
	if sig != "" {
		w.Count("shape", sig)
	}
}

// genBanded: generation g writes a full band of 3 timestamps [3g,3g+2] of one or two keys and
// snapshots it, deletes hit exactly one band (so only the file holding that band gets a tombstone and
// the blocks of different files do not overlap), then contiguous runs are compacted with CompactFull
// (ppb=3: a 3-point block is a full block and is passed through undecoded) or CompactFast, with
// restarts in between. This is the shape in which a compaction must apply a tombstone that only a
// LATER file of the group carries.
func genBanded(w *vh.W, mode string) jcase {
	r := w.Rng
	var c jcase
	bands := 2 + r.IntN(3)
	ser := r.IntN(nSeries)
	fld := r.IntN(nFields)
	val := int64(1)
	for g := 0; g < bands; g++ {
		st := jstep{Op: "write"}
		for t := int64(3 * g); t < int64(3*g+3); t++ {
			st.Points = append(st.Points, jpoint{Series: ser, Field: fld, T: t, V: val})
			val++
			if r.IntN(3) == 0 {
				st.Points = append(st.Points, jpoint{Series: 1 - ser, Field: fld, T: t, V: val})
				val++
			}
		}
		c.Steps = append(c.Steps, st, jstep{Op: "snap"})
	}
	full := func(asc bool) jstep {
		return jstep{Op: "read", Key: ser*nFields + fld, Lo: models.MinNanoTime, Hi: models.MaxNanoTime, Asc: asc}
	}
	if mode == "c03" {
		b := 1 + r.IntN(bands-1) // never the first band: the tombstone is on a later file only
		lo, hi := int64(3*b), int64(3*b+2)
		if r.IntN(2) == 0 {
			lo++
		}
		c.Steps = append(c.Steps, jstep{Op: "delete", Series: []int{ser}, Lo: lo, Hi: hi}, full(true))
		if r.IntN(2) == 0 {
			c.Steps = append(c.Steps, jstep{Op: "reopen"}, full(false))
		}
	}
	i := r.IntN(bands - 1)
	c.Steps = append(c.Steps, jstep{Op: "compact", I: i, N: 2 + r.IntN(bands-i-1), Fast: r.IntN(2) == 0}, full(true))
	if r.IntN(2) == 0 {
		c.Steps = append(c.Steps, jstep{Op: "reopen"})
	}
	c.Steps = append(c.Steps, full(false))
	for k := 0; k < nSeries*nFields; k++ {
		c.Steps = append(c.Steps, jstep{Op: "read", Key: k, Lo: models.MinNanoTime, Hi: models.MaxNanoTime, Asc: k%2 == 0})
	}
	return c
}

// genMultiBlock: one key gets a run of 7-12 consecutive timestamps in ONE file, which a single-file
// CompactFull (ppb=3) re-writes as several 3-point blocks; later snapshots overwrite a few points around a
// block boundary (a newer file's block overlapping the tail of one older block and the head of the next);
// then the key is read ascending and descending over the whole range and over ranges that start one or two
// blocks earlier, so that the affected blocks are reached through KeyCursor.Next and not by the initial seek.
func genMultiBlock(w *vh.W) jcase {
	r := w.Rng
	var c jcase
	ser, fld := r.IntN(nSeries), r.IntN(nFields)
	key := ser*nFields + fld
	n := int64(7 + r.IntN(6))
	val := int64(1)
	st := jstep{Op: "write"}
	for t := int64(0); t < n; t++ {
		st.Points = append(st.Points, jpoint{Series: ser, Field: fld, T: t, V: val})
		val++
	}
	c.Steps = append(c.Steps, st, jstep{Op: "snap"}, jstep{Op: "compact", I: 0, N: 1})
	for g, ng := 0, 1+r.IntN(2); g < ng; g++ {
		b := int64(3 * (1 + r.IntN(int(n/3)))) // a block boundary: blocks are [0,2] [3,5] ...
		lo, hi := b-1-int64(r.IntN(2)), b+int64(r.IntN(2))
		st := jstep{Op: "write"}
		for t := lo; t <= hi && t < n; t++ {
			st.Points = append(st.Points, jpoint{Series: ser, Field: fld, T: t, V: 100*int64(g+1) + t})
		}
		c.Steps = append(c.Steps, st, jstep{Op: "snap"})
		if r.IntN(3) == 0 {
			c.Steps = append(c.Steps, jstep{Op: "reopen"})
		}
	}
	for _, asc := range []bool{true, false} {
		c.Steps = append(c.Steps, jstep{Op: "read", Key: key, Lo: models.MinNanoTime, Hi: models.MaxNanoTime, Asc: asc})
		lo := int64(r.IntN(4))
		c.Steps = append(c.Steps, jstep{Op: "read", Key: key, Lo: lo, Hi: n - 1 - int64(r.IntN(3)), Asc: asc})
	}
	if r.IntN(2) == 0 {
		c.Steps = append(c.Steps, jstep{Op: "compact", I: 0, N: 2, Fast: r.IntN(2) == 0},
			jstep{Op: "read", Key: key, Lo: models.MinNanoTime, Hi: models.MaxNanoTime, Asc: true})
	}
	return c
}

func gen(w *vh.W, mode string) jcase {
	r := w.Rng
	if r.IntN(4) == 0 {
		return genBanded(w, mode)
	}
	if r.IntN(8) == 0 {
		return genMultiBlock(w)
	}
	var c jcase
	withReopen := r.IntN(3) == 0 // such histories contain no failed snapshots (see C02's finding F15)
	n := 6 + r.IntN(18)
	nfiles := 0
	parked := false
	failed := false // a failed snapshot is pending (snapshot store non-empty)
	tdom := int64(8)
	rt := func() int64 {
		switch r.IntN(12) {
		case 0:
			return models.MinNanoTime + int64(r.IntN(2))
		case 1:
			return models.MaxNanoTime - int64(r.IntN(2))
		}
		return int64(r.IntN(int(tdom)))
	}
	read := func() jstep {
		lo, hi := int64(r.IntN(int(tdom)+2))-1, int64(r.IntN(int(tdom)+2))-1
		switch r.IntN(6) {
		case 0:
			lo, hi = models.MinNanoTime, models.MaxNanoTime
		case 1:
			lo = models.MinNanoTime
		case 2:
			hi = models.MaxNanoTime
		}
		return jstep{Op: "read", Key: r.IntN(nSeries * nFields), Lo: lo, Hi: hi, Asc: r.IntN(2) == 0}
	}
	for len(c.Steps) < n {
		x := r.IntN(100)
		switch {
		case x < 38:
			k := 1 + r.IntN(4)
			st := jstep{Op: "write"}
			if r.IntN(8) == 0 {
				// burst: 13-40 values for ONE key with many repeated timestamps in one cache generation
				// (above 12 elements Go's sort.Sort is no longer an insertion sort: dedup must stay stable)
				ser, fld := r.IntN(nSeries), r.IntN(nFields)
				for i, kk := 0, 13+r.IntN(28); i < kk; i++ {
					st.Points = append(st.Points, jpoint{Series: ser, Field: fld, T: int64(r.IntN(int(tdom))), V: int64(r.IntN(1000))})
				}
				c.Steps = append(c.Steps, st)
				continue
			}
			for i := 0; i < k; i++ {
				st.Points = append(st.Points, jpoint{Series: r.IntN(nSeries), Field: r.IntN(nFields), T: rt(), V: int64(r.IntN(1000))})
			}
			c.Steps = append(c.Steps, st)
		case x < 50:
			if parked {
				c.Steps = append(c.Steps, jstep{Op: "snapcommit"})
				parked = false
				failed = false
				nfiles++
			} else {
				c.Steps = append(c.Steps, jstep{Op: "snap"})
				failed = false
				nfiles++
			}
		case x < 58:
			if !parked {
				c.Steps = append(c.Steps, jstep{Op: "snapbegin"})
				parked = true
			}
		case x < 62:
			if parked && !withReopen {
				c.Steps = append(c.Steps, jstep{Op: "snapfail"})
				parked = false
				failed = true
			}
		case x < 72:
			// a compaction of a contiguous run (possibly invalid indexes: rejected on both sides)
			i, k := r.IntN(4), 1+r.IntN(3)
			c.Steps = append(c.Steps, jstep{Op: "compact", I: i, N: k, Fast: r.IntN(2) == 0})
		case x < 80 && mode != "c01":
			// deletes; in c03 mode they may fall inside a pending snapshot (the known finding shape)
			if (parked || failed) && mode == "c03" && r.IntN(3) != 0 {
				continue
			}
			lo, hi := rt(), rt()
			if r.IntN(4) != 0 && lo > hi {
				lo, hi = hi, lo
			}
			var ss []int
			for s := 0; s < nSeries; s++ {
				if r.IntN(2) == 0 {
					ss = append(ss, s)
				}
			}
			if len(ss) == 0 {
				ss = []int{r.IntN(nSeries)}
			}
			c.Steps = append(c.Steps, jstep{Op: "delete", Series: ss, Lo: lo, Hi: hi})
		case x < 84 && withReopen:
			if !parked && !failed {
				c.Steps = append(c.Steps, jstep{Op: "reopen"})
			}
		default:
			c.Steps = append(c.Steps, read())
		}
	}
	if parked {
		c.Steps = append(c.Steps, jstep{Op: "snapcommit"})
	}
	for k := 0; k < nSeries*nFields; k++ { // final full reads of every key, both directions
		c.Steps = append(c.Steps, jstep{Op: "read", Key: k, Lo: models.MinNanoTime, Hi: models.MaxNanoTime, Asc: k%2 == 0})
	}
	_ = failed
	_ = nfiles
	return c
}

func main() {
	mode := os.Getenv("VERIF_C01_MODE")
	for i, a := range os.Args {
		if a == "-mode" && i+1 < len(os.Args) {
			mode = os.Args[i+1]
			os.Args = append(os.Args[:i], os.Args[i+2:]...)
			break
		}
	}
	if mode == "" {
		mode = "c01"
	}
	id := map[string]string{"c01": "C01", "c03": "C03"}[mode]
	w := vh.New(id, "From Verif Require Import Base.Prelude Model.C01.", "case", "check")
	w.Rule = "random histories (6-24 ops + final full reads of all 4 keys) over 2 series x 2 fields (integer, float) x timestamps {0..7, MinNanoTime, MinNanoTime+1, MaxNanoTime-1, MaxNanoTime} (the valid point-time domain; read bounds stay inside it: a cursor seek at MinInt64 itself is outside the engine's documented time domain): writes (1-4 points, overwrites frequent), atomic snapshots, split snapshots (parked after Cache.Snapshot via the verif hook), failed snapshots, CompactFull(ppb=3)/CompactFast of contiguous file runs + Replace, " +
		map[string]string{"c01": "no deletes", "c03": "series range deletes (sometimes inside a pending snapshot: known-finding shape)"}[mode] +
		", range reads asc/desc. Non-trivial: >=2 writes and >=1 non-empty read. Distinct: distinct Gallina terms."
	var rc jcase
	if w.ReplayCase(&rc) {
		runCase(w, &rc, mode)
		w.Finish()
		return
	}
	// hand-picked regression histories first
	for _, c := range corpus(mode) {
		c := c
		runCase(w, &c, mode)
	}
	for w.Len() < w.N {
		c := gen(w, mode)
		runCase(w, &c, mode)
	}
	w.Finish()
}

func corpus(mode string) []jcase {
	full := func(k int, asc bool) jstep {
		return jstep{Op: "read", Key: k, Lo: models.MinNanoTime, Hi: models.MaxNanoTime, Asc: asc}
	}
	wr := func(ps ...jpoint) jstep { return jstep{Op: "write", Points: ps} }
	cs := []jcase{
		{Steps: []jstep{wr(jpoint{0, 0, 5, 10}, jpoint{0, 0, 3, 30}), {Op: "snap"}, wr(jpoint{0, 0, 5, 11}), {Op: "snap"}, wr(jpoint{0, 0, 5, 12}), full(0, true), {Op: "compact", I: 0, N: 2}, full(0, false)}},
		{Steps: []jstep{wr(jpoint{0, 1, 1, 1}, jpoint{0, 1, 1, 2}, jpoint{0, 1, 0, 3}), full(1, true), {Op: "snapbegin"}, wr(jpoint{0, 1, 1, 4}), full(1, true), {Op: "snapcommit"}, full(1, false)}},
	}
	if mode == "c03" {
		cs = append(cs,
			jcase{Steps: []jstep{wr(jpoint{0, 0, 5, 7}, jpoint{1, 0, 5, 8}), {Op: "snap"}, {Op: "delete", Series: []int{0}, Lo: 0, Hi: 9}, full(0, true), full(2, true), {Op: "snap"}, {Op: "compact", I: 0, N: 1}, full(0, true), full(2, true)}},
			// two deletes sharing their min time on two series of one file, then a restart (tombstone replay)
			jcase{Steps: []jstep{wr(jpoint{0, 0, 1, 1}, jpoint{0, 0, 4, 2}, jpoint{0, 0, 7, 3}, jpoint{1, 0, 1, 4}, jpoint{1, 0, 4, 5}, jpoint{1, 0, 7, 6}), {Op: "snap"},
				{Op: "delete", Series: []int{0}, Lo: 0, Hi: 7}, {Op: "delete", Series: []int{1}, Lo: 0, Hi: 2}, full(0, true), full(2, true), {Op: "reopen"}, full(0, true), full(2, true)}},
			// a tombstone only on the later file of a compaction group whose earlier file holds a full block
			jcase{Steps: []jstep{wr(jpoint{0, 0, 0, 1}, jpoint{0, 0, 1, 2}, jpoint{0, 0, 2, 3}), {Op: "snap"}, wr(jpoint{0, 0, 3, 4}, jpoint{0, 0, 4, 5}, jpoint{0, 0, 5, 6}), {Op: "snap"},
				{Op: "delete", Series: []int{0}, Lo: 4, Hi: 5}, full(0, true), {Op: "compact", I: 0, N: 2}, full(0, true), {Op: "reopen"}, full(0, false)}},
			// the known finding: delete between Cache.Snapshot() and the snapshot commit
			jcase{Steps: []jstep{wr(jpoint{0, 0, 5, 7}), {Op: "snapbegin"}, {Op: "delete", Series: []int{0}, Lo: 0, Hi: 10}, full(0, true), {Op: "snapcommit"}, full(0, true)}},
		)
	}
	return cs
}
