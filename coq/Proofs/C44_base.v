(** C44 — the named cryptographic hypotheses, the symbolic instance satisfies them,
    association-list algebra, stored-format lemmas, and the byte-level header parser. *)
From Verif Require Import Base.Prelude Model.C44.

(** * The trusted base: what is ASSUMED of SHA-256/512 + PHC encoding and of bcrypt. *)
Record crypto_ok (C : crypto) : Prop := {
  (** string equality is decidable equality *)
  ok_eqb : forall a b : str C, str_eqb C a b = true <-> a = b;
  (** a PHC string produced by variant [v]'s hasher is accepted by exactly variant [v]'s decoder *)
  ok_tvariant : forall v s, tvariant C (thash C v s) = Some v;
  (** ... and matches exactly the token it was made from (SHA collision freedom) *)
  ok_tmatch : forall v s q, tmatch C (thash C v s) q = str_eqb C s q;
  (** a PHC string is never the empty string *)
  ok_thash_set : forall v s, thash C v s <> empty C;
  (** a bcrypt hash verifies exactly the password it was made from, whatever salt/cost/minor
      (bcrypt collision freedom on the password domain) *)
  ok_pverify : forall n p q, pverify C (phash C n p) q = str_eqb C p q
}.

Lemma variant_eqb_spec a b : variant_eqb a b = true <-> a = b.
Proof. destruct a, b; simpl; split; intro H; try reflexivity; try discriminate. Qed.

Lemma sstr_eqb_refl a : sstr_eqb a a = true.
Proof.
  assert (forall v, variant_eqb v v = true) as VR by (intros []; reflexivity).
  induction a; simpl; rewrite ?N.eqb_refl, ?VR, ?IHa; auto.
Qed.

Lemma sstr_eqb_spec a b : sstr_eqb a b = true <-> a = b.
Proof.
  split.
  - revert b; induction a; intros [] H; simpl in H; try discriminate; auto.
    + apply andb_true_iff in H as [H H3]. apply andb_true_iff in H as [H1 H2].
      apply N.eqb_eq in H1, H2, H3. congruence.
    + apply andb_true_iff in H as [H1 H2]. apply variant_eqb_spec in H1.
      apply IHa in H2. congruence.
    + apply N.eqb_eq in H. congruence.
    + apply andb_true_iff in H as [H1 H2]. apply variant_eqb_spec in H1.
      apply N.eqb_eq in H2. congruence.
    + apply andb_true_iff in H as [H1 H2]. apply N.eqb_eq in H1. apply IHa in H2. congruence.
    + apply N.eqb_eq in H. congruence.
  - intros ->. apply sstr_eqb_refl.
Qed.

(** The hypotheses are satisfiable: the symbolic instance used by the judge meets them. *)
Lemma sym_ok : crypto_ok sym.
Proof.
  constructor; simpl.
  - apply sstr_eqb_spec.
  - reflexivity.
  - reflexivity.
  - discriminate.
  - reflexivity.
Qed.

(** * association lists *)
Section AssocLemmas.
  Context {K V : Type} (eqb : K -> K -> bool).
  Hypothesis eqb_spec : forall a b, eqb a b = true <-> a = b.

  Lemma eqb_refl' a : eqb a a = true. Proof. apply eqb_spec; reflexivity. Qed.
  Lemma eqb_neq a b : a <> b -> eqb a b = false.
  Proof. intro H. destruct (eqb a b) eqn:E; auto. apply eqb_spec in E. contradiction. Qed.

  Lemma aget_adel_same k (l : list (K * V)) : aget eqb k (adel eqb k l) = None.
  Proof.
    induction l as [|[k' v] l IH]; simpl; auto.
    destruct (eqb k k') eqn:E; auto. simpl. rewrite E. exact IH.
  Qed.

  Lemma aget_adel_other k k' (l : list (K * V)) : k <> k' -> aget eqb k (adel eqb k' l) = aget eqb k l.
  Proof.
    intro N. induction l as [|[k2 v] l IH]; simpl; auto.
    destruct (eqb k' k2) eqn:E.
    - apply eqb_spec in E. subst k2. rewrite (eqb_neq _ _ N). exact IH.
    - simpl. destruct (eqb k k2); auto.
  Qed.

  Lemma aget_aput_same k v (l : list (K * V)) : aget eqb k (aput eqb k v l) = Some v.
  Proof. unfold aput. simpl. rewrite eqb_refl'. reflexivity. Qed.

  Lemma aget_aput_other k k' v (l : list (K * V)) : k <> k' -> aget eqb k (aput eqb k' v l) = aget eqb k l.
  Proof. intro N. unfold aput. simpl. rewrite (eqb_neq _ _ N). apply aget_adel_other; auto. Qed.
End AssocLemmas.

Lemma Neqb_spec : forall a b : N, N.eqb a b = true <-> a = b.
Proof. intros; apply N.eqb_eq. Qed.

(** * stored token formats *)
Section Formats.
  Variable C : crypto.
  Hypothesis HC : crypto_ok C.

  Lemma seqb_refl (a : str C) : str_eqb C a a = true.
  Proof. apply (ok_eqb C HC). reflexivity. Qed.

  Lemma is_set_thash v s : is_set C (thash C v s) = true.
  Proof.
    unfold is_set. destruct (str_eqb C (thash C v s) (empty C)) eqn:E; auto.
    apply (ok_eqb C HC) in E. exfalso. eapply ok_thash_set; eauto.
  Qed.

  Lemma is_set_empty : is_set C (empty C) = false.
  Proof. unfold is_set. rewrite seqb_refl. reflexivity. Qed.

  (** A stored hash of either influxdb2 variant verifies exactly its own token, provided the
      variant's decoder is registered; with an unregistered variant it is an error, never a match. *)
  Lemma hmatch_thash ds v s q :
    hmatch C ds (thash C v s) q = if existsb (variant_eqb v) ds then Some (str_eqb C s q) else None.
  Proof. unfold hmatch. rewrite (ok_tvariant C HC), (ok_tmatch C HC). reflexivity. Qed.

  Lemma hmatch_own_only ds v s q :
    hmatch C ds (thash C v s) q = Some true <-> In v ds /\ s = q.
  Proof.
    rewrite hmatch_thash. destruct (existsb (variant_eqb v) ds) eqn:E.
    - apply existsb_exists in E as [v' [Hin Hv]]. apply variant_eqb_spec in Hv. subst v'.
      split.
      + intro H. inversion H as [H1]. apply (ok_eqb C HC) in H1. auto.
      + intros [_ ->]. rewrite seqb_refl. reflexivity.
    - split; [discriminate|]. intros [Hin _]. exfalso.
      assert (existsb (variant_eqb v) ds = true) as X.
      { apply existsb_exists. exists v. split; auto. apply variant_eqb_spec; reflexivity. }
      congruence.
  Qed.

  (** a string no decoder accepts (unknown identifier, bad base64, empty key) never matches *)
  Lemma hmatch_malformed ds h q : tvariant C h = None -> hmatch C ds h q = None.
  Proof. unfold hmatch. intros ->. reflexivity. Qed.

  Lemma pverify_own_only n p q : pverify C (phash C n p) q = true <-> p = q.
  Proof. rewrite (ok_pverify C HC). apply (ok_eqb C HC). Qed.

  Lemma thash_inj v s v' s' : thash C v s = thash C v' s' -> v = v' /\ s = s'.
  Proof.
    intro E. split.
    - pose proof (ok_tvariant C HC v s) as A. rewrite E, (ok_tvariant C HC) in A. congruence.
    - pose proof (ok_tmatch C HC v s s) as A. rewrite E, (ok_tmatch C HC), seqb_refl in A.
      apply (ok_eqb C HC) in A. auto.
  Qed.
End Formats.

(** * http.GetToken on bytes *)
Lemma list_eqb_N a b : list_eqb N.eqb a b = true <-> a = b.
Proof. apply list_eqb_spec. apply Neqb_spec. Qed.

Lemma firstn_skipn_len {A} n (l : list A) : (n <= length l)%nat -> length (firstn n l) = n.
Proof. intro H. rewrite firstn_length. lia. Qed.

Lemma get_token_sound h t : get_token h = Some t -> get_token_spec h t.
Proof.
  unfold get_token. destruct h as [|b h']; [discriminate|].
  remember (b :: h') as h eqn:Eh. clear Eh.
  destruct (Nat.leb 6 (length h) && fold_eq (firstn 6 h) scheme_token)%bool eqn:E1.
  - intro H. assert (t = skipn 6 h) as -> by congruence. apply andb_true_iff in E1 as [L F].
    apply Nat.leb_le in L. left. exists (firstn 6 h). split; [|split].
    + apply firstn_skipn_len; auto.
    + apply list_eqb_N in F. exact F.
    + symmetry; apply firstn_skipn.
  - destruct (Nat.ltb 7 (length h) && fold_eq (firstn 7 h) scheme_bearer)%bool eqn:E2; [|discriminate].
    intro H. assert (t = skipn 7 h) as -> by congruence. apply andb_true_iff in E2 as [L F].
    apply Nat.ltb_lt in L. right. exists (firstn 7 h). split; [|split; [|split]].
    + apply firstn_skipn_len; lia.
    + apply list_eqb_N in F. exact F.
    + symmetry; apply firstn_skipn.
    + intro X. pose proof (skipn_length 7 h) as Y. rewrite X in Y. simpl in Y. lia.
Qed.

Lemma get_token_complete h t : get_token_spec h t -> exists t', get_token h = Some t'.
Proof.
  intros [[p [Lp [Mp ->]]] | [p [Lp [Mp [-> Ht]]]]].
  - unfold get_token. destruct (p ++ t) as [|b r] eqn:E.
    { destruct p; simpl in *; discriminate. }
    rewrite <- E.
    assert (Nat.leb 6 (length (p ++ t)) = true) as A by (apply Nat.leb_le; rewrite app_length; lia).
    assert (firstn 6 (p ++ t) = p) as B.
    { rewrite <- Lp. rewrite firstn_app, Nat.sub_diag, firstn_all. simpl. apply app_nil_r. }
    rewrite A, B. unfold fold_eq. rewrite Mp.
    replace (list_eqb N.eqb (map lower scheme_token) (map lower scheme_token)) with true
      by (symmetry; apply list_eqb_N; reflexivity).
    simpl. eexists; reflexivity.
  - unfold get_token. destruct (p ++ t) as [|b r] eqn:E.
    { destruct p; simpl in *; discriminate. }
    rewrite <- E.
    destruct (Nat.leb 6 (length (p ++ t)) && fold_eq (firstn 6 (p ++ t)) scheme_token)%bool;
      [eexists; reflexivity|].
    assert (Nat.ltb 7 (length (p ++ t)) = true) as A.
    { apply Nat.ltb_lt. rewrite app_length. destruct t; [contradiction|simpl; lia]. }
    assert (firstn 7 (p ++ t) = p) as B.
    { rewrite <- Lp. rewrite firstn_app, Nat.sub_diag, firstn_all. simpl. apply app_nil_r. }
    rewrite A, B. unfold fold_eq. rewrite Mp.
    replace (list_eqb N.eqb (map lower scheme_bearer) (map lower scheme_bearer)) with true
      by (symmetry; apply list_eqb_N; reflexivity).
    simpl. eexists; reflexivity.
Qed.

(** absent and short headers are rejected *)
Lemma get_token_short h : (length h < 6)%nat -> get_token h = None.
Proof.
  intro L. unfold get_token. destruct h as [|b h']; auto.
  remember (b :: h') as h eqn:Eh. clear Eh.
  replace (Nat.leb 6 (length h)) with false by (symmetry; apply Nat.leb_gt; lia).
  replace (Nat.ltb 7 (length h)) with false by (symmetry; apply Nat.ltb_ge; lia).
  reflexivity.
Qed.
