// C39 driver: concurrent mixes of writes, range reads, series deletes, cache snapshots,
// planner-driven compactions, backups and a final Close racing with readers, on a real
// tsm1.Engine (several goroutines, GOMAXPROCS perturbation through the verif hook points).
//
// Every operation is stamped with invocation/response times from one atomic counter.
// The driver searches (WGL-style, memoised) for a linearisation of the completed
// writes/deletes/reads that respects real-time order and under which every read returns
// exactly the last-write-wins content; the linearisation found is emitted as a sequential
// history and VALIDATED BY THE COQ JUDGE of Model/C01.v (the proved sequential
// specification).  No linearisation, a panic, a hang or an unexpected error is reported
// as an implementation failure.  With -race builds (thorough tier) the race detector
// aborts the run on the first data race.
package main

import (
	"context"
	"fmt"
	"io"
	"math"
	"os"
	"path/filepath"
	"runtime"
	"sort"
	"strings"
	"sync"
	"sync/atomic"
	"time"

	"github.com/influxdata/influxdb/v2/models"
	"github.com/influxdata/influxdb/v2/pkg/limiter"
	"github.com/influxdata/influxdb/v2/pkg/verifhook"
	"github.com/influxdata/influxdb/v2/tsdb"
	"github.com/influxdata/influxdb/v2/tsdb/cursors"
	"github.com/influxdata/influxdb/v2/tsdb/engine/tsm1"
	_ "github.com/influxdata/influxdb/v2/tsdb/index"
	"github.com/influxdata/influxql"
	"go.uber.org/zap"
	"verifh/vh"
)

const nSeries, nFields = 2, 2

type jpoint struct {
	Series int   `json:"s"`
	Field  int   `json:"f"`
	T      int64 `json:"t"`
	V      int64 `json:"v"`
}
type jop struct {
	G      int      `json:"g"` // goroutine
	Op     string   `json:"op"`
	Points []jpoint `json:"points,omitempty"`
	Series []int    `json:"series,omitempty"`
	Keys   []int    `json:"keys,omitempty"` // judged part of a delete: one series-field key
	Key    int      `json:"key,omitempty"`
	Lo     int64    `json:"lo,omitempty"`
	Hi     int64    `json:"hi,omitempty"`
	Asc    bool     `json:"asc,omitempty"`
	// observations
	Inv int64      `json:"inv"`
	Ret int64      `json:"ret"`
	Res [][2]int64 `json:"res,omitempty"`
	Err string     `json:"err,omitempty"`
}
type jcase struct {
	Kind string  `json:"kind,omitempty"` // "" = free-running goroutines; "ec" = engine-driven compaction held in Replace while two deletes arrive
	Cold bool    `json:"cold,omitempty"` // no warm-up write: the first writes race with Cache.init (C09's finding)
	Plan [][]jop `json:"plan"`           // per goroutine: the ops it will issue
	Hist []jop   `json:"hist,omitempty"` // observed history
	Lin  []int   `json:"lin,omitempty"`  // linearisation found (indices into Hist)
	Note string  `json:"note,omitempty"`
}

type seriesIterator struct{ keys [][]byte }
type series struct {
	name []byte
	tags models.Tags
}

func (s series) Name() []byte            { return s.name }
func (s series) Tags() models.Tags       { return s.tags }
func (s series) Deleted() bool           { return false }
func (s series) Expr() influxql.Expr     { return nil }
func (itr *seriesIterator) Close() error { return nil }
func (itr *seriesIterator) Next() (tsdb.SeriesElem, error) {
	if len(itr.keys) == 0 {
		return nil, nil
	}
	name, tags := models.ParseKeyBytes(itr.keys[0])
	itr.keys = itr.keys[1:]
	return series{name: name, tags: tags}, nil
}

type seriesIDSets []*tsdb.SeriesIDSet

func (a seriesIDSets) ForEach(f func(ids *tsdb.SeriesIDSet)) error {
	for _, v := range a {
		f(v)
	}
	return nil
}

var (
	gsfile *tsdb.SeriesFile
	gidx   tsdb.Index
	gopt   tsdb.EngineOptions
	groot  string
)

func openShared() {
	var err error
	groot, err = os.MkdirTemp("", "verif-c39-shared-")
	if err != nil {
		panic(err)
	}
	gsfile = tsdb.NewSeriesFile(filepath.Join(groot, tsdb.SeriesFileDirectory))
	gsfile.Logger = zap.NewNop()
	if err := gsfile.Open(); err != nil {
		panic(err)
	}
	gopt = tsdb.NewEngineOptions()
	gopt.IndexVersion = tsdb.TSI1IndexName
	gopt.CompactionLimiter = limiter.NewFixed(20) // the engine's own compaction loop needs one (kind ec)
	ids := tsdb.NewSeriesIDSet()
	gopt.SeriesIDSets = seriesIDSets([]*tsdb.SeriesIDSet{ids})
	gidx = tsdb.MustOpenIndex(1, "db0", filepath.Join(groot, "index"), ids, gsfile, gopt)
}
func closeShared() { gidx.Close(); gsfile.Close(); os.RemoveAll(groot) }

func seriesTags(s int) models.Tags { return models.NewTags(map[string]string{"s": fmt.Sprint(s)}) }
func seriesKey(s int) []byte       { return models.MakeKey([]byte("m"), seriesTags(s)) }

func ensure(e *tsm1.Engine, ss []int) error {
	mf := e.MeasurementFields([]byte("m"))
	mf.CreateFieldIfNotExists("f0", influxql.Integer)
	mf.CreateFieldIfNotExists("f1", influxql.Float)
	for _, s := range ss {
		if err := e.CreateSeriesIfNotExists(seriesKey(s), []byte("m"), seriesTags(s)); err != nil {
			return err
		}
	}
	return nil
}

func readKey(e *tsm1.Engine, key int, lo, hi int64, asc bool) ([][2]int64, error) {
	s, f := key/nFields, key%nFields
	itr, err := e.CreateCursorIterator(context.Background())
	if err != nil {
		return nil, err
	}
	cur, err := itr.Next(context.Background(), &cursors.CursorRequest{Name: []byte("m"), Tags: seriesTags(s), Field: fmt.Sprintf("f%d", f), Ascending: asc, StartTime: lo, EndTime: hi})
	if err != nil {
		return nil, err
	}
	res := [][2]int64{}
	if cur == nil {
		return res, nil
	}
	defer cur.Close()
	switch c := cur.(type) {
	case cursors.IntegerArrayCursor:
		for a := c.Next(); a.Len() > 0; a = c.Next() {
			for i := range a.Timestamps {
				res = append(res, [2]int64{a.Timestamps[i], a.Values[i]})
			}
		}
	case cursors.FloatArrayCursor:
		for a := c.Next(); a.Len() > 0; a = c.Next() {
			for i := range a.Timestamps {
				if a.Values[i] != math.Trunc(a.Values[i]) {
					return nil, fmt.Errorf("non-integral float")
				}
				res = append(res, [2]int64{a.Timestamps[i], int64(a.Values[i])})
			}
		}
	}
	return res, cur.Err()
}

var clock int64

func exec(e *tsm1.Engine, op *jop, closed *atomic.Bool) {
	op.Inv = atomic.AddInt64(&clock, 1)
	defer func() { op.Ret = atomic.AddInt64(&clock, 1) }()
	fail := func(err error) {
		if err != nil {
			op.Err = err.Error()
		}
	}
	switch op.Op {
	case "write":
		var pts []models.Point
		var ss []int
		for _, p := range op.Points {
			var fields models.Fields
			if p.Field == 0 {
				fields = models.Fields{"f0": p.V}
			} else {
				fields = models.Fields{"f1": float64(p.V)}
			}
			pt, _ := models.NewPoint("m", seriesTags(p.Series), fields, time.Unix(0, p.T))
			pts = append(pts, pt)
			ss = append(ss, p.Series)
		}
		if err := ensure(e, ss); err != nil {
			fail(err)
			return
		}
		fail(e.WritePoints(context.Background(), pts))
	case "read":
		r, err := readKey(e, op.Key, op.Lo, op.Hi, op.Asc)
		op.Res = r
		fail(err)
	case "delete":
		var keys [][]byte
		for _, s := range op.Series {
			keys = append(keys, seriesKey(s))
		}
		fail(e.DeleteSeriesRange(context.Background(), &seriesIterator{keys: keys}, op.Lo, op.Hi))
	case "snapshot":
		err := e.WriteSnapshot()
		if err != nil && err != tsm1.ErrSnapshotInProgress {
			fail(err)
		}
	case "compact":
		// what Engine.compact does for one level: plan, compact, replace, release
		level := 1 + int(op.Lo)%3
		gens := e.CompactionPlan.FindGenerations()
		groups, _ := e.CompactionPlan.PlanLevel(gens, level)
		if len(groups) == 0 && op.Hi%2 == 0 {
			groups, _, _ = e.CompactionPlan.PlanOptimize(gens, time.Now())
		}
		for _, g := range groups {
			var out []string
			var err error
			if op.Asc {
				out, err = e.Compactor.CompactFast(g, zap.NewNop(), tsdb.DefaultMaxPointsPerBlock)
			} else {
				out, err = e.Compactor.CompactFull(g, zap.NewNop(), 3)
			}
			if err == nil {
				err = e.FileStore.Replace(g, out)
			}
			if err != nil && !strings.Contains(err.Error(), "compaction") && !closed.Load() {
				fail(err)
			}
		}
		e.CompactionPlan.Release(groups)
	case "backup":
		fail(e.Backup(io.Discard, "", time.Time{}))
	}
}

// ---- sequential specification used as the SEARCH ENGINE only (the judge is Coq) ----
type spec map[int]map[int64]int64

func (s spec) clone() spec {
	c := spec{}
	for k, m := range s {
		n := map[int64]int64{}
		for t, v := range m {
			n[t] = v
		}
		c[k] = n
	}
	return c
}
func (s spec) apply(op *jop) {
	switch op.Op {
	case "write":
		for _, p := range op.Points {
			k := p.Series*nFields + p.Field
			if s[k] == nil {
				s[k] = map[int64]int64{}
			}
			s[k][p.T] = p.V
		}
	case "delete":
		for _, k := range delKeys(op) {
			for t := range s[k] {
				if op.Lo <= t && t <= op.Hi {
					delete(s[k], t)
				}
			}
		}
	}
}
func delKeys(op *jop) []int {
	if len(op.Keys) > 0 {
		return op.Keys
	}
	var ks []int
	for _, sr := range op.Series {
		for f := 0; f < nFields; f++ {
			ks = append(ks, sr*nFields+f)
		}
	}
	return ks
}
func (s spec) read(op *jop) [][2]int64 {
	var ts []int64
	for t := range s[op.Key] {
		if op.Lo <= t && t <= op.Hi {
			ts = append(ts, t)
		}
	}
	sort.Slice(ts, func(i, j int) bool { return (ts[i] < ts[j]) == op.Asc })
	out := [][2]int64{}
	for _, t := range ts {
		out = append(out, [2]int64{t, s[op.Key][t]})
	}
	return out
}
func (s spec) hash() string {
	var b strings.Builder
	ks := []int{}
	for k := range s {
		ks = append(ks, k)
	}
	sort.Ints(ks)
	for _, k := range ks {
		ts := []int64{}
		for t := range s[k] {
			ts = append(ts, t)
		}
		sort.Slice(ts, func(i, j int) bool { return ts[i] < ts[j] })
		for _, t := range ts {
			fmt.Fprintf(&b, "%d:%d=%d;", k, t, s[k][t])
		}
	}
	return b.String()
}
func eqRes(a, b [][2]int64) bool {
	if len(a) != len(b) {
		return false
	}
	for i := range a {
		if a[i] != b[i] {
			return false
		}
	}
	return true
}

// linearise: hist = relevant completed ops (write/delete/read). Returns an order or nil.
func linearise(hist []jop) []int {
	n := len(hist)
	memo := map[string]bool{}
	var order []int
	var rec func(done uint64, st spec) bool
	rec = func(done uint64, st spec) bool {
		if done == (uint64(1)<<uint(n))-1 {
			return true
		}
		key := fmt.Sprintf("%x|%s", done, st.hash())
		if memo[key] {
			return false
		}
		// minimal response time among pending ops: an op can go next only if it was invoked before that
		minRet := int64(math.MaxInt64)
		for i := 0; i < n; i++ {
			if done&(1<<uint(i)) == 0 && hist[i].Ret < minRet {
				minRet = hist[i].Ret
			}
		}
		for i := 0; i < n; i++ {
			if done&(1<<uint(i)) != 0 || hist[i].Inv > minRet {
				continue
			}
			op := &hist[i]
			if op.Op == "read" {
				if !eqRes(st.read(op), op.Res) {
					continue
				}
				order = append(order, i)
				if rec(done|1<<uint(i), st) {
					return true
				}
				order = order[:len(order)-1]
			} else {
				ns := st.clone()
				ns.apply(op)
				order = append(order, i)
				if rec(done|1<<uint(i), ns) {
					return true
				}
				order = order[:len(order)-1]
			}
		}
		memo[key] = true
		return false
	}
	if rec(0, spec{}) {
		return order
	}
	return nil
}

// ---- Gallina: the linearised history as a Model.C01 case ----
func term(hist []jop, lin []int) string {
	var xs []string
	for _, i := range lin {
		op := &hist[i]
		switch op.Op {
		case "write":
			ps := make([]string, len(op.Points))
			for j, p := range op.Points {
				ps[j] = fmt.Sprintf("(%s, %s, %s)", vh.N(uint64(p.Series*nFields+p.Field)), vh.Z(p.T), vh.Z(p.V))
			}
			xs = append(xs, "COp (Write "+vh.List(ps)+") true")
		case "delete":
			var ks []string
			for _, k := range delKeys(op) {
				ks = append(ks, vh.N(uint64(k)))
			}
			xs = append(xs, fmt.Sprintf("COp (Delete %s %s %s) true", vh.List(ks), vh.Z(op.Lo), vh.Z(op.Hi)))
		case "read":
			rs := make([]string, len(op.Res))
			for j, r := range op.Res {
				rs[j] = vh.Pair(vh.Z(r[0]), vh.Z(r[1]))
			}
			xs = append(xs, fmt.Sprintf("CRead %s %s %s %s %s", vh.N(uint64(op.Key)), vh.Z(op.Lo), vh.Z(op.Hi), vh.Bool(op.Asc), vh.List(rs)))
		}
	}
	return vh.List(xs)
}

func runCase(w *vh.W, c *jcase) {
	root, _ := os.MkdirTemp("", "verif-c39-")
	defer os.RemoveAll(root)
	os.MkdirAll(filepath.Join(root, "data"), 0o777)
	e := tsm1.NewEngine(1, gidx, filepath.Join(root, "data"), filepath.Join(root, "wal"), gsfile, gopt).(*tsm1.Engine)
	if c.Kind != "ec" {
		e.SetEnabled(false)
	}
	if err := e.Open(context.Background()); err != nil {
		fmt.Fprintln(os.Stderr, "open:", err)
		os.Exit(3)
	}
	ensure(e, []int{0, 1})
	atomic.StoreInt64(&clock, 0)
	if c.Kind == "ec" {
		judge(w, c, runEC(w, e, c))
		return
	}
	// schedule perturbation at the hook points inside snapshot / replace / delete
	var pert uint64
	verifhook.Set(func(string) {
		if v := atomic.AddUint64(&pert, 1); v%2 == 0 {
			runtime.Gosched()
		} else {
			time.Sleep(time.Duration(v%5) * 50 * time.Microsecond)
		}
	})
	// Warm-up: unless the case is marked cold, one acknowledged write completes before the
	// goroutines start; cold cases let the first concurrent writes race with the cache's lazy
	// initialisation (tsm1.Cache.init used to publish its flag before installing the ring store,
	// which made an acknowledged write invisible until restart; repaired in 8c4ebc52a3).
	var warm *jop
	if !c.Cold {
		warm = &jop{G: 99, Op: "write", Points: []jpoint{{Series: 0, Field: 0, T: 100, V: 1000000}}}
		var cl atomic.Bool
		exec(e, warm, &cl)
	}
	var closed atomic.Bool
	var wg sync.WaitGroup
	var panics []string
	var pmu sync.Mutex
	results := make([][]jop, len(c.Plan))
	for g := range c.Plan {
		wg.Add(1)
		go func(g int) {
			defer wg.Done()
			ops := make([]jop, len(c.Plan[g]))
			copy(ops, c.Plan[g])
			for i := range ops {
				ops[i].G = g
				if p := vh.Guard(func() { exec(e, &ops[i], &closed) }); p != "" {
					pmu.Lock()
					panics = append(panics, fmt.Sprintf("goroutine %d op %d (%s): panic: %s", g, i, ops[i].Op, p))
					pmu.Unlock()
				}
			}
			results[g] = ops
		}(g)
	}
	doneCh := make(chan struct{})
	go func() { wg.Wait(); close(doneCh) }()
	failure := ""
	select {
	case <-doneCh:
	case <-time.After(60 * time.Second):
		failure = "TIMEOUT: operations did not complete within 60 s (deadlock?)"
	}
	if failure == "" {
		// final phase: Close racing with two readers (only panics/hangs matter here)
		var wg2 sync.WaitGroup
		for r := 0; r < 2; r++ {
			wg2.Add(1)
			go func(r int) {
				defer wg2.Done()
				for i := 0; i < 3; i++ {
					if p := vh.Guard(func() { readKey(e, (r+i)%4, models.MinNanoTime, models.MaxNanoTime, i%2 == 0) }); p != "" {
						pmu.Lock()
						panics = append(panics, "reader racing with Close: panic: "+p)
						pmu.Unlock()
					}
				}
			}(r)
		}
		closed.Store(true)
		cerr := make(chan error, 1)
		go func() { cerr <- e.Close(false) }()
		select {
		case err := <-cerr:
			if err != nil {
				failure = "Close: " + err.Error()
			}
		case <-time.After(60 * time.Second):
			failure = "TIMEOUT: Close did not return within 60 s (deadlock?)"
		}
		wg2.Wait()
	}
	verifhook.Set(nil)
	c.Hist = nil
	if warm != nil {
		c.Hist = append(c.Hist, *warm)
	}
	for _, ops := range results {
		c.Hist = append(c.Hist, ops...)
	}
	sort.Slice(c.Hist, func(i, j int) bool { return c.Hist[i].Inv < c.Hist[j].Inv })
	if len(panics) > 0 && failure == "" {
		failure = strings.Join(panics, "; ")
	}
	judge(w, c, failure)
}

// runEC: the engine's OWN compaction loop (compactions enabled) runs a forced full compaction; the
// compaction goroutine is held at the verif hook point inside FileStore.Replace (after it has read its
// inputs and written its output, before the file set is swapped) while two deletes arrive one after the
// other; then it is released. Plan[0] = sequential set-up (writes + snapshots), Plan[1] / Plan[2] = the two
// deletes, Plan[3] = sequential reads (and writes) afterwards. The observed history is judged like any other.
func runEC(w *vh.W, e *tsm1.Engine, c *jcase) (failure string) {
	var closed atomic.Bool
	var mu sync.Mutex
	c.Hist = nil
	do := func(g int, op jop) {
		op.G = g
		p := vh.Guard(func() { exec(e, &op, &closed) })
		mu.Lock()
		if p != "" && failure == "" {
			failure = fmt.Sprintf("%s: panic: %s", op.Op, p)
		}
		c.Hist = append(c.Hist, op)
		mu.Unlock()
	}
	for _, op := range c.Plan[0] {
		do(0, op)
	}
	var armed atomic.Bool
	inReplace := make(chan struct{}, 1)
	release := make(chan struct{})
	verifhook.Set(func(name string) {
		if name == "tsm1.replace:after-rename" && armed.CompareAndSwap(true, false) {
			inReplace <- struct{}{}
			select {
			case <-release:
			case <-time.After(20 * time.Second):
			}
		}
	})
	defer verifhook.Set(nil)
	if err := e.ScheduleFullCompaction(); err != nil && failure == "" {
		failure = "ScheduleFullCompaction: " + err.Error()
	}
	armed.Store(true)
	held := false
	select {
	case <-inReplace:
		held = true
	case <-time.After(5 * time.Second):
		armed.Store(false)
	}
	w.Count("ec_compaction_held_in_replace", fmt.Sprint(held))
	var wg sync.WaitGroup
	for g := 1; g <= 2; g++ {
		wg.Add(1)
		go func(g int) {
			defer wg.Done()
			for _, op := range c.Plan[g] {
				do(g, op)
			}
		}(g)
		time.Sleep(60 * time.Millisecond)
	}
	time.Sleep(150 * time.Millisecond)
	close(release)
	doneCh := make(chan struct{})
	go func() { wg.Wait(); close(doneCh) }()
	select {
	case <-doneCh:
	case <-time.After(60 * time.Second):
		return "TIMEOUT: deletes did not complete within 60 s of the compaction being released (deadlock?)"
	}
	for _, op := range c.Plan[3] {
		do(3, op)
	}
	closed.Store(true)
	cerr := make(chan error, 1)
	go func() { cerr <- e.Close(false) }()
	select {
	case err := <-cerr:
		if err != nil && failure == "" {
			failure = "Close: " + err.Error()
		}
	case <-time.After(60 * time.Second):
		failure = "TIMEOUT: Close did not return within 60 s (deadlock?)"
	}
	sort.Slice(c.Hist, func(i, j int) bool { return c.Hist[i].Inv < c.Hist[j].Inv })
	return failure
}

func judge(w *vh.W, c *jcase, failure string) {
	// unexpected errors
	sig := ""
	var rel []jop
	snaps, dels := [][2]int64{}, [][2]int64{}
	for _, op := range c.Hist {
		w.Count("op", op.Op)
		if op.Err != "" && failure == "" {
			failure = fmt.Sprintf("%s by goroutine %d returned error: %s", op.Op, op.G, op.Err)
		}
		switch op.Op {
		case "write":
			// WritePoints is atomic per series-field key (one cache entry is updated under its lock),
			// not across the keys of a batch: a reader running concurrently with an in-flight batch may
			// see some of its keys and not others. Judge each key's part as its own atomic operation
			// with the batch's invocation/response interval.
			seen := map[int]bool{}
			for _, p := range op.Points {
				k := p.Series*nFields + p.Field
				if seen[k] {
					continue
				}
				seen[k] = true
				sub := op
				sub.Points = nil
				for _, q := range op.Points {
					if q.Series*nFields+q.Field == k {
						sub.Points = append(sub.Points, q)
					}
				}
				rel = append(rel, sub)
			}
		case "delete":
			// likewise a series delete is applied key by key (tombstones per TSM key, cache per key)
			for _, k := range delKeys(&op) {
				sub := op
				sub.Keys = []int{k}
				rel = append(rel, sub)
			}
		case "read":
			rel = append(rel, op)
		}
		if op.Op == "snapshot" || op.Op == "backup" { // Backup forces a cache snapshot (CreateSnapshot)
			snaps = append(snaps, [2]int64{op.Inv, op.Ret})
		}
		if op.Op == "delete" {
			dels = append(dels, [2]int64{op.Inv, op.Ret})
		}
	}
	// cold cases (no warm-up write) used to carry the signature cache-init-race-first-concurrent-writes;
	// Cache.init is repaired (8c4ebc52a3), the shape is still generated and a failure is a VIOLATION again
	for _, d := range dels { // known-finding shape: a delete overlapping a snapshot in real time
		for _, s := range snaps {
			if d[0] < s[1] && s[0] < d[1] {
				sig = "delete-during-pending-snapshot"
			}
		}
	}
	// A range delete is not atomic for a concurrent reader (tombstones are applied to the TSM files
	// first, the cache is filtered afterwards), and the property speaks of serial orders of COMPLETED
	// operations: a read that overlaps a delete of its own series in real time is not judged.
	{
		kept := rel[:0:0]
		for _, op := range rel {
			skip := false
			if op.Op == "read" {
				for _, d := range c.Hist {
					if d.Op != "delete" || !(d.Inv < op.Ret && op.Inv < d.Ret) {
						continue
					}
					for _, sr := range d.Series {
						if sr == op.Key/nFields {
							skip = true
						}
					}
				}
			}
			if skip {
				w.Count("reads_not_judged", "overlaps-delete-of-same-series")
				continue
			}
			kept = append(kept, op)
		}
		rel = kept
	}
	var lin []int
	if failure == "" && len(rel) > 62 {
		// beyond the search's bit-set width: not judged (counted, never an alarm)
		w.Count("histories_not_judged", "more-than-62-atomic-parts")
		rel = nil
		lin = []int{}
	} else if failure == "" {
		lin = linearise(rel)
		if lin == nil {
			failure = "no linearisation: the completed reads cannot be explained by any serial order of the completed writes/deletes consistent with real time"
		}
	}
	c.Lin = lin
	t := "[]"
	if lin != nil {
		t = term(rel, lin)
	}
	nonEmptyReads := 0
	for _, op := range rel {
		if op.Op == "read" && len(op.Res) > 0 {
			nonEmptyReads++
		}
	}
	idx := w.Add(t, c, nonEmptyReads >= 2 && len(rel) >= 8, sig)
	w.Count("relevant_ops", fmt.Sprint(len(rel)/5*5))
	if failure != "" {
		w.Fail(idx, failure, sig)
	}
}

// genEC: see runEC
func genEC(w *vh.W) jcase {
	r := w.Rng
	c := jcase{Kind: "ec", Plan: make([][]jop, 4)}
	var val int64
	for f, nf := 0, 2+r.IntN(2); f < nf; f++ {
		op := jop{Op: "write"}
		for j, k := 0, 2+r.IntN(4); j < k; j++ {
			val++
			op.Points = append(op.Points, jpoint{Series: r.IntN(nSeries), Field: r.IntN(nFields), T: int64(r.IntN(8)), V: val})
		}
		c.Plan[0] = append(c.Plan[0], op, jop{Op: "snapshot"})
	}
	rng := func() (int64, int64) {
		if r.IntN(2) == 0 {
			return models.MinNanoTime, models.MaxNanoTime
		}
		lo, hi := int64(r.IntN(8)), int64(r.IntN(8))
		if lo > hi {
			lo, hi = hi, lo
		}
		return lo, hi
	}
	sA := r.IntN(nSeries)
	sB := sA
	if r.IntN(3) > 0 {
		sB = 1 - sA
	}
	lo, hi := rng()
	c.Plan[1] = []jop{{Op: "delete", Series: []int{sA}, Lo: lo, Hi: hi}}
	lo, hi = rng()
	c.Plan[2] = []jop{{Op: "delete", Series: []int{sB}, Lo: lo, Hi: hi}}
	for k := 0; k < nSeries*nFields; k++ {
		c.Plan[3] = append(c.Plan[3], jop{Op: "read", Key: k, Lo: models.MinNanoTime, Hi: models.MaxNanoTime, Asc: r.IntN(2) == 0})
	}
	if r.IntN(2) == 0 {
		val++
		c.Plan[3] = append(c.Plan[3], jop{Op: "write", Points: []jpoint{{Series: r.IntN(nSeries), Field: r.IntN(nFields), T: int64(r.IntN(8)), V: val}}},
			jop{Op: "read", Key: r.IntN(nSeries * nFields), Lo: models.MinNanoTime, Hi: models.MaxNanoTime, Asc: true})
	}
	return c
}

func gen(w *vh.W) jcase {
	r := w.Rng
	if r.IntN(12) == 0 {
		return genEC(w)
	}
	var c jcase
	ng := 3 + r.IntN(3)
	c.Cold = r.IntN(4) == 0
	var val int64
	withDelete := r.IntN(3) == 0
	for g := 0; g < ng; g++ {
		var ops []jop
		role := r.IntN(4) // 0,1: writer/reader mix, 2: maintenance (snapshot/compact/backup), 3: reader-heavy
		for i, n := 0, 4+r.IntN(5); i < n; i++ {
			x := r.IntN(100)
			switch {
			case role == 2 && x < 45:
				ops = append(ops, jop{Op: "snapshot"})
			case role == 2 && x < 80:
				ops = append(ops, jop{Op: "compact", Lo: int64(r.IntN(3)), Hi: int64(r.IntN(2)), Asc: r.IntN(2) == 0})
			case role == 2 && x < 90:
				ops = append(ops, jop{Op: "backup"})
			case (role == 3 && x < 75) || x < 35:
				lo, hi := int64(r.IntN(8)), int64(r.IntN(8))
				if lo > hi {
					lo, hi = hi, lo
				}
				if r.IntN(2) == 0 {
					lo, hi = models.MinNanoTime, models.MaxNanoTime
				}
				ops = append(ops, jop{Op: "read", Key: r.IntN(nSeries * nFields), Lo: lo, Hi: hi, Asc: r.IntN(2) == 0})
			case withDelete && x < 42:
				lo, hi := int64(r.IntN(8)), int64(r.IntN(8))
				if lo > hi {
					lo, hi = hi, lo
				}
				ops = append(ops, jop{Op: "delete", Series: []int{r.IntN(nSeries)}, Lo: lo, Hi: hi})
			default:
				op := jop{Op: "write"}
				for j, k := 0, 1+r.IntN(3); j < k; j++ {
					val++
					op.Points = append(op.Points, jpoint{Series: r.IntN(nSeries), Field: r.IntN(nFields), T: int64(r.IntN(8)), V: val})
				}
				ops = append(ops, op)
			}
		}
		c.Plan = append(c.Plan, ops)
	}
	return c
}

func main() {
	openShared()
	w := vh.New("C39", "From Verif Require Import Base.Prelude Model.C01.", "case", "check")
	w.Rule = "3-5 goroutines x 4-8 ops on one real tsm1.Engine: value-unique writes (1-3 points over 2 series x 2 fields x 8 timestamps), range reads asc/desc, WriteSnapshot, planner-driven compactions (FindGenerations/PlanLevel/PlanOptimize + CompactFast|CompactFull(ppb=3) + Replace + Release), Backup, in 1/3 of the runs series range deletes; then Close racing with two readers; schedule perturbed at the verif hook points. The observed history is linearised (search in Go) and the linearisation is judged in Coq against the proved sequential specification. Non-trivial: >=8 relevant ops and >=2 non-empty reads. One case in twelve is of kind ec: the engine's own compaction loop runs a forced full compaction that is held at the hook point inside FileStore.Replace while two deletes arrive one after the other, then released, then every key is read. Distinct: distinct linearised histories."
	var rc jcase
	if w.ReplayCase(&rc) {
		runCase(w, &rc)
		w.Finish()
		closeShared()
		return
	}
	if p := os.Getenv("VERIF_GOMAXPROCS"); p != "" {
		var n int
		fmt.Sscan(p, &n)
		runtime.GOMAXPROCS(n)
	}
	for w.Len() < w.N {
		c := gen(w)
		runCase(w, &c)
	}
	w.Finish()
	closeShared()
}
