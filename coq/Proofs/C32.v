(** C32 — proofs: io.ReadAll over the LimitedReadCloser, for every chunking of the reader
    below and both ways of signalling its end; consequences for the write handler. *)
From Verif Require Import Base.Prelude Model.C11 Model.C12 Model.C32 Proofs.C12.
From Coq Require Import ZifyBool ZifyNat.

Lemma firstn_add {A} n m (l : list A) : firstn (n + m) l = firstn n l ++ firstn m (skipn n l).
Proof.
  revert l; induction n as [|n IH]; intros [|x l]; cbn; auto.
  - now rewrite firstn_nil.
  - f_equal; apply IH.
Qed.

Definition res3 (x : bytes * option rfail * reader) : bytes * option rfail * bool :=
  let '(d, e, r) := x in (d, e, r_close r).

(** What ReadAll + Close yield from a limiter state with budget [n] (not yet flagged) over
    the reader state [u], having already collected [acc]. *)
Definition expected (n : Z) (u : ustream) (acc : bytes) : bytes * option rfail * bool :=
  if (n <=? 0)%Z then (acc, None, true)
  else if (Z.of_nat (length (u_rem u)) <? n)%Z then (acc ++ u_rem u, fail_of (u_end u), false)
  else if (n <? Z.of_nat (length (u_rem u)))%Z then (acc ++ firstn (Z.to_nat n) (u_rem u), None, true)
  else if u_eager u then (acc ++ u_rem u, fail_of (u_end u), false)
  else (acc ++ u_rem u, None, true).

(** the same for the repaired Read *)
Definition expected_fixed (n : Z) (u : ustream) (acc : bytes) : bytes * option rfail * bool :=
  if (n <=? 0)%Z then
    match u_rem u with [] => (acc, fail_of (u_end u), false) | _ => (acc, None, true) end
  else if (Z.of_nat (length (u_rem u)) <=? n)%Z then (acc ++ u_rem u, fail_of (u_end u), false)
  else (acc ++ firstn (Z.to_nat n) (u_rem u), None, true).

Ltac zif :=
  repeat match goal with
  | |- context [if (?a <=? ?b)%Z then _ else _] => destruct (Z.leb_spec a b); try lia
  | |- context [if (?a <? ?b)%Z then _ else _] => destruct (Z.ltb_spec a b); try lia
  end.

(** One Read of the underlying reader with a buffer of [k >= 1] bytes. *)
Lemma u_read_cases u k c d e u' :
  (1 <= k)%nat -> u_read u k c = (d, e, u') ->
  u_end u' = u_end u /\ u_eager u' = u_eager u /\ u_rem u = d ++ u_rem u' /\ (length d <= k)%nat /\
  ((u_rem u = [] /\ d = [] /\ e = Some (u_end u) /\ u' = u) \/
   (u_rem u <> [] /\ (1 <= length d)%nat /\
    ((u_rem u' = [] /\ e = if u_eager u then Some (u_end u) else None) \/
     (u_rem u' <> [] /\ e = None /\ (length d = Nat.min k (S c))%nat)))).
Proof.
  intros Hk. unfold u_read. destruct u as [rem en eg]; cbn [u_rem u_end u_eager].
  destruct rem as [|x t].
  - intros [= <- <- <-]. cbn. repeat split; auto. lia.
  - set (rem := x :: t). set (n := Nat.min (Nat.min k (S c)) (length rem)).
    assert (Hn1 : (1 <= n)%nat) by (subst n rem; cbn [length]; lia).
    assert (Hn2 : (n <= length rem)%nat) by (subst n; lia).
    intros [= <- <- <-]. cbn [u_rem u_end u_eager].
    assert (Hl : length (firstn n rem) = n) by (rewrite firstn_length; lia).
    repeat split; auto.
    + now rewrite firstn_skipn.
    + rewrite Hl. subst n. lia.
    + right. split; [subst rem; discriminate|]. split; [lia|].
      destruct (skipn n rem) eqn:Hs.
      * left; auto.
      * right. split; [discriminate|]. split; auto. rewrite Hl.
        assert (length (skipn n rem) = length rem - n)%nat by apply skipn_length.
        rewrite Hs in H. cbn [length] in H. subst n. lia.
Qed.

(** ** The code under test *)
Lemma lrc_step l u room c acc d e l' u' :
  l_exc l = false ->
  lrc_read l u room c = (d, e, l', u') ->
  match e with
  | Some k => (acc ++ d, fail_of k, l_exc l') = expected (l_n l) u acc
  | None => l_exc l' = false /\ expected (l_n l') u' (acc ++ d) = expected (l_n l) u acc
  end.
Proof.
  intros Hexc. unfold lrc_read.
  destruct (l_n l <=? 0)%Z eqn:HN.
  - intros [= <- <- <- <-]. cbn. unfold expected. rewrite HN. now rewrite app_nil_r.
  - set (k := if (Z.of_nat (S room) >? l_n l)%Z then Z.to_nat (l_n l) else S room).
    assert (Hk1 : (1 <= k)%nat) by (subst k; destruct (Z.of_nat (S room) >? l_n l)%Z; lia).
    assert (Hk2 : (Z.of_nat k <= l_n l)%Z) by (subst k; destruct (Z.of_nat (S room) >? l_n l)%Z eqn:E; lia).
    destruct (u_read u k c) as [[d0 e0] u0] eqn:Hu. intros [= <- <- <- <-].
    cbn [l_n l_exc].
    destruct (u_read_cases _ _ _ _ _ _ Hk1 Hu) as (Hend & Heag & Hrem & Hdk & Hc).
    assert (Hlen : length (u_rem u) = (length d0 + length (u_rem u0))%nat)
      by (rewrite Hrem, app_length; reflexivity).
    destruct Hc as [(Hr & -> & -> & ->) | (Hne & Hd1 & Hc)].
    + unfold expected. rewrite HN, Hr, Hexc. cbn [length]. rewrite app_nil_r. zif. reflexivity.
    + destruct Hc as [(Hr0 & ->) | (Hr0 & -> & Hdl)].
      * (* the read delivered the last bytes *)
        rewrite Hr0, app_nil_r in Hrem. rewrite Hr0 in Hlen. cbn [length] in Hlen.
        destruct (u_eager u) eqn:Heg.
        -- unfold expected. rewrite HN, Heg, <- Hrem, Hexc. zif; reflexivity.
        -- split; [exact Hexc|]. unfold expected. rewrite HN, Heg, Heag, Hend, Hr0. cbn [length].
           rewrite <- Hrem, app_nil_r. zif; reflexivity.
      * (* more bytes remain below *)
        split; [exact Hexc|]. unfold expected. rewrite HN, Heag, Hend.
        assert (Hpos : (1 <= length (u_rem u0))%nat) by (destruct (u_rem u0); [congruence | cbn; lia]).
        rewrite Hlen.
        destruct (Z.leb_spec (l_n l - Z.of_nat (length d0)) 0).
        -- (* budget used up: length d0 = N *)
           zif. rewrite Hrem. replace (Z.to_nat (l_n l)) with (length d0 + 0)%nat by lia.
           rewrite firstn_app_2. cbn. now rewrite app_nil_r.
        -- zif.
           ++ now rewrite Hrem, app_assoc.
           ++ rewrite Hrem.
              replace (Z.to_nat (l_n l)) with (length d0 + Z.to_nat (l_n l - Z.of_nat (length d0)))%nat by lia.
              rewrite firstn_app_2. now rewrite app_assoc.
           ++ rewrite Hrem. destruct (u_eager u); now rewrite app_assoc.
Qed.

(** a state is settled when the next Read cannot return (n, nil) *)
Definition settled (l : lrc) (u : ustream) : Prop := (l_n l <= 0)%Z \/ u_rem u = [].

Lemma lrc_settled_terminates l u room c d e l' u' :
  settled l u -> lrc_read l u room c = (d, e, l', u') -> e <> None.
Proof.
  intros [H | H]; unfold lrc_read.
  - destruct (Z.leb_spec (l_n l) 0); [|lia]. intros [= <- <- <- <-]. discriminate.
  - destruct (l_n l <=? 0)%Z; [intros [= <- <- <- <-]; discriminate|].
    unfold u_read. rewrite H. intros [= <- <- <- <-]. discriminate.
Qed.

Lemma lrc_big_settles l u d l' u' :
  lrc_read l u (length (u_rem u)) (length (u_rem u)) = (d, None, l', u') -> settled l' u'.
Proof.
  unfold lrc_read. destruct (Z.leb_spec (l_n l) 0); [intros [= <- ]; discriminate|].
  set (k := if (Z.of_nat (S (length (u_rem u))) >? l_n l)%Z then Z.to_nat (l_n l) else S (length (u_rem u))).
  assert (Hk1 : (1 <= k)%nat) by (subst k; destruct (Z.of_nat (S (length (u_rem u))) >? l_n l)%Z; lia).
  destruct (u_read u k (length (u_rem u))) as [[d0 e0] u0] eqn:Hu. intros [= Hd He Hl Hu']. subst d e0 l' u'.
  destruct (u_read_cases _ _ _ _ _ _ Hk1 Hu) as (Hend & Heag & Hrem & Hdk & Hc).
  assert (Hlen : length (u_rem u) = (length d0 + length (u_rem u0))%nat)
    by (rewrite Hrem, app_length; reflexivity).
  unfold settled; cbn [l_n].
  destruct Hc as [(_ & _ & [=] & _) | (_ & _ & [(Hr0 & _) | (Hr0 & _ & Hdl)])]; [right; exact Hr0|].
  left. subst k. destruct (Z.gtb_spec (Z.of_nat (S (length (u_rem u)))) (l_n l)); [lia|].
  assert (1 <= length (u_rem u0))%nat by (destruct (u_rem u0); [congruence | cbn; lia]). lia.
Qed.

Lemma drain_lim f l u acc :
  l_exc l = false ->
  res3 (drain_with r_read (S (S f)) (RLim l u) acc) = expected (l_n l) u acc.
Proof.
  intros Hexc. cbn [drain_with r_read r_rem].
  destruct (lrc_read l u (length (u_rem u)) (length (u_rem u))) as [[[d e] l1] u1] eqn:H1.
  pose proof (lrc_step _ _ _ _ acc _ _ _ _ Hexc H1) as S1.
  destruct e as [k|]; [cbn; exact S1|].
  destruct S1 as [Hexc1 S1]. rewrite <- S1. cbn [drain_with r_read r_rem].
  pose proof (lrc_big_settles _ _ _ _ _ H1) as Hs.
  destruct (lrc_read l1 u1 (length (u_rem u1)) (length (u_rem u1))) as [[[d2 e2] l2] u2] eqn:H2.
  pose proof (lrc_step _ _ _ _ (acc ++ d) _ _ _ _ Hexc1 H2) as S2.
  pose proof (lrc_settled_terminates _ _ _ _ _ _ _ _ Hs H2) as Ht.
  destruct e2 as [k|]; [cbn; exact S2 | congruence].
Qed.

Lemma read_all_lim script : forall l u acc,
  l_exc l = false ->
  res3 (read_all script (RLim l u) acc) = expected (l_n l) u acc.
Proof.
  unfold read_all. induction script as [|[room c] s IH]; intros l u acc Hexc.
  - cbn [read_all_with]. apply drain_lim; exact Hexc.
  - cbn [read_all_with r_read].
    destruct (lrc_read l u room c) as [[[d e] l1] u1] eqn:H1.
    pose proof (lrc_step _ _ _ _ acc _ _ _ _ Hexc H1) as S1.
    destruct e as [k|]; [cbn; exact S1|].
    destruct S1 as [Hexc1 S1]. rewrite <- S1. apply IH; exact Hexc1.
Qed.

(** ** No limiter installed *)
Lemma plain_step u room c acc d e u' :
  u_read u (S room) c = (d, e, u') ->
  match e with
  | Some k => (acc ++ d, fail_of k) = (acc ++ u_rem u, fail_of (u_end u))
  | None => (acc ++ d) ++ u_rem u' = acc ++ u_rem u /\ u_end u' = u_end u
  end.
Proof.
  intros Hu. assert (Hk : (1 <= S room)%nat) by lia.
  destruct (u_read_cases _ _ _ _ _ _ Hk Hu) as (Hend & Heag & Hrem & Hdk & Hc).
  destruct Hc as [(Hr & -> & -> & ->) | (Hne & Hd1 & [(Hr0 & ->) | (Hr0 & -> & _)])].
  - now rewrite Hr.
  - rewrite Hr0, app_nil_r in Hrem. destruct (u_eager u).
    + now rewrite Hrem.
    + split; [|exact Hend]. now rewrite Hr0, app_nil_r, Hrem.
  - split; [|exact Hend]. now rewrite Hrem, app_assoc.
Qed.

Lemma drain_plain f u acc :
  res3 (drain_with r_read (S (S f)) (RPlain u) acc) = (acc ++ u_rem u, fail_of (u_end u), false).
Proof.
  cbn [drain_with r_read r_rem].
  destruct (u_read u (S (length (u_rem u))) (length (u_rem u))) as [[d e] u1] eqn:H1.
  pose proof (plain_step _ _ _ acc _ _ _ H1) as S1.
  destruct e as [k|]; [cbn; now inversion S1|].
  destruct S1 as [S1 E1].
  assert (Hr1 : u_rem u1 = []).
  { assert (Hk : (1 <= S (length (u_rem u)))%nat) by lia.
    destruct (u_read_cases _ _ _ _ _ _ Hk H1) as (_ & _ & Hrem & _ & Hc).
    destruct Hc as [(_ & _ & [=] & _) | (_ & _ & [(Hr0 & _) | (Hr0 & _ & Hdl)])]; [exact Hr0|].
    assert (length (u_rem u) = length d + length (u_rem u1))%nat by (rewrite Hrem, app_length; reflexivity).
    assert (1 <= length (u_rem u1))%nat by (destruct (u_rem u1); [congruence | cbn; lia]). lia. }
  cbn [drain_with r_read r_rem]. unfold u_read. rewrite Hr1. cbn. rewrite Hr1 in S1. now rewrite S1, E1.
Qed.

Lemma read_all_plain script : forall u acc,
  res3 (read_all script (RPlain u) acc) = (acc ++ u_rem u, fail_of (u_end u), false).
Proof.
  unfold read_all. induction script as [|[room c] s IH]; intros u acc.
  - cbn [read_all_with]. apply drain_plain.
  - cbn [read_all_with r_read].
    destruct (u_read u (S room) c) as [[d e] u1] eqn:H1.
    pose proof (plain_step _ _ _ acc _ _ _ H1) as S1.
    destruct e as [k|]; [cbn; now inversion S1|].
    destruct S1 as [S1 E1]. rewrite IH, S1, E1. reflexivity.
Qed.

(** ** readAll of http/points in closed form, for every script *)
Definition by_end (u : ustream) : body_res :=
  match u_end u with EndEOF => BodyOk (u_rem u) | EndChecksum => BodyInvalid | EndUnexpected => BodyInternal end.

Definition body_spec (limit : Z) (u : ustream) : body_res :=
  let n := Z.of_nat (length (u_rem u)) in
  if (limit <=? 0)%Z then by_end u
  else if (n <? limit)%Z then by_end u
  else if (limit <? n)%Z then BodyTooLarge
  else if u_eager u then by_end u else BodyTooLarge.

Lemma read_body_res3 script r :
  read_body script r =
  match res3 (read_all script r []) with
  | (_, Some FChecksum, _) => BodyInvalid
  | (_, Some _, _) => BodyInternal
  | (data, None, true) => BodyTooLarge
  | (data, None, false) => BodyOk data
  end.
Proof.
  unfold read_body, res3. destruct (read_all script r []) as [[d e] r']. destruct e as [[]|]; auto.
Qed.

Lemma read_body_spec script limit u :
  read_body script (batch_reader limit u) = body_spec limit u.
Proof.
  rewrite read_body_res3. unfold batch_reader, body_spec, by_end.
  rewrite Z.gtb_ltb. destruct (Z.ltb_spec 0 limit); destruct (Z.leb_spec limit 0); try lia.
  - rewrite read_all_lim by reflexivity. unfold expected. cbn [l_n app].
    destruct (Z.leb_spec limit 0); [lia|].
    destruct (Z.ltb_spec (Z.of_nat (length (u_rem u))) limit); [destruct (u_end u); reflexivity|].
    destruct (Z.ltb_spec limit (Z.of_nat (length (u_rem u)))); [reflexivity|].
    destruct (u_eager u); [destruct (u_end u); reflexivity | reflexivity].
  - rewrite read_all_plain. cbn [app]. destruct (u_end u); reflexivity.
Qed.

(** ** The repaired Read *)
Lemma fixed_step l u room c acc d e l' u' :
  l_exc l = false ->
  lrc_read_fixed l u room c = (d, e, l', u') ->
  match e with
  | Some k => (acc ++ d, fail_of k, l_exc l') = expected_fixed (l_n l) u acc
  | None => l_exc l' = false /\ expected_fixed (l_n l') u' (acc ++ d) = expected_fixed (l_n l) u acc
            /\ ((l_n l <= 0)%Z -> False)
  end.
Proof.
  intros Hexc. unfold lrc_read_fixed.
  destruct (l_n l <=? 0)%Z eqn:HN.
  - destruct (u_read u 1 c) as [[d0 e0] u0] eqn:Hu.
    destruct (u_read_cases _ _ _ _ _ _ (le_n 1) Hu) as (Hend & Heag & Hrem & Hdk & Hc).
    destruct Hc as [(Hr & -> & -> & ->) | (Hne & Hd1 & _)].
    + intros [= <- <- <- <-]. unfold expected_fixed. rewrite HN, Hr, app_nil_r, Hexc. reflexivity.
    + destruct d0 as [|x d0]; [cbn in Hd1; lia|]. intros [= <- <- <- <-].
      unfold expected_fixed. rewrite HN, app_nil_r. cbn [l_exc fail_of].
      destruct (u_rem u); [congruence | reflexivity].
  - set (k := if (Z.of_nat (S room) >? l_n l)%Z then Z.to_nat (l_n l) else S room).
    assert (Hk1 : (1 <= k)%nat) by (subst k; destruct (Z.of_nat (S room) >? l_n l)%Z; lia).
    assert (Hk2 : (Z.of_nat k <= l_n l)%Z) by (subst k; destruct (Z.of_nat (S room) >? l_n l)%Z eqn:E; lia).
    destruct (u_read u k c) as [[d0 e0] u0] eqn:Hu. intros [= <- <- <- <-].
    cbn [l_n l_exc].
    destruct (u_read_cases _ _ _ _ _ _ Hk1 Hu) as (Hend & Heag & Hrem & Hdk & Hc).
    assert (Hlen : length (u_rem u) = (length d0 + length (u_rem u0))%nat)
      by (rewrite Hrem, app_length; reflexivity).
    destruct Hc as [(Hr & -> & -> & ->) | (Hne & Hd1 & Hc)].
    + unfold expected_fixed. rewrite HN, Hr, Hexc. cbn [length]. rewrite app_nil_r. zif. reflexivity.
    + destruct Hc as [(Hr0 & ->) | (Hr0 & -> & Hdl)].
      * rewrite Hr0, app_nil_r in Hrem. rewrite Hr0 in Hlen. cbn [length] in Hlen.
        destruct (u_eager u) eqn:Heg.
        -- unfold expected_fixed. rewrite HN, <- Hrem, Hexc. zif. reflexivity.
        -- split; [exact Hexc|]. split; [|lia]. unfold expected_fixed. rewrite HN, Hend, Hr0. cbn [length].
           rewrite <- Hrem, app_nil_r. zif; reflexivity.
      * split; [exact Hexc|]. split; [|lia]. unfold expected_fixed. rewrite HN, Hend.
        assert (Hpos : (1 <= length (u_rem u0))%nat) by (destruct (u_rem u0); [congruence | cbn; lia]).
        rewrite Hlen.
        destruct (Z.leb_spec (l_n l - Z.of_nat (length d0)) 0).
        -- zif. destruct (u_rem u0) eqn:E0; [congruence|]. rewrite <- ?E0.
           rewrite Hrem. replace (Z.to_nat (l_n l)) with (length d0 + 0)%nat by lia.
           rewrite firstn_app_2. cbn. now rewrite app_nil_r.
        -- zif.
           ++ now rewrite Hrem, app_assoc.
           ++ rewrite Hrem.
              replace (Z.to_nat (l_n l)) with (length d0 + Z.to_nat (l_n l - Z.of_nat (length d0)))%nat by lia.
              rewrite firstn_app_2. now rewrite app_assoc.
Qed.

Lemma fixed_settled_terminates l u room c d e l' u' :
  settled l u -> l_exc l = false -> lrc_read_fixed l u room c = (d, e, l', u') -> e <> None.
Proof.
  intros Hs Hexc H. pose proof (fixed_step _ _ _ _ [] _ _ _ _ Hexc H) as S1.
  destruct e; [discriminate|]. destruct S1 as (_ & _ & Hpos).
  destruct Hs as [Hs | Hs]; [exfalso; exact (Hpos Hs)|].
  exfalso. revert H. unfold lrc_read_fixed.
  destruct (l_n l <=? 0)%Z; unfold u_read; rewrite Hs; intros [= <- ]; discriminate.
Qed.

Lemma fixed_big_settles l u d l' u' :
  lrc_read_fixed l u (length (u_rem u)) (length (u_rem u)) = (d, None, l', u') -> settled l' u'.
Proof.
  unfold lrc_read_fixed. destruct (Z.leb_spec (l_n l) 0).
  - destruct (u_read u 1 (length (u_rem u))) as [[d0 e0] u0] eqn:Hu.
    destruct (u_read_cases _ _ _ _ _ _ (le_n 1) Hu) as (_ & _ & _ & _ & Hc).
    destruct d0; [|intros [=]]. intros [= Hd He Hl Hu']. subst l'. left; exact H.
  - set (k := if (Z.of_nat (S (length (u_rem u))) >? l_n l)%Z then Z.to_nat (l_n l) else S (length (u_rem u))).
    assert (Hk1 : (1 <= k)%nat) by (subst k; destruct (Z.of_nat (S (length (u_rem u))) >? l_n l)%Z; lia).
    destruct (u_read u k (length (u_rem u))) as [[d0 e0] u0] eqn:Hu. intros [= Hd He Hl Hu']. subst d e0 l' u'.
    destruct (u_read_cases _ _ _ _ _ _ Hk1 Hu) as (Hend & Heag & Hrem & Hdk & Hc).
    assert (Hlen : length (u_rem u) = (length d0 + length (u_rem u0))%nat)
      by (rewrite Hrem, app_length; reflexivity).
    unfold settled; cbn [l_n].
    destruct Hc as [(_ & _ & [=] & _) | (_ & _ & [(Hr0 & _) | (Hr0 & _ & Hdl)])]; [right; exact Hr0|].
    left. subst k. destruct (Z.gtb_spec (Z.of_nat (S (length (u_rem u)))) (l_n l)); [lia|].
    assert (1 <= length (u_rem u0))%nat by (destruct (u_rem u0); [congruence | cbn; lia]). lia.
Qed.

Lemma drain_fixed f l u acc :
  l_exc l = false ->
  res3 (drain_with r_read_fixed (S (S f)) (RLim l u) acc) = expected_fixed (l_n l) u acc.
Proof.
  intros Hexc. cbn [drain_with r_read_fixed r_rem].
  destruct (lrc_read_fixed l u (length (u_rem u)) (length (u_rem u))) as [[[d e] l1] u1] eqn:H1.
  pose proof (fixed_step _ _ _ _ acc _ _ _ _ Hexc H1) as S1.
  destruct e as [k|]; [cbn; exact S1|].
  destruct S1 as (Hexc1 & S1 & _). rewrite <- S1. cbn [drain_with r_read_fixed r_rem].
  pose proof (fixed_big_settles _ _ _ _ _ H1) as Hs.
  destruct (lrc_read_fixed l1 u1 (length (u_rem u1)) (length (u_rem u1))) as [[[d2 e2] l2] u2] eqn:H2.
  pose proof (fixed_step _ _ _ _ (acc ++ d) _ _ _ _ Hexc1 H2) as S2.
  pose proof (fixed_settled_terminates _ _ _ _ _ _ _ _ Hs Hexc1 H2) as Ht.
  destruct e2 as [k|]; [cbn; exact S2 | congruence].
Qed.

Lemma read_all_fixed_lim script : forall l u acc,
  l_exc l = false ->
  res3 (read_all_fixed script (RLim l u) acc) = expected_fixed (l_n l) u acc.
Proof.
  unfold read_all_fixed. induction script as [|[room c] s IH]; intros l u acc Hexc.
  - cbn [read_all_with]. apply drain_fixed; exact Hexc.
  - cbn [read_all_with r_read_fixed].
    destruct (lrc_read_fixed l u room c) as [[[d e] l1] u1] eqn:H1.
    pose proof (fixed_step _ _ _ _ acc _ _ _ _ Hexc H1) as S1.
    destruct e as [k|]; [cbn; exact S1|].
    destruct S1 as (Hexc1 & S1 & _). rewrite <- S1. apply IH; exact Hexc1.
Qed.

(** The repaired Read: ReadAll + Close in closed form. *)
Lemma read_all_fixed_spec script limit u :
  (0 < limit)%Z ->
  res3 (read_all_fixed script (batch_reader limit u) []) =
    if (Z.of_nat (length (u_rem u)) <=? limit)%Z then (u_rem u, fail_of (u_end u), false)
    else (firstn (Z.to_nat limit) (u_rem u), None, true).
Proof.
  intros Hl. unfold batch_reader. rewrite Z.gtb_ltb. destruct (Z.ltb_spec 0 limit); [|lia].
  rewrite read_all_fixed_lim by reflexivity. unfold expected_fixed. cbn [l_n app].
  destruct (Z.leb_spec limit 0); [lia | reflexivity].
Qed.

(** ** The handler in closed form *)
Definition accepted_size (q : request) : Prop :=
  let n := Z.of_nat (length (u_rem (q_stream q))) in
  (q_limit q <= 0)%Z \/ (n < q_limit q)%Z \/ (n = q_limit q /\ u_eager (q_stream q) = true).

Lemma body_spec_accepted q :
  accepted_size q -> body_spec (q_limit q) (q_stream q) = by_end (q_stream q).
Proof.
  unfold accepted_size, body_spec. intros [H | [H | [H E]]]; zif; try reflexivity.
  all: now rewrite E.
Qed.

Lemma body_spec_rejected q :
  ~ accepted_size q -> body_spec (q_limit q) (q_stream q) = BodyTooLarge.
Proof.
  unfold accepted_size, body_spec. intros H. zif; try (exfalso; apply H; lia); try reflexivity.
  destruct (u_eager (q_stream q)) eqn:E; [exfalso; apply H; right; right; split; [lia | reflexivity] | reflexivity].
Qed.

Lemma accepted_size_dec q : accepted_size q \/ ~ accepted_size q.
Proof.
  unfold accepted_size. destruct (u_eager (q_stream q)); lia.
Qed.

Definition all_points (q : request) : list (bytes * Z) :=
  map point_obs (oks (map (parse_point (q_prec q) DFLT) (candidate_lines (u_rem (q_stream q))))).
Definition bad_lines (q : request) : list bytes :=
  filter (fun t => negb (is_ok (parse_point (q_prec q) DFLT t))) (candidate_lines (u_rem (q_stream q))).

Definition handle_closed (q : request) : response :=
  match precheck q with
  | Some r => r
  | None =>
    match body_spec (q_limit q) (q_stream q) with
    | BodyTooLarge => resp 413 C_TOO_LARGE
    | BodyInvalid => resp 400 C_INVALID
    | BodyInternal => resp 500 C_INTERNAL
    | BodyOk data =>
      match filter (fun t => negb (is_ok (parse_point (q_prec q) DFLT t))) (candidate_lines data) with
      | (_ :: _) as bad => {| r_status := 400; r_code := C_INVALID; r_rejected := bad; r_dropped := None; r_calls := [] |}
      | [] =>
        let call := map point_obs (oks (map (parse_point (q_prec q) DFLT) (candidate_lines data))) in
        match q_writer q with
        | WOk => {| r_status := 204; r_code := C_NONE; r_rejected := []; r_dropped := None; r_calls := [call] |}
        | WPartial d => {| r_status := 422; r_code := C_UNPROCESSABLE; r_rejected := [];
                           r_dropped := Some d; r_calls := [call] |}
        | WErr => {| r_status := 500; r_code := C_INTERNAL; r_rejected := []; r_dropped := None; r_calls := [call] |}
        end
      end
    end
  end.

Lemma handle_closed_eq script q : handle script q = handle_closed q.
Proof.
  unfold handle, handle_closed. destruct (precheck q); [reflexivity|].
  rewrite read_body_spec. destruct (body_spec (q_limit q) (q_stream q)) as [data| | |]; try reflexivity.
  destruct (errors_name_rejected_lines (q_prec q) DFLT data) as [He Hp].
  destruct (parse_points (q_prec q) DFLT data) as [pts errs]. cbn [fst snd] in He, Hp.
  rewrite <- He, Hp. destruct errs; cbn; reflexivity.
Qed.

Lemma handle_script_irrelevant s1 s2 q : handle s1 q = handle s2 q.
Proof. now rewrite !handle_closed_eq. Qed.

(** status 413 <-> the size was not accepted (given the preconditions and a clean stream) *)
Lemma status_413_iff script q :
  precheck q = None -> u_end (q_stream q) = EndEOF ->
  (r_status (handle script q) = 413%N <-> ~ accepted_size q).
Proof.
  intros Hp He. rewrite handle_closed_eq. unfold handle_closed. rewrite Hp.
  destruct (accepted_size_dec q) as [Ha | Ha].
  - rewrite (body_spec_accepted _ Ha). unfold by_end. rewrite He.
    split; [|tauto]. intros H. exfalso.
    destruct (filter _ _); [destruct (q_writer q)|]; cbn in H; discriminate.
  - rewrite (body_spec_rejected _ Ha). cbn. tauto.
Qed.

Lemma limit_iff_partial script q :
  precheck q = None -> u_end (q_stream q) = EndEOF -> (0 < q_limit q)%Z ->
  (Z.of_nat (length (u_rem (q_stream q))) <> q_limit q \/ u_eager (q_stream q) = true) ->
  (r_status (handle script q) = 413%N <-> (q_limit q < Z.of_nat (length (u_rem (q_stream q))))%Z).
Proof.
  intros Hp He Hl Hne. rewrite (status_413_iff script q Hp He). unfold accepted_size.
  destruct Hne as [Hne | Hne]; [lia|]. rewrite Hne. lia.
Qed.

Lemma limit_exact_iff_late_eof script q :
  precheck q = None -> u_end (q_stream q) = EndEOF -> (0 < q_limit q)%Z ->
  Z.of_nat (length (u_rem (q_stream q))) = q_limit q ->
  (r_status (handle script q) = 413%N <-> u_eager (q_stream q) = false).
Proof.
  intros Hp He Hl Heq. rewrite (status_413_iff script q Hp He). unfold accepted_size.
  destruct (u_eager (q_stream q)); split; intros H; try discriminate; try reflexivity.
  - exfalso. apply H. right; right; split; [exact Heq | reflexivity].
  - intros [H1 | [H1 | [_ H1]]]; try lia; discriminate.
Qed.

Lemma too_large_rejected script q :
  precheck q = None -> (0 < q_limit q)%Z ->
  (q_limit q < Z.of_nat (length (u_rem (q_stream q))))%Z ->
  handle script q = resp 413 C_TOO_LARGE.
Proof.
  intros Hp Hl Hgt. rewrite handle_closed_eq. unfold handle_closed. rewrite Hp.
  rewrite body_spec_rejected; [reflexivity|]. unfold accepted_size. lia.
Qed.

Lemma malformed_stores_nothing script q :
  precheck q = None -> u_end (q_stream q) = EndEOF -> accepted_size q ->
  (exists t, In t (candidate_lines (u_rem (q_stream q))) /\ is_ok (parse_point (q_prec q) DFLT t) = false) ->
  handle script q = {| r_status := 400; r_code := C_INVALID; r_rejected := bad_lines q;
                       r_dropped := None; r_calls := [] |}.
Proof.
  intros Hp He Ha [t [Hin Hbad]]. rewrite handle_closed_eq. unfold handle_closed. rewrite Hp.
  rewrite (body_spec_accepted _ Ha). unfold by_end. rewrite He. unfold bad_lines.
  destruct (filter _ _) eqn:Hf; [|reflexivity].
  exfalso. assert (Hin' : In t (filter (fun t => negb (is_ok (parse_point (q_prec q) DFLT t)))
                                       (candidate_lines (u_rem (q_stream q))))).
  { apply filter_In. split; [exact Hin | now rewrite Hbad]. }
  rewrite Hf in Hin'. exact Hin'.
Qed.

Lemma filter_nil_forall {A} (f : A -> bool) l : filter f l = [] <-> forall x, In x l -> f x = false.
Proof.
  induction l as [|a l IH]; cbn; [tauto|]. destruct (f a) eqn:E.
  - split; [discriminate|]. intros H. specialize (H a (or_introl eq_refl)). congruence.
  - rewrite IH. split; intros H x; [intros [<- | Hx]; auto | intros Hx; apply H; auto].
Qed.

Lemma ok_only_after_all_stored script q :
  r_status (handle script q) = 204%N ->
  precheck q = None /\ u_end (q_stream q) = EndEOF /\ accepted_size q /\ q_writer q = WOk /\
  (forall t, In t (candidate_lines (u_rem (q_stream q))) -> is_ok (parse_point (q_prec q) DFLT t) = true) /\
  r_calls (handle script q) = [all_points q].
Proof.
  rewrite handle_closed_eq. unfold handle_closed.
  destruct (precheck q) as [r|] eqn:Hp.
  { unfold precheck in Hp. repeat match type of Hp with (if ?b then _ else _) = _ => destruct b end;
      inversion Hp; subst; cbn; discriminate. }
  destruct (accepted_size_dec q) as [Ha | Ha]; [|rewrite (body_spec_rejected _ Ha); cbn; discriminate].
  rewrite (body_spec_accepted _ Ha). unfold by_end.
  destruct (u_end (q_stream q)) eqn:He; try (cbn; discriminate).
  destruct (filter _ _) eqn:Hf; [|cbn; discriminate].
  destruct (q_writer q) eqn:Hw; cbn; try discriminate. intros _.
  repeat split; auto.
  intros t Hin. pose proof (proj1 (filter_nil_forall _ _) Hf t Hin) as H. cbn in H.
  now destruct (is_ok _).
Qed.

Lemma writer_error_reported script q :
  precheck q = None -> u_end (q_stream q) = EndEOF -> accepted_size q ->
  (forall t, In t (candidate_lines (u_rem (q_stream q))) -> is_ok (parse_point (q_prec q) DFLT t) = true) ->
  handle script q =
    match q_writer q with
    | WOk => {| r_status := 204; r_code := C_NONE; r_rejected := []; r_dropped := None; r_calls := [all_points q] |}
    | WPartial d => {| r_status := 422; r_code := C_UNPROCESSABLE; r_rejected := []; r_dropped := Some d;
                       r_calls := [all_points q] |}
    | WErr => {| r_status := 500; r_code := C_INTERNAL; r_rejected := []; r_dropped := None; r_calls := [all_points q] |}
    end.
Proof.
  intros Hp He Ha Hall. rewrite handle_closed_eq. unfold handle_closed. rewrite Hp.
  rewrite (body_spec_accepted _ Ha). unfold by_end. rewrite He.
  assert (Hf : filter (fun t => negb (is_ok (parse_point (q_prec q) DFLT t)))
                      (candidate_lines (u_rem (q_stream q))) = []).
  { apply filter_nil_forall. intros t Hin. now rewrite (Hall t Hin). }
  rewrite Hf. destruct (q_writer q); reflexivity.
Qed.

Lemma no_store_unless_writer_called script q :
  r_calls (handle script q) <> [] ->
  precheck q = None /\ accepted_size q /\ bad_lines q = [] /\ r_calls (handle script q) = [all_points q] /\
  (r_status (handle script q) = 204%N <-> q_writer q = WOk).
Proof.
  rewrite handle_closed_eq. unfold handle_closed.
  destruct (precheck q) as [r|] eqn:Hp.
  { unfold precheck in Hp. repeat match type of Hp with (if ?b then _ else _) = _ => destruct b end;
      inversion Hp; subst; cbn; congruence. }
  destruct (accepted_size_dec q) as [Ha | Ha]; [|rewrite (body_spec_rejected _ Ha); cbn; congruence].
  rewrite (body_spec_accepted _ Ha). unfold by_end, bad_lines.
  destruct (u_end (q_stream q)) eqn:He; try (cbn; congruence).
  destruct (filter _ _) eqn:Hf; [|cbn; congruence].
  destruct (q_writer q) eqn:Hw; cbn; intros _; repeat split; auto; try discriminate.
Qed.
