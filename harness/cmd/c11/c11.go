package main

import "verifh/vh"

func main11(w *vh.W) { w.Finish() }
