(** C23 — InfluxQL transformation functions follow their definitions.  Property theorems only. *)
From Coq Require Import QArith Floats.SpecFloat.
From Verif Require Import Base.Prelude Model.C23 Proofs.C23.
Open Scope Z_scope.

Theorem C23_derivative_eq_definition :
  forall F (fo : fops F) unit nonneg asc ps,
    derivative_run fo unit nonneg asc ps = derivative_def fo unit nonneg asc ps.
Proof. intros; apply derivative_eq_def. Qed.
Print Assumptions C23_derivative_eq_definition.

Theorem C23_difference_eq_definition :
  forall nonneg ps, difference_run nonneg ps = difference_def nonneg ps.
Proof. exact difference_eq_def. Qed.
Print Assumptions C23_difference_eq_definition.

Theorem C23_elapsed_eq_definition :
  forall unit ps, elapsed_run unit ps = elapsed_def unit ps.
Proof. exact elapsed_eq_def. Qed.
Print Assumptions C23_elapsed_eq_definition.

Theorem C23_cumulative_sum_eq_definition :
  forall ps, cumsum_run ps = cumsum_def ps.
Proof. exact cumsum_eq_def. Qed.
Print Assumptions C23_cumulative_sum_eq_definition.

Theorem C23_spread_eq_definition :
  forall ps, Forall (fun p => in_i64 (pt_v p)) ps -> spread_run ps = spread_def ps.
Proof. exact spread_eq_def. Qed.
Print Assumptions C23_spread_eq_definition.
