(** C35 — histories: every state the model shows through [KObserve] has the registers of the
    multiset of hashes that flowed into that variable through Add/Merge/Clone/RoundTrip;
    merges fail exactly on a precision mismatch, [NewPlus] fails exactly outside 4..18. *)
From Verif Require Import Base.Prelude Model.C35 Proofs.C35_regs_base Proofs.C35_regs_iface
  Proofs.C35_regs_wf Proofs.C35_regs_merge Proofs.C35_regs_marshal.
Local Open Scope N_scope.

(** * the splitmix stream produces 64-bit values *)
Lemma lxor_lt_pow2 a b n : a < 2 ^ n -> b < 2 ^ n -> N.lxor a b < 2 ^ n.
Proof.
  intros Ha Hb. assert (P : 2 ^ n <> 0) by (apply N.pow_nonzero; discriminate).
  apply N.div_small_iff; [exact P|]. rewrite <- N.shiftr_div_pow2, N.shiftr_lxor, !N.shiftr_div_pow2.
  apply N.div_small_iff in Ha, Hb; try exact P. rewrite Ha, Hb. reflexivity.
Qed.

Lemma two64_pow : two64 = 2 ^ 64.
Proof. reflexivity. Qed.

Lemma mix64_lt z : mix64 z < two64.
Proof.
  unfold mix64. cbv zeta.
  set (z2 := (N.lxor _ _ * 10723151780598845931) mod two64).
  assert (H2 : z2 < two64) by (apply N.mod_upper_bound; discriminate).
  clearbody z2. rewrite two64_pow in *. apply lxor_lt_pow2; [exact H2|].
  eapply N.le_lt_trans; [|exact H2]. apply N.div_le_upper_bound; [apply N.pow_nonzero; discriminate|].
  rewrite <- (N.mul_1_l z2) at 1. apply N.mul_le_mono_r. change 1 with (2 ^ 0).
  apply N.pow_le_mono_r; [discriminate|]. apply N.le_0_l.
Qed.

Lemma stream_lt : forall n seed, Forall (fun x => x < two64) (stream n seed).
Proof.
  induction n as [|n IH]; intro seed; cbn [stream]; constructor; [apply mix64_lt|apply IH].
Qed.

(** * the invariant relating model variables and bags of hashes *)
Definition rel1 (os : option sketch) (ob : bag) : Prop :=
  match os, ob with
  | None, None => True
  | Some s, Some (p, l) =>
      wf s /\ k_p s = p /\ regs s = spec_regs p l /\ Forall (fun x => x < two64) l
  | _, _ => False
  end.

Lemma rel_get r br : Forall2 rel1 r br -> forall i, rel1 (sget r i) (bget br i).
Proof.
  induction 1 as [|x y r br Hxy _ IH]; intros [|i]; cbn [sget bget nth rel1]; auto.
  apply IH.
Qed.

Lemma rel_set r br : Forall2 rel1 r br -> forall i x y, rel1 x y ->
  Forall2 rel1 (sset r i x) (bset br i y).
Proof.
  induction 1 as [|x0 y0 r br Hxy H IH]; intros [|i] x y Hr; cbn [sset bset]; constructor; auto.
Qed.

Lemma rel_set_l r br : Forall2 rel1 r br -> forall i x, rel1 x (bget br i) ->
  Forall2 rel1 (sset r i x) br.
Proof.
  induction 1 as [|x0 y0 r br Hxy H IH]; intros [|i] x Hr; cbn [sset bget nth] in *; constructor; auto.
Qed.

Lemma nz_eqb_refl a : nz_eqb a a = true.
Proof.
  unfold nz_eqb. apply list_eqb_spec; [|reflexivity].
  intros [x1 x2] [y1 y2]. unfold pair_eqb. cbn [fst snd]. rewrite andb_true_iff, !N.eqb_eq.
  split; [intros [-> ->]; reflexivity|intro E; inversion E; auto].
Qed.

Definition hashes_ok (o : kop) : Prop :=
  match o with
  | KAdd _ hs => Forall (fun x => x < two64) hs
  | _ => True
  end.

Section WithIface.
Variable I : iface.

Lemma rel1_adds s p l hs : rel1 (Some s) (Some (p, l)) -> Forall (fun x => x < two64) hs ->
  rel1 (Some (fold_left k_add hs s)) (Some (p, l ++ hs)).
Proof.
  cbn [rel1]. intros (W & P & R & F) Fh. subst p.
  destruct (adds_inv I hs s (wf_wfs s W) Fh) as (_ & P' & _).
  split; [apply (wf_adds I); assumption|]. split; [exact P'|].
  split; [apply (regs_of_list_gen I); [apply wf_wfs; exact W|exact Fh|exact R]|].
  apply Forall_app; split; assumption.
Qed.

Lemma rel1_touch s b : rel1 (Some s) b -> rel1 (Some (count_touch s)) b.
Proof.
  destruct b as [[p l]|]; cbn [rel1]; [|auto]. intros (W & P & R & F).
  split; [apply (wf_touch I); exact W|]. split; [rewrite count_touch_p; exact P|].
  split; [rewrite (regs_touch I) by (apply wf_wfs; exact W); exact R|exact F].
Qed.

(** one step preserves the invariant and passes the oracle's test for that step *)
Lemma step_ok r br o : Forall2 rel1 r br -> hashes_ok o ->
  Forall2 rel1 (fst (k_step r o)) (o_step br o) /\
  forall t obs', o_check br (o :: t) (snd (k_step r o) :: obs') = o_check (o_step br o) t obs'.
Proof.
  intros R H. destruct o as [d p|i hs|i seed n|i j|i d|i d|i|i]; cbn [k_step o_step o_check hashes_ok] in *.
  - (* KNew *)
    cbn [fst snd]. split.
    + apply rel_set; [exact R|]. unfold valid_p, k_new.
      destruct (N.ltb_spec 18 p); [exact Logic.I|]. destruct (N.ltb_spec p 4); [exact Logic.I|].
      cbn [orb negb rel1]. split; [apply (wf_new p), k_new_some; assumption|].
      split; [reflexivity|]. split; [|constructor].
      apply (regs_new I p). apply k_new_some; assumption.
    + intros t obs'. unfold valid_p, k_new. destruct ((18 <? p) || (p <? 4))%bool; reflexivity.
  - (* KAdd *)
    pose proof (rel_get r br R i) as G.
    destruct (sget r i) as [s|], (bget br i) as [[p l]|]; try (exfalso; exact G); cbn [fst snd].
    + split; [|reflexivity]. apply rel_set; [exact R|]. apply rel1_adds; assumption.
    + split; [exact R|reflexivity].
  - (* KAddStream *)
    pose proof (rel_get r br R i) as G.
    destruct (sget r i) as [s|], (bget br i) as [[p l]|]; try (exfalso; exact G); cbn [fst snd].
    + split; [|reflexivity]. apply rel_set; [exact R|]. apply rel1_adds; [assumption|apply stream_lt].
    + split; [exact R|reflexivity].
  - (* KMerge *)
    pose proof (rel_get r br R i) as Gi. pose proof (rel_get r br R j) as Gj.
    destruct (sget r i) as [a|], (bget br i) as [[p l]|]; try (exfalso; exact Gi);
    destruct (sget r j) as [b|], (bget br j) as [[q l']|]; try (exfalso; exact Gj); cbn [fst snd];
      try (split; [exact R|reflexivity]).
    cbn [rel1] in Gi, Gj. destruct Gi as (Wa & Pa & Ra & Fa), Gj as (Wb & Pb & Rb & Fb).
    subst p q.
    destruct (N.eqb_spec (k_p a) (k_p b)) as [E|E].
    + rewrite (k_merge_eq I a b (wf_wfs a Wa) (wf_wfs b Wb) E).
      cbn [fst snd]. split; [|reflexivity]. apply rel_set; [exact R|]. cbn [rel1].
      split; [apply wf_dn, wfs_dn; [destruct Wa as [(A & B & _) _]; assumption ..|]|].
      { rewrite zip_max_length. apply (regs_length I a (wf_wfs a Wa)). }
      split; [reflexivity|]. split; [|apply Forall_app; split; assumption].
      rewrite regs_dn, Ra, Rb, spec_regs_app, E. reflexivity.
    + rewrite k_merge_none by exact E. cbn [fst snd]. split; [exact R|reflexivity].
  - (* KClone *)
    pose proof (rel_get r br R i) as G.
    destruct (sget r i) as [s|], (bget br i) as [b|]; try (exfalso; exact G); cbn [fst snd].
    + split; [|reflexivity]. apply rel_set; [exact R|exact G].
    + split; [exact R|reflexivity].
  - (* KRoundTrip *)
    pose proof (rel_get r br R i) as G.
    destruct (sget r i) as [s|] eqn:Es, (bget br i) as [b|] eqn:Eb; try (exfalso; exact G); cbn [fst snd].
    + split; [|reflexivity].
      assert (W : wf s) by (destruct b as [p l]; exact (proj1 G)).
      rewrite (marshal_roundtrip I s W).
      apply rel_set; [|apply rel1_touch; exact G].
      apply rel_set_l; [exact R|]. rewrite Eb. apply rel1_touch; exact G.
    + split; [exact R|reflexivity].
  - (* KCount *)
    pose proof (rel_get r br R i) as G.
    destruct (sget r i) as [s|] eqn:Es; cbn [fst snd].
    + split; [|reflexivity]. apply rel_set_l; [exact R|]. apply rel1_touch; exact G.
    + split; [exact R|reflexivity].
  - (* KObserve *)
    pose proof (rel_get r br R i) as G.
    destruct (sget r i) as [s|], (bget br i) as [[p l]|]; try (exfalso; exact G); cbn [fst snd].
    + split; [exact R|]. intros t obs'. unfold state_obs.
      destruct G as (_ & _ & -> & _). rewrite nz_eqb_refl. reflexivity.
    + split; [exact R|reflexivity].
Qed.

Lemma run_ok : forall ops r br, Forall2 rel1 r br -> Forall hashes_ok ops ->
  o_check br ops (k_run r ops) = true.
Proof.
  induction ops as [|o t IH]; intros r br R F; [reflexivity|].
  inversion F as [|? ? Ho Ft]; subst.
  destruct (step_ok r br o R Ho) as [R' C].
  cbn [k_run]. destruct (k_step r o) as [r' ob]. cbn [fst snd] in *.
  rewrite C. apply IH; assumption.
Qed.

(** * 7. the oracle holds on every history *)
Theorem history_oracle ops : Forall hashes_ok ops ->
  o_check (repeat None nvars) ops (k_run sregs0 ops) = true.
Proof.
  intro F. apply run_ok; [|exact F]. unfold sregs0, nvars. cbn [repeat].
  repeat constructor.
Qed.

End WithIface.
