(** C36 (rhh) — refinement of the robin-hood hash map model to the abstract association map.

    [Proofs/C36_rhh_tbl.v]: arithmetic / table / permutation lemmas;
    [Proofs/C36_rhh_inv.v]: the table invariant [TInv] and the two probe loops;
    this file: [regrow], [h_grow], [h_put], [h_step], [h_run] and the final lemmas.

    EXTRA HYPOTHESIS (genuinely needed, see [rhh_total]): the history has fewer than 2^63
    operations.  [pow2] never returns more than 2^63, so at capacity 2^63 the [Grow] of [put]
    is a no-op and a put into a completely full table would probe forever ([insert] runs out
    of fuel).  A table can only become full after 2^63 puts. *)
From Verif Require Import Base.Prelude Model.C36_rhh Proofs.C36_rhh_tbl Proofs.C36_rhh_inv
  Proofs.C36_rhh_sort.
From Coq Require Import ZifyBool ZifyNat ZifyN Permutation.
Local Open Scope N_scope.
Local Arguments pow2 : simpl never.
Local Arguments elems : simpl never.

Definition hash_ok (hashf : bytes -> N) : Prop := forall k, hashf k <> 0%N.
Definition ops_bounded (ops : list hop) : Prop := (N.of_nat (length ops) < 2 ^ 63)%N.

Definition kv (e : slot) : bytes * N := (s_key e, s_val e).

Lemma map_fst_kv l : map fst (map kv l) = map s_key l.
Proof. rewrite map_map. apply map_ext. reflexivity. Qed.

Lemma threshold_le cap lf : lf <= 100 -> (cap * lf) / 100 <= cap.
Proof.
  intros H. apply N.div_le_upper_bound; [lia|].
  rewrite (N.mul_comm 100 cap). apply N.mul_le_mono_l. auto.
Qed.

Lemma amap_remove_length_le k a : (length (amap_remove k a) <= length a)%nat.
Proof.
  induction a as [|[k' v'] a IH]; simpl; auto. destruct (bytes_eqb k' k); simpl; lia.
Qed.

Definition vals_nz (a : list (bytes * N)) : Prop := forall k v, In (k, v) a -> v <> 0.

Lemma amap_remove_in k a x : In x (amap_remove k a) -> In x a.
Proof.
  induction a as [|[k' v'] a IH]; simpl; auto.
  destruct (bytes_eqb k' k); simpl; tauto.
Qed.

Lemma vals_nz_fold ops : (forall k v, In (HPut k v) ops -> v <> 0) ->
  forall a, vals_nz a -> vals_nz (fold_left amap_step ops a).
Proof.
  induction ops as [|o r IH]; intros Hv a Ha; cbn [fold_left]; auto.
  apply IH.
  - intros k v Hin. apply (Hv k v). right; auto.
  - destruct o as [k v|k|sz|]; cbn [amap_step]; auto.
    + intros k' v' [E|Hin].
      * inversion E; subst. apply (Hv k' v'). left; auto.
      * apply (Ha k' v'). eapply amap_remove_in; eauto.
    + intros k' v' [].
Qed.

Ltac splits := repeat match goal with |- _ /\ _ => split end.

Section Main.
  Variable hashf : bytes -> N.
  Hypothesis hash_nz : hash_ok hashf.

  (** ** [regrow] *)

  Lemma regrow_spec cap : 0 < cap -> forall old t,
    TInv hashf cap t ->
    (forall e, In e (elems old) -> s_hash e = hashf (s_key e)) ->
    NoDup (map s_key (elems old)) ->
    (forall e e', In e (elems old) -> In e' (elems t) -> s_key e <> s_key e') ->
    (length (elems old) + length (elems t) < N.to_nat cap)%nat ->
    exists t', regrow cap old t = Some t' /\ TInv hashf cap t' /\
               Permutation (elems t') (elems old ++ elems t).
  Proof.
    intros Hcap. induction old as [|e r IH]; intros t HI Hval Hnd Hfr Hcnt.
    - exists t. simpl. auto.
    - cbn [regrow].
      change (elems (e :: r)) with (if occb e then e :: elems r else elems r) in *.
      destruct (N.eqb_spec (s_hash e) 0) as [E0|E0].
      + apply occb_false in E0. rewrite E0 in *. apply IH; auto.
      + pose proof E0 as Eo. apply occb_true in Eo. rewrite Eo in *.
        pose proof (Hval e (or_introl eq_refl)) as Hv1.
        pose proof (ti_len _ _ _ HI) as Hlen.
        cbn [map length] in *. inversion Hnd as [|? ? Hni Hnd']; subst.
        destruct (insert_spec hashf hash_nz cap Hcap t (s_key e) (s_val e) HI) as (t1 & ow & E1 & HI1 & Hcase);
          [lia|].
        rewrite Hv1, E1.
        destruct Hcase as [(-> & Hfresh & HP)|(-> & e0 & rest & Ek & P1 & P2)].
        * rewrite <- Hv1, mk_eta in HP.
          destruct (IH t1) as (t' & E' & HI' & HP'); auto.
          -- intros e1 Hin; apply Hval; right; auto.
          -- intros e1 e' Hin1 Hin'. apply (Permutation_in _ HP) in Hin'. destruct Hin' as [<-|Hin'].
             ++ intros Ek. apply Hni. rewrite <- Ek. apply in_map; auto.
             ++ apply Hfr; auto. right; auto.
          -- rewrite (Permutation_length HP). simpl. lia.
          -- exists t'. split; auto. split; auto.
             eapply perm_trans; [exact HP'|].
             eapply perm_trans; [apply Permutation_app_head; exact HP|].
             symmetry. apply Permutation_middle.
        * exfalso. apply (Hfr e e0); auto.
          -- left; auto.
          -- apply (Permutation_in _ (Permutation_sym P1)). left; auto.
  Qed.

  (** ** the map invariant *)

  Record HInv0 (m : hmap) : Prop := {
    hi_cap : 0 < h_cap m;
    hi_t : TInv hashf (h_cap m) (h_tbl m);
    hi_lf : h_lf m <= 100
  }.

  Definition HInv (m : hmap) : Prop :=
    HInv0 m /\ h_n m = Z.of_nat (length (elems (h_tbl m))).

  Lemma HInv0_occ_le m : HInv0 m -> N.of_nat (length (elems (h_tbl m))) <= h_cap m.
  Proof.
    intros H. pose proof (ti_len _ _ _ (hi_t _ H)). pose proof (elems_length_le (h_tbl m)). lia.
  Qed.

  Lemma grow_spec m sz : HInv0 m ->
    exists m', h_grow m sz = Some m' /\ HInv0 m' /\ h_n m' = h_n m /\
               Permutation (elems (h_tbl m')) (elems (h_tbl m)) /\
               h_cap m <= h_cap m' /\ pow2 sz <= h_cap m'.
  Proof.
    intros H. unfold h_grow.
    destruct (N.leb_spec (pow2 sz) (h_cap m)) as [Hle|Hgt].
    - exists m. splits; auto; try apply H. lia.
    - pose proof (hi_cap _ H) as Hc. pose proof (hi_t _ H) as HI.
      pose proof (HInv0_occ_le _ H) as Hocc.
      assert (Hc' : 0 < pow2 sz) by lia.
      destruct (regrow_spec (pow2 sz) Hc' (h_tbl m) (h_alloc (pow2 sz))) as (t' & E' & HI' & HP').
      + apply TInv_alloc.
      + intros e Hin. apply (TInv_elems_valid hashf (h_cap m) Hc (h_tbl m)); auto.
      + apply (TInv_NoDup hashf (h_cap m) Hc); auto.
      + rewrite elems_alloc. simpl. tauto.
      + rewrite elems_alloc. simpl. lia.
      + rewrite E'. eexists; split; [reflexivity|]. cbn.
        rewrite elems_alloc, app_nil_r in HP'.
        splits; auto; try lia. constructor; cbn; auto. apply H.
  Qed.

  (** ** [h_put] *)

  Lemma put_spec m k v :
    HInv m -> N.of_nat (length (elems (h_tbl m))) < 9223372036854775808 ->
    exists m', h_put hashf m k v = Some m' /\ HInv m' /\
      (((forall e, In e (elems (h_tbl m)) -> s_key e <> k)
        /\ Permutation (elems (h_tbl m')) (mk (hashf k) k v :: elems (h_tbl m)))
       \/ (exists e0 rest, s_key e0 = k /\ Permutation (elems (h_tbl m)) (e0 :: rest)
                           /\ Permutation (elems (h_tbl m')) (mk (hashf k) k v :: rest))).
  Proof.
    intros [H0 Hn] Hb. unfold h_put.
    set (m0 := {| h_tbl := h_tbl m; h_n := (h_n m + 1)%Z; h_cap := h_cap m; h_lf := h_lf m |}).
    pose proof (hi_cap _ H0) as Hc. pose proof (hi_lf _ H0) as Hlf.
    pose proof (HInv0_occ_le _ H0) as Hocc.
    assert (H00 : HInv0 m0) by (constructor; cbn; apply H0).
    assert (Hm1 : exists m1,
      (if Z.ltb (Z.of_N (h_threshold m)) (h_n m + 1) then h_grow m0 (h_cap m * 2) else Some m0) = Some m1
      /\ HInv0 m1 /\ h_n m1 = (h_n m + 1)%Z /\ Permutation (elems (h_tbl m1)) (elems (h_tbl m))
      /\ N.of_nat (length (elems (h_tbl m))) < h_cap m1).
    { destruct (Z.ltb_spec (Z.of_N (h_threshold m)) (h_n m + 1)) as [Hlt|Hge].
      - destruct (grow_spec m0 (h_cap m * 2) H00) as (m1 & E1 & H1 & Hn1 & HP1 & Hc1 & Hc2).
        exists m1. splits; auto; try apply H1. cbn in Hc1.
        destruct (N.lt_ge_cases (h_cap m) 9223372036854775808) as [Hs|Hs].
        + pose proof (pow2_double_gt (h_cap m) Hc Hs). lia.
        + lia.
      - exists m0. splits; auto; try apply H00. cbn.
        unfold h_threshold in Hge. pose proof (threshold_le (h_cap m) (h_lf m) Hlf). lia. }
    destruct Hm1 as (m1 & -> & H1 & Hn1 & HP1 & Hlt1).
    pose proof (hi_cap _ H1) as Hc1. pose proof (hi_t _ H1) as HI1.
    pose proof (ti_len _ _ _ HI1) as Hlen1.
    destruct (insert_spec hashf hash_nz (h_cap m1) Hc1 (h_tbl m1) k v HI1) as (t' & ow & E' & HI' & Hcase).
    { rewrite (Permutation_length HP1). lia. }
    rewrite E'. eexists; split; [reflexivity|].
    destruct Hcase as [(-> & Hfresh & HP)|(-> & e0 & rest & Ek & P1 & P2)].
    - split.
      + split; [constructor; cbn; auto; apply H1|]. cbn.
        rewrite (Permutation_length HP). cbn. rewrite (Permutation_length HP1). lia.
      + left. cbn. split.
        * intros e Hin. apply Hfresh. apply (Permutation_in _ (Permutation_sym HP1)); auto.
        * eapply perm_trans; [exact HP|]. apply perm_skip; auto.
    - split.
      + split; [constructor; cbn; auto; apply H1|]. cbn.
        rewrite (Permutation_length P2). cbn.
        pose proof (Permutation_length P1) as L1. pose proof (Permutation_length HP1) as L2.
        cbn in L1. lia.
      + right. cbn. exists e0, rest. splits; auto.
        eapply perm_trans; [symmetry; exact HP1|]. auto.
  Qed.

  (** ** refinement relation with the abstract association map *)

  Definition Rel (m : hmap) (a : list (bytes * N)) : Prop :=
    HInv m /\ Permutation (map kv (elems (h_tbl m))) a.

  Lemma Rel_NoDup m a : Rel m a -> NoDup (map fst a).
  Proof.
    intros [[H0 _] HP]. apply (Permutation_map fst) in HP. rewrite map_fst_kv in HP.
    eapply Permutation_NoDup; [exact HP|]. eapply TInv_NoDup; [apply H0|apply H0].
  Qed.

  Lemma Rel_length m a : Rel m a -> h_n m = Z.of_nat (length a).
  Proof.
    intros [[_ Hn] HP]. rewrite Hn. rewrite <- (Permutation_length HP), map_length. auto.
  Qed.

  Lemma Rel_get m a k : Rel m a ->
    h_get hashf m k = match amap_get k a with Some v => v | None => 0 end.
  Proof.
    intros HR. pose proof (Rel_NoDup _ _ HR) as Hnd. destruct HR as [[H0 _] HP].
    pose proof (hi_cap _ H0) as Hc. pose proof (hi_t _ H0) as HI.
    pose proof (ti_len _ _ _ HI) as Hlen.
    unfold h_get, h_index.
    destruct (in_dec bytes_dec k (map s_key (elems (h_tbl m)))) as [Hin|Hni].
    - apply in_map_iff in Hin as (e0 & Ek & Hin).
      assert (Hina : In (k, s_val e0) a).
      { apply (Permutation_in _ HP). apply in_map_iff. exists e0. split; auto. unfold kv. congruence. }
      rewrite (amap_get_in _ _ _ Hnd Hina).
      apply In_elems in Hin as (p0 & Hp0 & Ep0 & Hh0).
      rewrite (index_hit hashf hash_nz (h_cap m) Hc (h_tbl m) p0 k HI); try lia; try congruence.
    - rewrite (index_miss hashf hash_nz (h_cap m) Hc); auto.
      + rewrite amap_get_notin; auto. intros Hin. apply Hni.
        apply (Permutation_map fst) in HP. rewrite map_fst_kv in HP.
        apply (Permutation_in _ (Permutation_sym HP)); auto.
      + intros e Hin Ek. apply Hni. apply in_map_iff. exists e; auto.
  Qed.

  Lemma Rel_new c lf : lf <= 100 -> Rel (h_new c lf) [].
  Proof.
    intros Hlf. unfold h_new. split; [split|]; cbn.
    - constructor; cbn; auto. apply pow2_pos. apply TInv_alloc.
    - rewrite elems_alloc. reflexivity.
    - rewrite elems_alloc. constructor.
  Qed.

  Lemma Rel_put m a k v :
    Rel m a -> N.of_nat (length a) < 9223372036854775808 ->
    exists m', h_put hashf m k v = Some m' /\ Rel m' (amap_put k v a).
  Proof.
    intros HR Hb. pose proof (Rel_NoDup _ _ HR) as Hnd. destruct HR as [HI HP].
    pose proof (Permutation_length HP) as HL. rewrite map_length in HL.
    destruct (put_spec m k v HI) as (m' & E' & HI' & Hcase); [lia|].
    exists m'. split; auto. split; auto. unfold amap_put.
    destruct Hcase as [(Hfresh & P)|(e0 & rest & Ek & P1 & P2)].
    - rewrite amap_remove_notin.
      + apply (Permutation_map kv) in P. cbn in P. eapply perm_trans; [exact P|].
        apply perm_skip; auto.
      + intros Hin. apply (Permutation_map fst) in HP. rewrite map_fst_kv in HP.
        apply (Permutation_in _ (Permutation_sym HP)) in Hin.
        apply in_map_iff in Hin as (e & Ek & Hin). apply (Hfresh e); auto.
    - pose proof (Permutation_map s_key P1) as P1k. cbn in P1k.
      apply (Permutation_map kv) in P2. cbn in P2. eapply perm_trans; [exact P2|].
      apply perm_skip.
      apply (Permutation_map kv) in P1. cbn in P1.
      assert (P3 : Permutation a (kv e0 :: map kv rest))
        by (eapply perm_trans; [symmetry; exact HP|exact P1]).
      apply (amap_remove_perm k) in P3. symmetry. eapply perm_trans; [exact P3|].
      unfold kv at 1. cbn [amap_remove]. rewrite Ek, bytes_eqb_refl.
      rewrite amap_remove_notin; auto.
      rewrite map_fst_kv.
      destruct HI as [H0 _].
      pose proof (TInv_NoDup hashf (h_cap m) (hi_cap _ H0) _ (hi_t _ H0)) as Hnd2.
      apply (Permutation_NoDup P1k) in Hnd2. inversion Hnd2; subst; auto.
  Qed.

  Lemma Rel_grow m a sz : Rel m a -> exists m', h_grow m sz = Some m' /\ Rel m' a.
  Proof.
    intros [[H0 Hn] HP]. destruct (grow_spec m sz H0) as (m' & E & H0' & Hn' & P & _ & _).
    exists m'. split; auto. split; [split; auto|].
    - rewrite Hn', Hn, (Permutation_length P). auto.
    - eapply perm_trans; [apply Permutation_map; exact P|auto].
  Qed.

  Lemma Rel_reset m a : Rel m a -> Rel (h_reset m) [].
  Proof.
    intros [[H0 _] _]. unfold h_reset. split; [split|]; cbn [h_tbl h_n h_cap h_lf].
    - constructor; cbn [h_tbl h_n h_cap h_lf]; try apply H0. apply TInv_alloc.
    - rewrite elems_alloc. reflexivity.
    - rewrite elems_alloc. constructor.
  Qed.

  (** [Keys()] = the sorted domain, when no stored value is nil *)
  Lemma Rel_keys m a : Rel m a -> vals_nz a -> h_keys m = bytes_sort (map fst a).
  Proof.
    intros [[H0 _] HP] Hv. unfold h_keys.
    pose proof (hi_t _ H0) as HI. pose proof (ti_len _ _ _ HI) as Hlen.
    assert (E : filter (fun e => negb (N.eqb (s_val e) 0)) (h_tbl m) = elems (h_tbl m)).
    { unfold elems. apply filter_ext_in. intros e Hin.
      destruct (In_nth _ _ empty_slot Hin) as (n & Hn & En).
      destruct (N.eqb_spec (s_hash e) 0) as [E0|E0].
      - assert (Ee : e = empty_slot).
        { rewrite <- En in E0 |- *. pose proof (ti_canon _ _ _ HI (N.of_nat n)) as Hc.
          unfold tget in Hc. rewrite Nat2N.id in Hc. apply Hc; auto. lia. }
        rewrite Ee. reflexivity.
      - assert (Hine : In e (elems (h_tbl m))).
        { unfold elems. apply filter_In. split; auto. apply occb_true; auto. }
        assert (Hval : s_val e <> 0).
        { apply (Hv (s_key e)). apply (Permutation_in _ HP). apply in_map_iff. exists e; auto. }
        unfold occb. destruct (N.eqb_spec (s_val e) 0), (N.eqb_spec (s_hash e) 0); auto; congruence. }
    rewrite E. apply bytes_sort_perm.
    apply (Permutation_map fst) in HP. rewrite map_fst_kv in HP. auto.
  Qed.

  (** ** one step, then the whole run *)

  Lemma step_spec m a o :
    Rel m a ->
    N.of_nat (length a) < 9223372036854775808 ->
    exists m1 v n c,
      h_step hashf m o = Some (m1, (v, n, c)) /\ Rel m1 (amap_step a o) /\
      (match o with
       | HGet k => N.eqb v (match amap_get k a with Some x => x | None => 0 end)
       | _ => true
       end) = true /\
      n = Z.of_nat (length (amap_step a o)) /\
      (length (amap_step a o) <= S (length a))%nat.
  Proof.
    intros HR Hb. destruct o as [k v|k|sz|]; cbn [h_step amap_step].
    - destruct (Rel_put m a k v HR) as (m1 & E & HR1); [lia|].
      rewrite E. exists m1, 0, (h_n m1), (h_cap m1). splits; auto.
      + apply Rel_length; auto.
      + unfold amap_put. cbn [length]. pose proof (amap_remove_length_le k a). lia.
    - exists m, (h_get hashf m k), (h_n m), (h_cap m). splits; auto.
      + apply N.eqb_eq. apply Rel_get; auto.
      + apply Rel_length; auto.
    - destruct (Rel_grow m a sz HR) as (m1 & E & HR1). rewrite E.
      exists m1, 0, (h_n m1), (h_cap m1). splits; auto. apply Rel_length; auto.
    - exists (h_reset m), 0, (h_n (h_reset m)), (h_cap (h_reset m)). splits; auto.
      + eapply Rel_reset; eauto.
      + cbn [length]. lia.
  Qed.

  Lemma run_spec : forall ops m a,
    Rel m a ->
    N.of_nat (length a) + N.of_nat (length ops) < 9223372036854775808 ->
    exists m' obs, h_run hashf m ops = Some (m', obs) /\ amap_oracle a ops obs = true
                   /\ Rel m' (fold_left amap_step ops a).
  Proof.
    induction ops as [|o r IH]; intros m a HR Hb.
    - exists m, []. simpl. auto.
    - cbn [length] in Hb.
      destruct (step_spec m a o HR) as (m1 & v & n & c & E1 & HR1 & Hv & Hn & Hl); [lia|].
      destruct (IH m1 (amap_step a o) HR1) as (m' & obs & E' & Ho & HR'); [lia|].
      exists m', ((v, n, c) :: obs). cbn [h_run]. rewrite E1, E'. split; auto. split; auto.
      cbn [amap_oracle]. cbv zeta. rewrite Ho, Hv. subst n. rewrite Z.eqb_refl. reflexivity.
  Qed.
End Main.

(** * Final lemmas (hash function as a plain argument) *)

Lemma rhh_run_refines hashf c lf ops :
  hash_ok hashf -> lf <= 100 -> ops_bounded ops ->
  exists m obs, h_run hashf (h_new c lf) ops = Some (m, obs) /\ amap_oracle [] ops obs = true
                /\ Rel hashf m (amap_final ops).
Proof.
  intros Hh Hlf Hb. unfold ops_bounded in Hb.
  change (2 ^ 63) with 9223372036854775808 in Hb.
  apply (run_spec hashf Hh ops (h_new c lf) []); auto.
  apply Rel_new; auto.
Qed.

Lemma rhh_total : forall hashf c lf ops,
  hash_ok hashf -> (lf <= 100)%N -> ops_bounded ops ->
  exists m obs, h_run hashf (h_new c lf) ops = Some (m, obs).
Proof.
  intros hashf c lf ops Hh Hlf Hb.
  destruct (rhh_run_refines hashf c lf ops Hh Hlf Hb) as (m & obs & E & _).
  exists m, obs; auto.
Qed.

Lemma rhh_refines_map : forall hashf c lf ops m obs,
  hash_ok hashf -> (lf <= 100)%N -> ops_bounded ops ->
  h_run hashf (h_new c lf) ops = Some (m, obs) ->
  amap_oracle [] ops obs = true
  /\ (forall k, h_get hashf m k = match amap_get k (amap_final ops) with Some v => v | None => 0%N end)
  /\ h_n m = Z.of_nat (length (amap_final ops)).
Proof.
  intros hashf c lf ops m obs Hh Hlf Hb E.
  destruct (rhh_run_refines hashf c lf ops Hh Hlf Hb) as (m' & obs' & E' & Ho & HR).
  rewrite E in E'. inversion E'; subst m' obs'.
  split; auto. split.
  - intros k. apply Rel_get; auto.
  - eapply Rel_length; eauto.
Qed.

(** [index]'s loop: fuel [capacity+1] is as good as any larger fuel (no invariant needed:
    the loop exits as soon as [d > Dist(..)] and [Dist < capacity]). *)
Lemma index_fuel_irrelevant : forall cap t pos h k fuel,
  (0 < cap)%N -> (S (N.to_nat cap) <= fuel)%nat ->
  index_loop fuel cap t pos 0 h k = index_loop (S (N.to_nat cap)) cap t pos 0 h k.
Proof.
  intros cap t pos h k fuel Hc Hf.
  apply (index_fuel_gen cap t h k Hc (N.to_nat cap)); lia.
Qed.

Lemma rhh_keys_sorted_domain : forall hashf c lf ops m obs,
  hash_ok hashf -> (lf <= 100)%N -> ops_bounded ops ->
  (forall k v, In (HPut k v) ops -> v <> 0%N) ->
  h_run hashf (h_new c lf) ops = Some (m, obs) ->
  h_keys m = bytes_sort (map fst (amap_final ops)).
Proof.
  intros hashf c lf ops m obs Hh Hlf Hb Hv E.
  destruct (rhh_run_refines hashf c lf ops Hh Hlf Hb) as (m' & obs' & E' & Ho & HR).
  rewrite E in E'. inversion E'; subst m' obs'.
  apply (Rel_keys hashf m (amap_final ops) HR).
  unfold amap_final. apply vals_nz_fold; auto. intros k v [].
Qed.
