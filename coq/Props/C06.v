(** C06 — Multi-file block reads return the exact newest-wins merge.  Property theorems only.

    FULL STATEMENT (not proved in full; kept here as the goal):

      Theorem C06_keycursor_spec : forall (fs : list (tfile V)) t asc mrg,
        mrg = arr_merge \/ mrg = vals_merge ->
        Forall file_wf fs ->                         (* per file: blocks non-empty, strictly increasing inside,
                                                        ordered and non-overlapping, entry = first/last timestamp;
                                                        arbitrary overlap ACROSS files; any tombstone ranges *)
        MinInt64 <= t <= MaxInt64 ->                  (* every int64 seek time: the [t-1]/[t+1] wrap at the
                                                        extremes is guarded in [locations] (repaired) *)
        (length (locations fs t asc) <= 12)%nat ->     (* sort.Sort = insertion sort (see Model/C06.v); beyond 12
                                                        the statement is FALSE for the real code:
                                                        [C06_over_12_locations_refuted] *)
        exists bs, run_cursor mrg fs t asc = Some bs /\
                   flatten asc bs = live_points_newest_wins fs t asc.

    What is proved below, for ALL layouts (unbounded), all seeks, both directions, both value families:
      - the SAFETY half ([C06_returned_points_sound_partial]): every returned block is non-empty and
        strictly increasing; every returned point is a point of some file's block, is not covered by any
        tombstone of that file, and is not before (after, if descending) the seek time;
      - TERMINATION ([C06_cursor_loop_terminates]): the ReadBlock/Next loop reaches an empty block within
        (number of points + 1) iterations;
      - the ORDER fact the newest-wins half rests on ([C06_sort_overlapping_in_generation_order]):
        insertion sort with the non-transitive comparator leaves any two time-overlapping locations
        in generation order (the older file first), for any number of locations.
    REFUTED outside the hypotheses of the full statement (confirmed on the real code):
      - [C06_over_12_locations_refuted]: with more than 12 locations [sort.Sort] is pdqsort and the
        cursor returns an overwritten value (known finding over-12-locations-sort-breaks-newest-wins);
      (the former second refutation, seek at MinInt64 / MaxInt64 returning nothing because [t-1]/[t+1]
       wrapped in [locations], has been REPAIRED in the code: [C06_seek_respected_all_int64] and
       [C06_seek_at_int64_extreme] below).
    The COMPLETENESS half (every live point is returned, exactly once, with the newest value, blocks in
    order) is proved only on a finite family ([C06_keycursor_spec_small_partial], by exhaustive
    evaluation, bound in the statement); beyond it, it is only tested: the correspondence check
    compares the real cursor with the mirror AND the oracle on generated layouts, and the thorough
    tier enumerates all small layouts on the real code as a search for a counterexample. *)
From Verif Require Import Base.Prelude Model.C37 Proofs.C37 Model.C06 Proofs.C06 Proofs.C06_sort Proofs.C06_fuel Proofs.C06_small.
Local Open Scope Z_scope.

Theorem C06_returned_points_sound_partial :
  forall (V : Type) (fs : list (tfile V)) (t : Z) (asc : bool) (bs : list (arr V)),
    files_sorted fs ->
    (run_cursor arr_merge fs t asc = Some bs \/ run_cursor vals_merge fs t asc = Some bs) ->
    Forall (fun v => v <> [] /\ ssorted v /\
              Forall (fun p => exists f b, In f fs /\ In b (f_blocks f) /\ In p (b_data b) /\
                                 dead (f_tombs f) p = false /\
                                 ~ (init_rmin asc t <= tm p <= init_rmax asc t)) v) bs.
Proof.
  intros V fs t asc bs Hs [H|H].
  - exact (run_cursor_sound arr_merge (@merge_sorted V) (@arr_merge_In_weak V) fs t asc bs Hs H).
  - exact (run_cursor_sound vals_merge (@vals_merge_sorted V) (@vals_merge_In_weak V) fs t asc bs Hs H).
Qed.
Print Assumptions C06_returned_points_sound_partial.

(** The consumer loop [ReadBlock; Next] always reaches an empty block: the model's fuel
    (number of points in the files + 1) is never exhausted, for ANY merge function. *)
Theorem C06_cursor_loop_terminates :
  forall (V : Type) (mrg : arr V -> arr V -> arr V) (fs : list (tfile V)) (t : Z) (asc : bool),
    files_sorted fs -> run_cursor mrg fs t asc <> None.
Proof. intros V mrg fs t asc H. exact (run_cursor_total mrg fs t asc H). Qed.
Print Assumptions C06_cursor_loop_terminates.

Theorem C06_sort_overlapping_in_generation_order :
  forall (V : Type) (fs : list (tfile V)) (t : Z) (asc : bool),
    Forall (fun f => blocks_ordered (f_blocks f)) fs ->
    pairwise (fun y x => overlaps y (l_min x) (l_max x) = true -> (l_file y < l_file x)%nat)
             (k_seeks (new_cursor fs t asc)).
Proof. intros V fs t asc H. exact (seeks_newer_after fs t asc H). Qed.
Print Assumptions C06_sort_overlapping_in_generation_order.

Theorem C06_sort_is_permutation :
  forall (V : Type) (asc : bool) (l : list (loc V)), Permutation.Permutation (sort_locs asc l) l.
Proof. intros. apply sort_locs_perm. Qed.
Print Assumptions C06_sort_is_permutation.

Theorem C06_keycursor_spec_small_partial :
  forall (fs : list (tfile Z)) (t : Z) (asc : bool),
    In fs small_two \/ In fs small_three -> -1 <= t <= 4 ->
    exists bs, run_cursor arr_merge fs t asc = Some bs /\ run_cursor vals_merge fs t asc = Some bs /\
               flatten asc bs = live_points_newest_wins fs t asc.
Proof. exact small_layouts_spec. Qed.
Print Assumptions C06_keycursor_spec_small_partial.

(** "Outside the initial read range" means exactly "at or after (before, if descending) the seek time",
    for EVERY int64 seek time including MinInt64 / MaxInt64 (where the unguarded [t-1] / [t+1] used to
    wrap and mark everything read; finding seek-at-int64-extreme-wraps, repaired). *)
Theorem C06_seek_respected_all_int64 :
  forall (asc : bool) (t x : Z), MinInt64 <= t <= MaxInt64 -> MinInt64 <= x <= MaxInt64 ->
    (~ (init_rmin asc t <= x <= init_rmax asc t) <-> if asc then t <= x else x <= t).
Proof. exact init_range_seek. Qed.
Print Assumptions C06_seek_respected_all_int64.

(** The former refutation witness is now read correctly: a seek at MinInt64 ascending / MaxInt64
    descending returns the whole block (replays/C06-seek-int64-extreme.json on the real code). *)
Example C06_seek_at_int64_extreme :
  let fs := [ {| f_blocks := [ {| b_min := 0; b_max := 2; b_data := [(0, 10); (1, 10); (2, 10)] |} ];
                 f_tombs := []; f_tmin := 0; f_tmax := 2 |} ] in
  forallb file_wf_b fs = true /\
  run_cursor arr_merge fs MinInt64 true = Some [[(0, 10); (1, 10); (2, 10)]] /\
  live_points_newest_wins fs MinInt64 true = [(0, 10); (1, 10); (2, 10)] /\
  run_cursor vals_merge fs MaxInt64 false = Some [[(0, 10); (1, 10); (2, 10)]] /\
  live_points_newest_wins fs MaxInt64 false = [(0, 10); (1, 10); (2, 10)] /\
  run_cursor arr_merge fs MinInt64 false = Some [] /\ run_cursor arr_merge fs MaxInt64 true = Some [].
Proof. vm_compute. repeat split; reflexivity. Qed.

(** More than 12 locations: Go's [sort.Sort] is then pdqsort, and because [Less] is not a strict weak
    order its result is not determined by [Less]; it can put a block of a NEWER file before an
    overlapping block of an OLDER file, and the cursor (which merges in [seeks] order, later wins) then
    returns the OVERWRITTEN value.  Witness: 5 files, 13 blocks; [ord] is the order that go1.23.5's
    [sort.Sort(ascLocations)] left in [c.seeks] on the real code (read through [KeyCursor.VerifSeeks];
    replays/C06-over-12-locations.json): block [6,7,8] of file 4 comes before the overlapping block
    [7,11] of the older file 3, and timestamp 7 is returned with file 3's value 40 instead of 50.
    With the insertion-sort order of the model the same layout is read correctly. *)
Definition w13_files : list (tfile Z) :=
  let blk (v : Z) (ts : list Z) := {| b_min := hd 0 ts; b_max := last ts 0; b_data := map (fun t => (t, v)) ts |} in
  let file (bs : list (block Z)) := {| f_blocks := bs; f_tombs := []; f_tmin := 0; f_tmax := 40 |} in
  [ file [blk 10 [3]; blk 11 [25; 27; 31]];
    file [blk 20 [9; 10; 14; 16]; blk 21 [19; 23]];
    file [blk 30 [9; 13]; blk 31 [16; 20; 23; 24]; blk 32 [25]; blk 33 [28]];
    file [blk 40 [7; 11]; blk 41 [23; 26; 30; 34]];
    file [blk 50 [6; 7; 8]; blk 51 [9; 12]; blk 52 [31; 35]] ].
Definition w13_order : list (nat * Z) :=
  map (fun p : Z * Z => (Z.to_nat (fst p), snd p))
    [(0, 3); (4, 6); (1, 9); (2, 9); (3, 7); (4, 9); (1, 19); (2, 16); (0, 25); (2, 25); (2, 28); (3, 23); (4, 31)].

Theorem C06_over_12_locations_refuted :
  let t := -9223372036854775806 in
  forallb file_wf_b w13_files = true /\ MinInt64 <= t <= MaxInt64 /\
  length (locations w13_files t true) = 13%nat /\
  exists s bs,
    reorder (locations w13_files t true) w13_order = Some s /\
    run_cursor_on arr_merge w13_files s t true = Some bs /\
    run_cursor_on vals_merge w13_files s t true = Some bs /\
    lookup 7 (flatten true bs) = Some 40 /\
    lookup 7 (live_points_newest_wins w13_files t true) = Some 50 /\
    (exists bs', run_cursor arr_merge w13_files t true = Some bs' /\
                 flatten true bs' = live_points_newest_wins w13_files t true).
Proof.
  cbv zeta. split; [vm_compute; reflexivity|]. split; [unfold MinInt64, MaxInt64; lia|].
  split; [vm_compute; reflexivity|].
  eexists. eexists. split; [vm_compute; reflexivity|]. split; [vm_compute; reflexivity|].
  split; [vm_compute; reflexivity|]. split; [vm_compute; reflexivity|]. split; [vm_compute; reflexivity|].
  eexists. split; vm_compute; reflexivity.
Qed.
Print Assumptions C06_over_12_locations_refuted.

(** Non-vacuity: two overlapping files with a tombstone each; the cursor returns the newest-wins merge
    in both directions, and the hypotheses of the theorems hold for this layout. *)
Example C06_nonvacuous :
  let f1 := {| f_blocks := [ {| b_min := 0; b_max := 4; b_data := [(0, 1); (2, 1); (4, 1)] |};
                             {| b_min := 6; b_max := 8; b_data := [(6, 1); (8, 1)] |} ];
               f_tombs := [(2, 2)]; f_tmin := 0; f_tmax := 10 |} in
  let f2 := {| f_blocks := [ {| b_min := 1; b_max := 3; b_data := [(1, 2); (2, 2); (3, 2)] |};
                             {| b_min := 7; b_max := 9; b_data := [(7, 2); (8, 2); (9, 2)] |} ];
               f_tombs := [(8, 9)]; f_tmin := 0; f_tmax := 10 |} in
  forallb file_wf_b [f1; f2] = true /\
  run_cursor arr_merge [f1; f2] 0 true
    = Some [[(0, 1); (1, 2); (2, 2); (3, 2); (4, 1)]; [(6, 1); (7, 2); (8, 1)]] /\
  run_cursor vals_merge [f1; f2] 9 false
    = Some [[(6, 1); (7, 2); (8, 1)]; [(1, 2); (2, 2); (3, 2); (4, 1)]; [(0, 1)]] /\
  live_points_newest_wins [f1; f2] 0 true
    = [(0, 1); (1, 2); (2, 2); (3, 2); (4, 1); (6, 1); (7, 2); (8, 1)] /\
  (N.of_nat (length small_two) = 35301 /\ N.of_nat (length small_three) = 2744)%N.
Proof. vm_compute. repeat split; reflexivity. Qed.
