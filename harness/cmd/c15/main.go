// C15 driver: tag WHERE expressions on a REAL tsi1.Index (8 partitions) with a REAL
// tsdb.SeriesFile in a temp dir, read the way the query layer does it:
// tsdb.IndexSet.MeasurementSeriesByExprIterator(name, expr); the returned series ids are
// mapped to series keys through the series file.  An index lives through a HISTORY: batch
// creation (Index.CreateSeriesListIfNotExists, one call per batch, series spread over the
// partitions), engine-style drops, and queries; every query is a case, judged against the
// series live at that moment, and carries the history before it (so that the tag-value
// series-id cache filled by earlier queries and maintained by later batch creations is part of
// what is tested: query -> batch create of >= 4 new series -> same query again, no reopen).
// One index is built per batch of cases
// (series set = random subset of 2 measurements x {k1,k2} x {absent,a,b}, optionally with some
// series dropped the way tsm1.Engine.deleteSeriesRange drops them) and reused for many
// expressions.  Go's regexp answers for every (pattern, subject) pair a case can ask are
// recorded into the case and handed to the Coq model as its regex oracle.
package main

import (
	"fmt"
	"os"
	"path/filepath"
	"regexp"
	"sort"
	"strings"

	"github.com/influxdata/influxdb/v2/models"
	"github.com/influxdata/influxdb/v2/tsdb"
	"github.com/influxdata/influxdb/v2/tsdb/index/tsi1"
	"github.com/influxdata/influxql"
	"go.uber.org/zap"
	"verifh/vh"
)

var measNames = []string{"m", "n"}
var keyNames = []string{"k1", "k2"}
var valNames = []string{"a", "b"}
var exprKeys = []string{"k1", "k2", "k1", "k2", "k3"}    // k3 is never a tag key
var exprVals = []string{"", "a", "b", "a", "b", "", "c"} // c is never a tag value
var nameVals = []string{"m", "n", "x", ""}               // for _name comparisons
var patterns = []string{`^a$`, `a|b`, `.*`, `^$`, `b?`, `.+`, `^m`}
var compiled []*regexp.Regexp

type jseries struct {
	Name string      `json:"name"`
	Tags [][2]string `json:"tags,omitempty"` // sorted by key
}

func (s jseries) tags() models.Tags {
	m := map[string]string{}
	for _, t := range s.Tags {
		m[t[0]] = t[1]
	}
	return models.NewTags(m)
}
func (s jseries) key() []byte { return models.MakeKey([]byte(s.Name), s.tags()) }

type jexpr struct {
	Op    string `json:"op"` // eq neq re nre and or paren true false eqref neqref field
	K     string `json:"k,omitempty"`
	V     string `json:"v,omitempty"`
	R     int    `json:"r,omitempty"`
	A     *jexpr `json:"a,omitempty"`
	B     *jexpr `json:"b,omitempty"`
	Flip  bool   `json:"flip,omitempty"`  // literal on the left-hand side
	Typed bool   `json:"typed,omitempty"` // VarRef carries its type (Tag / Float) instead of Unknown
}

// one step of the history that precedes a case's query
type jstep struct {
	T      string    `json:"t"`                // create | drop | query
	Series []jseries `json:"series,omitempty"` // create: ONE CreateSeriesListIfNotExists batch; drop: engine-style drops
	Name   string    `json:"name,omitempty"`   // query (result discarded; it fills the index's caches)
	Expr   *jexpr    `json:"expr,omitempty"`
}

type jcase struct {
	Steps   []jstep  `json:"history"`
	Name    string   `json:"name"`
	Expr    *jexpr   `json:"expr"`
	ExprStr string   `json:"expr_text"`
	Out     []int    `json:"impl_out"` // positions (in the live list) of the returned series
	OutKeys []string `json:"impl_out_keys"`
}

// ---- real index ----

type env struct {
	root  string
	sfile *tsdb.SeriesFile
	idx   *tsi1.Index
	fs    *tsdb.MeasurementFieldSet
	live  []jseries
	pos   map[string]int // series key -> position in live
}

func newEnv() (*env, error) {
	root, err := os.MkdirTemp("", "c15-")
	if err != nil {
		return nil, err
	}
	e := &env{root: root}
	e.sfile = tsdb.NewSeriesFile(filepath.Join(root, "_series"))
	e.sfile.Logger = zap.NewNop()
	if err := e.sfile.Open(); err != nil {
		return nil, err
	}
	e.idx = tsi1.NewIndex(e.sfile, "db0", tsi1.WithPath(filepath.Join(root, "index")))
	if err := e.idx.Open(); err != nil {
		return nil, err
	}
	fs, err := tsdb.NewMeasurementFieldSet(filepath.Join(root, "fields.idx"), zap.NewNop())
	if err != nil {
		return nil, err
	}
	e.fs = fs
	for _, m := range measNames { // field "f" exists in every measurement
		if _, _, err := fs.CreateFieldsIfNotExists([]byte(m)).CreateFieldIfNotExists("f", influxql.Float); err != nil {
			return nil, err
		}
	}
	e.idx.SetFieldSet(fs)
	e.pos = map[string]int{}
	return e, nil
}

// apply executes one history step on the live index.
func (e *env) apply(st jstep) error {
	switch st.T {
	case "create":
		n := len(st.Series)
		if n == 0 {
			return nil
		}
		keys := make([][]byte, n)
		names := make([][]byte, n)
		tags := make([]models.Tags, n)
		for i, s := range st.Series {
			keys[i], names[i], tags[i] = s.key(), []byte(s.Name), s.tags()
		}
		if err := e.idx.CreateSeriesListIfNotExists(keys, names, tags); err != nil {
			return err
		}
		for _, s := range st.Series {
			if _, ok := e.pos[string(s.key())]; !ok {
				e.pos[string(s.key())] = len(e.live)
				e.live = append(e.live, s)
			}
		}
	case "drop":
		buf := make([]byte, 0, 256)
		for _, s := range st.Series {
			id := e.sfile.SeriesID([]byte(s.Name), s.tags(), buf)
			if id == 0 {
				return fmt.Errorf("no id for %s", s.key())
			}
			// the sequence of tsm1.Engine.deleteSeriesRange
			if err := e.idx.DropSeries(id, s.key(), false); err != nil {
				return err
			}
			if _, err := e.idx.DropMeasurementIfSeriesNotExist([]byte(s.Name)); err != nil {
				return err
			}
			if _, err := e.sfile.DeleteSeriesID(id, true); err != nil {
				return err
			}
			var nl []jseries
			for _, x := range e.live {
				if string(x.key()) != string(s.key()) {
					nl = append(nl, x)
				}
			}
			e.live = nl
		}
		e.pos = map[string]int{}
		for i, x := range e.live {
			e.pos[string(x.key())] = i
		}
	case "query":
		is := tsdb.IndexSet{Indexes: []tsdb.Index{e.idx}, SeriesFile: e.sfile}
		itr, err := is.MeasurementSeriesByExprIterator([]byte(st.Name), st.Expr.ast())
		if err != nil {
			return err
		}
		if itr != nil {
			for {
				el, err := itr.Next()
				if err != nil || el.SeriesID == 0 {
					break
				}
			}
			itr.Close()
		}
	default:
		return fmt.Errorf("bad step %q", st.T)
	}
	return nil
}

func (e *env) close() {
	if e.idx != nil {
		e.idx.Close()
	}
	if e.fs != nil {
		e.fs.Close()
	}
	if e.sfile != nil {
		e.sfile.Close()
	}
	os.RemoveAll(e.root)
}

// ---- expressions ----

func (x *jexpr) ast() influxql.Expr {
	ref := func(k string) *influxql.VarRef {
		r := &influxql.VarRef{Val: k}
		if x.Typed && k != "_name" {
			r.Type = influxql.Tag
		}
		return r
	}
	bin := func(op influxql.Token, l, r influxql.Expr) influxql.Expr {
		if x.Flip {
			l, r = r, l
		}
		return &influxql.BinaryExpr{Op: op, LHS: l, RHS: r}
	}
	switch x.Op {
	case "eq":
		return bin(influxql.EQ, ref(x.K), &influxql.StringLiteral{Val: x.V})
	case "neq":
		return bin(influxql.NEQ, ref(x.K), &influxql.StringLiteral{Val: x.V})
	case "re":
		return bin(influxql.EQREGEX, ref(x.K), &influxql.RegexLiteral{Val: compiled[x.R]})
	case "nre":
		return bin(influxql.NEQREGEX, ref(x.K), &influxql.RegexLiteral{Val: compiled[x.R]})
	case "eqref":
		return &influxql.BinaryExpr{Op: influxql.EQ, LHS: ref(x.K), RHS: ref(x.V)}
	case "neqref":
		return &influxql.BinaryExpr{Op: influxql.NEQ, LHS: ref(x.K), RHS: ref(x.V)}
	case "field":
		f := &influxql.VarRef{Val: x.K}
		if x.Typed {
			f.Type = influxql.Float
		}
		return bin(influxql.GT, f, &influxql.NumberLiteral{Val: 1})
	case "and":
		return &influxql.BinaryExpr{Op: influxql.AND, LHS: x.A.ast(), RHS: x.B.ast()}
	case "or":
		return &influxql.BinaryExpr{Op: influxql.OR, LHS: x.A.ast(), RHS: x.B.ast()}
	case "paren":
		return &influxql.ParenExpr{Expr: x.A.ast()}
	case "true":
		return &influxql.BooleanLiteral{Val: true}
	case "false":
		return &influxql.BooleanLiteral{Val: false}
	}
	panic("bad op " + x.Op)
}

func str(s string) string { return "\"" + s + "\"" } // universe strings contain no quote

func (x *jexpr) term() string {
	switch x.Op {
	case "eq":
		return fmt.Sprintf("(Eq %s %s)", str(x.K), str(x.V))
	case "neq":
		return fmt.Sprintf("(Neq %s %s)", str(x.K), str(x.V))
	case "re":
		return fmt.Sprintf("(Re %s %d%%N)", str(x.K), x.R)
	case "nre":
		return fmt.Sprintf("(NRe %s %d%%N)", str(x.K), x.R)
	case "eqref":
		return fmt.Sprintf("(EqRef %s %s)", str(x.K), str(x.V))
	case "neqref":
		return fmt.Sprintf("(NeqRef %s %s)", str(x.K), str(x.V))
	case "field":
		return fmt.Sprintf("(FieldCmp %s)", str(x.K))
	case "and":
		return fmt.Sprintf("(And %s %s)", x.A.term(), x.B.term())
	case "or":
		return fmt.Sprintf("(Or %s %s)", x.A.term(), x.B.term())
	case "paren":
		return fmt.Sprintf("(Paren %s)", x.A.term())
	case "true":
		return "(BoolLit true)"
	case "false":
		return "(BoolLit false)"
	}
	panic("bad op " + x.Op)
}

func (x *jexpr) walk(f func(*jexpr)) {
	f(x)
	if x.A != nil {
		x.A.walk(f)
	}
	if x.B != nil {
		x.B.walk(f)
	}
}

func seriesTerm(s jseries) string {
	ts := make([]string, len(s.Tags))
	for i, t := range s.Tags {
		ts[i] = vh.Pair(str(t[0]), str(t[1]))
	}
	return fmt.Sprintf("{| s_name := %s; s_tags := %s |}", str(s.Name), vh.List(ts))
}

// ---- one case ----

func run(w *vh.W, e *env, c *jcase) {
	ast := c.Expr.ast()
	c.ExprStr = ast.String()
	is := tsdb.IndexSet{Indexes: []tsdb.Index{e.idx}, SeriesFile: e.sfile}
	var ids []uint64
	var callErr error
	p := vh.Guard(func() {
		itr, err := is.MeasurementSeriesByExprIterator([]byte(c.Name), ast)
		if err != nil {
			callErr = err
			return
		}
		if itr == nil {
			return
		}
		defer itr.Close()
		for {
			el, err := itr.Next()
			if err != nil {
				callErr = err
				return
			}
			if el.SeriesID == 0 {
				return
			}
			ids = append(ids, el.SeriesID)
		}
	})
	c.Out, c.OutKeys = nil, nil
	bad := ""
	if p != "" {
		bad = "panic: " + p
	} else if callErr != nil {
		bad = "error: " + callErr.Error()
	}
	for i, id := range ids {
		if i > 0 && ids[i-1] >= id {
			bad = fmt.Sprintf("ids not strictly ascending: %v", ids)
		}
		name, tags := e.sfile.Series(id)
		k := string(models.MakeKey(name, tags))
		pos, ok := e.pos[k]
		if !ok {
			bad = fmt.Sprintf("returned id %d = %q which is not a live series of the index", id, k)
			continue
		}
		c.Out = append(c.Out, pos)
		c.OutKeys = append(c.OutKeys, k)
	}
	sort.Ints(c.Out)
	sort.Strings(c.OutKeys)

	// regexp oracle table: every pattern of the expression x every subject it can be asked about
	subj := map[string]bool{"": true, c.Name: true}
	for _, s := range e.live {
		for _, t := range s.Tags {
			subj[t[1]] = true
		}
	}
	pats := map[int]bool{}
	tagOnly, depth := true, 0
	var dep func(x *jexpr) int
	dep = func(x *jexpr) int {
		d := 0
		if x.A != nil {
			d = dep(x.A)
		}
		if x.B != nil {
			if d2 := dep(x.B); d2 > d {
				d = d2
			}
		}
		return d + 1
	}
	depth = dep(c.Expr)
	c.Expr.walk(func(x *jexpr) {
		if x.Op == "re" || x.Op == "nre" {
			pats[x.R] = true
		}
		if x.Op == "eqref" || x.Op == "neqref" || x.Op == "field" {
			tagOnly = false
		}
	})
	var rows []string
	var pl []int
	for p := range pats {
		pl = append(pl, p)
	}
	sort.Ints(pl)
	for _, p := range pl {
		for _, s := range vh.SortedKeys(subj) {
			rows = append(rows, fmt.Sprintf("(%d%%N, %s, %s)", p, str(s), vh.Bool(compiled[p].MatchString(s))))
		}
	}
	st := make([]string, len(e.live))
	for i, s := range e.live {
		st[i] = seriesTerm(s)
	}
	out := make([]uint64, len(c.Out))
	for i, o := range c.Out {
		out[i] = uint64(o)
	}
	t := fmt.Sprintf("{| c_series := %s; c_tbl := %s; c_name := %s; c_expr := %s; c_out := %s |}",
		vh.List(st), vh.List(rows), str(c.Name), c.Expr.term(), vh.Ns(out))
	nMeas := 0
	for _, s := range e.live {
		if s.Name == c.Name {
			nMeas++
		}
	}
	// non-trivial: the measurement has >= 2 live series and the answer is a proper non-empty subset
	nontrivial := nMeas >= 2 && len(c.Out) > 0 && len(c.Out) < nMeas
	idx := w.Add(t, c, nontrivial, "")
	if bad != "" {
		w.Fail(idx, bad, "")
	}
	w.Count("depth", fmt.Sprint(depth))
	w.Count("tag_only", fmt.Sprint(tagOnly))
	w.Count("selected", fmt.Sprint(len(c.Out)))
	w.Count("live_in_measurement", fmt.Sprint(nMeas))
	nCreate, nDrop, nWarm, repeat := 0, 0, 0, false
	for _, st := range c.Steps {
		switch st.T {
		case "create":
			nCreate++
			repeat = false
		case "drop":
			nDrop += len(st.Series)
		case "query":
			nWarm++
		}
	}
	// was the same query asked before the last batch creation?
	seenBatch := false
	for i := len(c.Steps) - 1; i >= 0; i-- {
		st := c.Steps[i]
		if st.T == "create" {
			seenBatch = true
		}
		if seenBatch && st.T == "query" && st.Name == c.Name && st.Expr.term() == c.Expr.term() {
			repeat = true
			break
		}
	}
	w.Count("dropped", fmt.Sprint(nDrop))
	w.Count("create_batches_before", fmt.Sprint(nCreate))
	w.Count("queries_before", fmt.Sprint(nWarm/10*10)+"+")
	w.Count("same_query_asked_before_last_batch", fmt.Sprint(repeat))
	w.Count("root_op", c.Expr.Op)
}

// ---- generators ----

func allSeries() []jseries {
	var out []jseries
	opts := []string{"", "a", "b"}
	for _, m := range measNames {
		for _, v1 := range opts {
			for _, v2 := range opts {
				s := jseries{Name: m}
				if v1 != "" {
					s.Tags = append(s.Tags, [2]string{"k1", v1})
				}
				if v2 != "" {
					s.Tags = append(s.Tags, [2]string{"k2", v2})
				}
				out = append(out, s)
			}
		}
	}
	return out
}

func genAtom(w *vh.W, outside bool) *jexpr {
	r := w.Rng
	x := &jexpr{Typed: r.IntN(3) == 0}
	k := exprKeys[r.IntN(len(exprKeys))]
	if r.IntN(10) == 0 {
		k = "_name"
	}
	x.K = k
	c := r.IntN(20)
	switch {
	case outside && c == 0:
		x.Op, x.V = []string{"eqref", "neqref"}[r.IntN(2)], exprKeys[r.IntN(len(exprKeys))]
		if x.K == "_name" {
			x.K = "k1"
		}
	case outside && c == 1:
		x.Op, x.K = "field", "f"
		x.Flip = r.IntN(4) == 0
	case c == 2:
		x.Op = []string{"true", "false"}[r.IntN(2)]
		x.K = ""
	case c < 12:
		x.Op = []string{"eq", "neq"}[r.IntN(2)]
		if k == "_name" {
			x.V = nameVals[r.IntN(len(nameVals))]
		} else {
			x.V = exprVals[r.IntN(len(exprVals))]
		}
		x.Flip = r.IntN(5) == 0
	default:
		x.Op = []string{"re", "nre"}[r.IntN(2)]
		x.R = r.IntN(len(patterns))
	}
	return x
}

func genExpr(w *vh.W, depth int, outside bool) *jexpr {
	r := w.Rng
	if depth <= 1 || r.IntN(7) == 0 {
		return genAtom(w, outside)
	}
	switch r.IntN(7) {
	case 0:
		return &jexpr{Op: "paren", A: genExpr(w, depth-1, outside)}
	case 1, 2, 3:
		return &jexpr{Op: "and", A: genExpr(w, depth-1, outside), B: genExpr(w, depth-1, outside)}
	default:
		return &jexpr{Op: "or", A: genExpr(w, depth-1, outside), B: genExpr(w, depth-1, outside)}
	}
}

func genIndex(w *vh.W) ([]jseries, []int) {
	r := w.Rng
	all := allSeries()
	r.Shuffle(len(all), func(i, j int) { all[i], all[j] = all[j], all[i] })
	var created []jseries
	dens := []int{2, 3, 5, 8}[r.IntN(4)] // out of 10
	for _, s := range all {
		if r.IntN(10) < dens {
			created = append(created, s)
		}
	}
	var dropped []int
	if r.IntN(3) == 0 {
		for i := range created {
			if r.IntN(4) == 0 {
				dropped = append(dropped, i)
			}
		}
	}
	return created, dropped
}

func atom(op, k, v string) *jexpr   { return &jexpr{Op: op, K: k, V: v} }
func re(op, k string, r int) *jexpr { return &jexpr{Op: op, K: k, R: r} }

func main() {
	w := vh.New("C15", "From Coq Require Import String.\nFrom Verif Require Import Base.Prelude Model.C15.\nOpen Scope string_scope.", "case", "check")
	w.Rule = "one case = (index contents, measurement, expression). An index lives through a history over the 18 series of 2 measurements x {k1,k2} x {absent,a,b}: one batch creation of 2-9 series, (1/3) engine-style drops of ~25% of them, 16 queries, then up to two more rounds of [ONE CreateSeriesListIfNotExists batch of 4-7 NEW series spread over the 8 partitions, (1/4) drops, ALL earlier queries again on the live index (tag-value series-id cache filled by the earlier queries and maintained by the batch creation), 8 fresh queries]; no reopen. The case carries the whole history before its query (replayed step by step) and is judged against the series live at that moment. Expressions: depth <= 3 over atoms k (=|!=) v with k in {k1,k2,k3(never a key),_name} and v in {'',a,b,c(never a value)}, k (=~|!~) one of 7 regexes (3 of them match ''), true/false, and (10%) tag-vs-tag / field comparisons outside the property's grammar; AND/OR/parentheses. First come hand-picked cases: every atom shape on a fixed 7-series index. Non-trivial: the measurement has >= 2 live series and the selected set is a non-empty proper subset. Distinct: distinct Gallina terms."
	for _, p := range patterns {
		compiled = append(compiled, regexp.MustCompile(p))
	}
	die := func(err error) {
		if err != nil {
			fmt.Fprintln(os.Stderr, "driver error:", err)
			os.Exit(3)
		}
	}
	var rc jcase
	if w.ReplayCase(&rc) {
		e, err := newEnv()
		die(err)
		for _, st := range rc.Steps {
			die(e.apply(st))
		}
		run(w, e, &rc)
		e.close()
		w.Finish()
		return
	}
	mk := func(name string, kv ...string) jseries {
		s := jseries{Name: name}
		for i := 0; i+1 < len(kv); i += 2 {
			s.Tags = append(s.Tags, [2]string{kv[i], kv[i+1]})
		}
		return s
	}
	// hand-picked: fixed index, every atom shape and the compound shapes of the design
	fixed := []jseries{mk("m"), mk("m", "k1", "a"), mk("m", "k1", "b"), mk("m", "k2", "a"), mk("m", "k1", "a", "k2", "b"), mk("n", "k1", "a"), mk("m", "k1", "b", "k2", "b")}
	var hand []*jexpr
	for _, k := range []string{"k1", "k3", "_name"} {
		for _, v := range []string{"", "a", "c", "m"} {
			hand = append(hand, atom("eq", k, v), atom("neq", k, v))
		}
		for r := range patterns {
			hand = append(hand, re("re", k, r), re("nre", k, r))
		}
	}
	hand = append(hand,
		&jexpr{Op: "and", A: atom("eq", "k1", "a"), B: atom("eq", "k2", "b")},
		&jexpr{Op: "or", A: atom("eq", "k1", "a"), B: atom("eq", "k2", "a")},
		&jexpr{Op: "and", A: atom("false", "", ""), B: atom("eq", "k1", "a")},
		&jexpr{Op: "or", A: atom("false", "", ""), B: atom("eq", "k1", "a")},
		&jexpr{Op: "and", A: &jexpr{Op: "paren", A: &jexpr{Op: "or", A: atom("eq", "k1", ""), B: re("re", "k2", 1)}}, B: atom("neq", "k1", "b")},
		atom("eqref", "k1", "k2"), atom("neqref", "k1", "k2"), &jexpr{Op: "field", K: "f", Typed: true}, &jexpr{Op: "field", K: "f"},
		&jexpr{Op: "or", A: &jexpr{Op: "field", K: "f"}, B: atom("eq", "k1", "a")},
		&jexpr{Op: "and", A: &jexpr{Op: "field", K: "f"}, B: atom("eq", "k1", "a")},
		&jexpr{Op: "and", A: re("re", "_name", 6), B: atom("eq", "k1", "a")},
	)
	// history runner: every query is a case carrying the history before it, and then becomes
	// part of the history itself
	type hist struct {
		e     *env
		steps []jstep
	}
	newHist := func() *hist {
		e, err := newEnv()
		die(err)
		return &hist{e: e}
	}
	step := func(h *hist, st jstep) {
		die(h.e.apply(st))
		h.steps = append(h.steps, st)
	}
	ask := func(h *hist, name string, x *jexpr) bool {
		if w.Len() >= w.N {
			return false
		}
		c := jcase{Steps: h.steps[:len(h.steps):len(h.steps)], Name: name, Expr: x}
		run(w, h.e, &c)
		h.steps = append(h.steps, jstep{T: "query", Name: name, Expr: x})
		return true
	}
	pick := func(idx []int) []jseries {
		var out []jseries
		for _, i := range idx {
			out = append(out, fixed[i])
		}
		return out
	}
	// hand-picked 1: fixed index, every atom shape and the compound shapes of the design
	func() {
		h := newHist()
		defer h.e.close()
		step(h, jstep{T: "create", Series: fixed})
		for _, x := range hand {
			if !ask(h, "m", x) {
				return
			}
		}
	}()
	// hand-picked 2: part of the fixed index, all queries (fills the tag-value cache), two drops,
	// then ONE batch with the remaining series, then all queries again on the live index
	func() {
		h := newHist()
		defer h.e.close()
		step(h, jstep{T: "create", Series: pick([]int{0, 1, 5})})
		for i, x := range hand {
			if !ask(h, []string{"m", "n"}[i%2], x) {
				return
			}
		}
		step(h, jstep{T: "drop", Series: pick([]int{1})})
		step(h, jstep{T: "create", Series: append(pick([]int{2, 3, 4, 6}), mk("n", "k1", "b"), mk("n", "k2", "a"), mk("m", "k1", "a", "k2", "a"), mk("n", "k1", "a", "k2", "b"))})
		for i, x := range hand {
			if !ask(h, []string{"m", "n"}[i%2], x) {
				return
			}
		}
	}()
	genQuery := func() (string, *jexpr) {
		x := genExpr(w, []int{1, 2, 2, 3, 3}[w.Rng.IntN(5)], w.Rng.IntN(10) == 0)
		n := measNames[w.Rng.IntN(2)]
		if w.Rng.IntN(25) == 0 {
			n = "x" // unknown measurement
		}
		return n, x
	}
	for w.Len() < w.N {
		func() {
			r := w.Rng
			h := newHist()
			defer h.e.close()
			univ := allSeries()
			r.Shuffle(len(univ), func(i, j int) { univ[i], univ[j] = univ[j], univ[i] })
			n1 := []int{2, 4, 6, 9}[r.IntN(4)]
			step(h, jstep{T: "create", Series: univ[:n1]})
			rest := univ[n1:]
			maybeDrop := func(p int) {
				if r.IntN(p) != 0 || len(h.e.live) == 0 {
					return
				}
				var d []jseries
				for _, s := range h.e.live {
					if r.IntN(4) == 0 {
						d = append(d, s)
					}
				}
				if len(d) > 0 {
					step(h, jstep{T: "drop", Series: d})
				}
			}
			maybeDrop(3)
			type q struct {
				n string
				x *jexpr
			}
			var asked []q
			phases := 1 + r.IntN(3)
			for ph := 0; ph < phases; ph++ {
				if ph > 0 {
					k := 4 + r.IntN(4)
					if len(rest) < 4 {
						return
					}
					if k > len(rest) {
						k = len(rest)
					}
					step(h, jstep{T: "create", Series: rest[:k]}) // ONE multi-series batch on the live index
					rest = rest[k:]
					maybeDrop(4)
				}
				for _, a := range asked { // the same queries again, now served from the maintained cache
					if !ask(h, a.n, a.x) {
						return
					}
				}
				fresh := 16
				if ph > 0 {
					fresh = 8
				}
				for i := 0; i < fresh; i++ {
					n, x := genQuery()
					asked = append(asked, q{n, x})
					if !ask(h, n, x) {
						return
					}
				}
			}
		}()
	}
	_ = strings.Join
	w.Finish()
}
