// C16 driver: the real tsm1 delete-predicate matcher on generated predicates x series.
//
// One case = one predicate (a tree of comparisons over tag refs / literals / regexes joined by
// AND / OR, depth <= 3) and up to 6 series.  The predicate is built
//   - directly as a datatypes.Predicate protobuf -> tsm1.NewProtobufPredicate,
//   - its Clone(),
//   - tsm1.UnmarshalPredicate(Marshal()) when proto.Marshal accepts it,
//   - and, when the tree is in the grammar of the public delete API (tag =/!= "literal",
//     AND, parentheses), also from its TEXT via predicate.Parse -> predicate.New.
//
// Every series key is built the way tsdb.PredicateSeriesIDIterator builds it:
// models.MakeKey(name, [{\x00 name}] + sorted tags) (optionally with a \xff field tag and/or
// a "#!~#field" composite-key suffix).  The same predicate objects are reused for all series
// of the case (stale-cache bugs would show).  Observable: Matches(key).
package main

import (
	"encoding/json"
	"fmt"
	"regexp"
	"sort"
	"strconv"
	"strings"

	"github.com/influxdata/influxdb/v2/models"
	"github.com/influxdata/influxdb/v2/predicate"
	"github.com/influxdata/influxdb/v2/storage/reads/datatypes"
	"github.com/influxdata/influxdb/v2/tsdb/engine/tsm1"
	"verifh/vh"
)

// B is a byte string rendered in JSON as a Go-quoted ASCII string (unambiguous for \x00, \xff).
type B []byte

func (b B) MarshalJSON() ([]byte, error) {
	return json.Marshal(strconv.QuoteToASCII(string(b)))
}
func (b *B) UnmarshalJSON(d []byte) error {
	var s string
	if err := json.Unmarshal(d, &s); err != nil {
		return err
	}
	u, err := strconv.Unquote(s)
	if err != nil {
		return err
	}
	*b = B(u)
	return nil
}

type jopnd struct {
	Kind string `json:"kind"` // ref | lit | re
	S    B      `json:"s"`    // tag key / literal / regex pattern
}
type jnode struct {
	Op string `json:"op"` // eq neq starts lt le gt ge re nre other | and or
	L  *jopnd `json:"l,omitempty"`
	R  *jopnd `json:"r,omitempty"`
	A  *jnode `json:"a,omitempty"`
	B  *jnode `json:"b,omitempty"`
}
type jseries struct {
	Name   B      `json:"name"`
	Tags   [][2]B `json:"tags"` // as given to MakeKey (first one is \x00 = name)
	Suffix *B     `json:"suffix,omitempty"`
	// observations
	Key       B     `json:"impl_key"`
	Out       bool  `json:"impl_matches"`
	OutClone  bool  `json:"impl_matches_clone"`
	OutRT     *bool `json:"impl_matches_roundtrip,omitempty"`
	OutParsed *bool `json:"impl_matches_parsed,omitempty"`
}
type jcase struct {
	Flavour string    `json:"flavour"`
	Pred    jnode     `json:"pred"`
	Text    string    `json:"text,omitempty"` // delete-API text of the predicate, when expressible
	Series  []jseries `json:"series"`
	Err     bool      `json:"impl_build_error"`
	ErrText string    `json:"impl_build_error_text,omitempty"`
	Note    string    `json:"note,omitempty"`
}

var cmpOps = map[string]datatypes.Node_Comparison{
	"eq": datatypes.Node_ComparisonEqual, "neq": datatypes.Node_ComparisonNotEqual,
	"starts": datatypes.Node_ComparisonStartsWith, "lt": datatypes.Node_ComparisonLess,
	"le": datatypes.Node_ComparisonLessEqual, "gt": datatypes.Node_ComparisonGreater,
	"ge": datatypes.Node_ComparisonGreaterEqual, "re": datatypes.Node_ComparisonRegex,
	"nre": datatypes.Node_ComparisonNotRegex, "other": datatypes.Node_Comparison(77),
}
var coqOps = map[string]string{"eq": "OpEq", "neq": "OpNeq", "starts": "OpStarts", "lt": "OpLt", "le": "OpLe",
	"gt": "OpGt", "ge": "OpGe", "re": "OpRe", "nre": "OpNRe", "other": "OpOther"}

var regexes = vh.NewInterner()

func pbOpnd(o *jopnd) *datatypes.Node {
	switch o.Kind {
	case "ref":
		return &datatypes.Node{NodeType: datatypes.Node_TypeTagRef, Value: &datatypes.Node_TagRefValue{TagRefValue: string(o.S)}}
	case "re":
		return &datatypes.Node{NodeType: datatypes.Node_TypeLiteral, Value: &datatypes.Node_RegexValue{RegexValue: string(o.S)}}
	default:
		return &datatypes.Node{NodeType: datatypes.Node_TypeLiteral, Value: &datatypes.Node_StringValue{StringValue: string(o.S)}}
	}
}
func pbNode(n *jnode) *datatypes.Node {
	switch n.Op {
	case "and", "or":
		l := datatypes.Node_LogicalAnd
		if n.Op == "or" {
			l = datatypes.Node_LogicalOr
		}
		return &datatypes.Node{NodeType: datatypes.Node_TypeLogicalExpression, Value: &datatypes.Node_Logical_{Logical: l},
			Children: []*datatypes.Node{pbNode(n.A), pbNode(n.B)}}
	}
	return &datatypes.Node{NodeType: datatypes.Node_TypeComparisonExpression, Value: &datatypes.Node_Comparison_{Comparison: cmpOps[n.Op]},
		Children: []*datatypes.Node{pbOpnd(n.L), pbOpnd(n.R)}}
}

func coqNode(n *jnode) string {
	switch n.Op {
	case "and":
		return "(PAnd " + coqNode(n.A) + " " + coqNode(n.B) + ")"
	case "or":
		return "(POr " + coqNode(n.A) + " " + coqNode(n.B) + ")"
	}
	l := "(LLit " + vh.Bytes(n.L.S) + ")"
	if n.L.Kind == "ref" {
		l = "(LRef " + vh.Bytes(n.L.S) + ")"
	}
	var r string
	switch n.R.Kind {
	case "ref":
		r = "(RRef " + vh.Bytes(n.R.S) + ")"
	case "re":
		r = "(RReg " + vh.N(regexes.ID(string(n.R.S))) + ")"
	default:
		r = "(RLit " + vh.Bytes(n.R.S) + ")"
	}
	return "(PCmp " + coqOps[n.Op] + " " + l + " " + r + ")"
}

// ---- the delete-API text of a predicate (nil if not expressible) ----

var special = map[string]string{"\x00": "_measurement", "\xff": "_field"}

// quoteIdent renders s as a double-quoted influxql identifier; only \" \\ \n are escapes.
func quoteIdent(s string) (string, bool) {
	var b strings.Builder
	b.WriteByte('"')
	for i := 0; i < len(s); i++ {
		c := s[i]
		switch {
		case c == '"':
			b.WriteString(`\"`)
		case c == '\\':
			b.WriteString(`\\`)
		case c == '\n':
			b.WriteString(`\n`)
		case c < 0x20 || c >= 0x7f:
			return "", false
		default:
			b.WriteByte(c)
		}
	}
	b.WriteByte('"')
	return b.String(), true
}

func apiText(n *jnode, top bool) (string, bool) {
	switch n.Op {
	case "and":
		a, ok1 := apiText(n.A, false)
		b, ok2 := apiText(n.B, false)
		if !ok1 || !ok2 {
			return "", false
		}
		s := a + " AND " + b
		if !top {
			s = "(" + s + ")"
		}
		return s, true
	case "eq", "neq":
		if n.L.Kind != "ref" || n.R.Kind != "lit" {
			return "", false
		}
		k := string(n.L.S)
		if sp, ok := special[k]; ok {
			k = sp
		} else if k == "_measurement" || k == "_field" {
			return "", false // the text would be rewritten to the special key
		}
		ks, ok1 := quoteIdent(k)
		vs, ok2 := quoteIdent(string(n.R.S))
		if !ok1 || !ok2 {
			return "", false
		}
		op := " = "
		if n.Op == "neq" {
			op = " != "
		}
		return ks + op + vs, true
	}
	return "", false
}

// ---- running one case ----

func collect(n *jnode, lits map[string]bool, res map[string]bool) {
	if n.Op == "and" || n.Op == "or" {
		collect(n.A, lits, res)
		collect(n.B, lits, res)
		return
	}
	if n.L.Kind == "lit" {
		lits[string(n.L.S)] = true
	}
	if n.R.Kind == "re" {
		res[string(n.R.S)] = true
	}
}

func run(w *vh.W, c *jcase) {
	idx := w.Len()
	sig := sigOf(c)
	var p, pc, prt, pp tsm1.Predicate
	pan := vh.Guard(func() {
		var err error
		p, err = tsm1.NewProtobufPredicate(&datatypes.Predicate{Root: pbNode(&c.Pred)})
		c.Err = err != nil
		if err != nil {
			c.ErrText = err.Error()
			return
		}
		pc = p.Clone().(tsm1.Predicate)
		if buf, err := p.Marshal(); err == nil {
			prt, err = tsm1.UnmarshalPredicate(buf)
			if err != nil {
				w.Fail(idx, "UnmarshalPredicate(Marshal()) failed: "+err.Error(), "")
				prt = nil
			}
		}
		if txt, ok := apiText(&c.Pred, true); ok {
			c.Text = txt
			node, err := predicate.Parse(txt)
			if err != nil {
				w.Fail(idx, fmt.Sprintf("predicate.Parse rejected %q: %v", txt, err), "")
			} else if ip, err := predicate.New(node); err != nil {
				w.Fail(idx, fmt.Sprintf("predicate.New rejected %q: %v", txt, err), "")
			} else {
				pp = ip.(tsm1.Predicate)
			}
		}
	})
	if pan != "" {
		w.Fail(idx, "panic while building the predicate: "+pan, "")
	}
	lits, res := map[string]bool{}, map[string]bool{}
	collect(&c.Pred, lits, res)
	vals := map[string]bool{}
	for l := range lits {
		vals[l] = true
	}
	sterms := []string{}
	anyTrue, anyFalse := false, false
	for i := range c.Series {
		s := &c.Series[i]
		tags := make(models.Tags, len(s.Tags))
		tterms := make([]string, len(s.Tags))
		for j, kv := range s.Tags {
			tags[j] = models.Tag{Key: []byte(kv[0]), Value: []byte(kv[1])}
			tterms[j] = vh.Pair(vh.Bytes(kv[0]), vh.Bytes(kv[1]))
			vals[string(kv[1])] = true
		}
		key := models.MakeKey([]byte(s.Name), tags)
		s.Key = B(append([]byte{}, key...))
		suffix := "None"
		if s.Suffix != nil {
			key = append(append(key, "#!~#"...), (*s.Suffix)...)
			suffix = vh.Some(vh.Bytes(*s.Suffix))
		}
		rt, parsed := "None", "None"
		if p != nil {
			pan := vh.Guard(func() {
				s.Out = p.Matches(key)
				s.OutClone = pc.Matches(key)
				if prt != nil {
					b := prt.Matches(key)
					s.OutRT = &b
					rt = vh.Some(vh.Bool(b))
				}
				if pp != nil {
					b := pp.Matches(key)
					s.OutParsed = &b
					parsed = vh.Some(vh.Bool(b))
				}
			})
			if pan != "" {
				w.Fail(idx, fmt.Sprintf("Matches panicked on key %q: %s", key, pan), "")
			}
		}
		if s.Out {
			anyTrue = true
		} else {
			anyFalse = true
		}
		sterms = append(sterms, fmt.Sprintf("{| s_name := %s; s_tags := %s; s_suffix := %s; s_key := %s; s_out := %s; s_out_clone := %s; s_out_rt := %s; s_out_parsed := %s |}",
			vh.Bytes(s.Name), vh.List(tterms), suffix, vh.Bytes(s.Key), vh.Bool(s.Out), vh.Bool(s.OutClone), rt, parsed))
	}
	// regex oracle table: Go's answers on every value the model can look up
	rtab := []string{}
	for _, pat := range vh.SortedKeys(res) {
		re, err := regexp.Compile(pat)
		if err != nil {
			continue
		}
		for _, v := range vh.SortedKeys(vals) {
			rtab = append(rtab, fmt.Sprintf("(%s, %s, %s)", vh.N(regexes.ID(pat)), vh.Bytes([]byte(v)), vh.Bool(re.Match([]byte(v)))))
		}
	}
	t := fmt.Sprintf("{| c_pred := %s; c_err := %s; c_rtab := %s; c_series := %s |}",
		coqNode(&c.Pred), vh.Bool(c.Err), vh.List(rtab), vh.List(sterms))
	w.Add(t, c, anyTrue && anyFalse, sig)
	w.Count("flavour", c.Flavour)
	w.Count("build_error", fmt.Sprint(c.Err))
	w.Count("api_text", fmt.Sprint(c.Text != ""))
	w.Count("outcomes", fmt.Sprintf("someTrue=%v someFalse=%v", anyTrue, anyFalse))
	w.Count("depth", fmt.Sprint(depth(&c.Pred)))
}

func depth(n *jnode) int {
	if n.Op == "and" || n.Op == "or" {
		a, b := depth(n.A), depth(n.B)
		if b > a {
			a = b
		}
		return a + 1
	}
	return 0
}

// ---- known-finding shapes, decided from the inputs only ----

const (
	sigBsl = "series-component-ending-in-backslash"
	sigSep = "tag-contains-field-separator"
)

func endsBsl(s []byte) bool { return len(s) > 0 && s[len(s)-1] == '\\' }

func sigOf(c *jcase) string {
	// ('=' in a measurement name is no longer a finding shape: Matches skips the measurement
	// segment; flavour eqname keeps generating it, any deviation is a VIOLATION again)
	bsl, sep := false, false
	for _, s := range c.Series {
		n := string(s.Name)
		if endsBsl(s.Name) || strings.Contains(n, "\\,") || strings.Contains(n, "\\ ") {
			bsl = true
		}
		if strings.Contains(n, "#!~#") {
			sep = true
		}
		for _, kv := range s.Tags {
			if len(kv[1]) == 0 {
				continue
			}
			if endsBsl(kv[0]) || endsBsl(kv[1]) {
				bsl = true
			}
			if strings.Contains(string(kv[0]), "#!~#") || strings.Contains(string(kv[1]), "#!~#") {
				sep = true
			}
		}
	}
	switch {
	case bsl:
		return sigBsl
	case sep:
		return sigSep
	}
	return ""
}

// ---- generators ----

func mkSeries(name string, suffix string, kv ...string) jseries {
	s := jseries{Name: B(name)}
	type t struct{ k, v string }
	var ts []t
	for i := 0; i+1 < len(kv); i += 2 {
		ts = append(ts, t{kv[i], kv[i+1]})
	}
	sort.SliceStable(ts, func(i, j int) bool { return ts[i].k < ts[j].k })
	s.Tags = append(s.Tags, [2]B{B("\x00"), B(name)})
	for _, x := range ts {
		s.Tags = append(s.Tags, [2]B{B(x.k), B(x.v)})
	}
	if suffix != "" {
		b := B(suffix)
		s.Suffix = &b
	}
	return s
}

func cmp(op, key, val string) *jnode {
	return &jnode{Op: op, L: &jopnd{Kind: "ref", S: B(key)}, R: &jopnd{Kind: "lit", S: B(val)}}
}
func and(a, b *jnode) *jnode { return &jnode{Op: "and", A: a, B: b} }
func or(a, b *jnode) *jnode  { return &jnode{Op: "or", A: a, B: b} }

func fixed() []jcase {
	M := "\x00"
	return []jcase{
		// the code comment's example: (tag1 = val1 AND tag2 = val2) OR tag3 = val3
		{Flavour: "clean", Pred: *or(and(cmp("eq", "tag1", "val1"), cmp("eq", "tag2", "val2")), cmp("eq", "tag3", "val3")),
			Series: []jseries{mkSeries("m", "", "tag1", "val1", "tag2", "not-val2", "tag3", "val3"), mkSeries("m", "", "tag1", "val1", "tag2", "val2"),
				mkSeries("m", "", "tag1", "val1"), mkSeries("m", "", "tag3", "val3"), mkSeries("m", "")}},
		// != on an absent tag: no match (the "absent = empty string" reading would match)
		{Flavour: "clean", Note: "tag != x on a series lacking tag", Pred: *cmp("neq", "t0", "x"),
			Series: []jseries{mkSeries("m", "", "t1", "a"), mkSeries("m", "", "t0", "a"), mkSeries("m", "", "t0", "x")}},
		{Flavour: "clean", Note: "tag = \"\" on a series lacking tag", Pred: *cmp("eq", "t0", ""),
			Series: []jseries{mkSeries("m", "", "t1", "a"), mkSeries("m", "", "t0", "a")}},
		// escape-heavy names / keys / values
		{Flavour: "clean", Pred: *and(cmp("eq", M, "a b"), cmp("neq", "k,1", "a=b")),
			Series: []jseries{mkSeries("a b", "", "k,1", "a,b"), mkSeries("a b", "", "k,1", "a=b"), mkSeries("a,b", "", "k,1", "a,b"), mkSeries("a b", "f", "k 1", "x")}},
		{Flavour: "clean", Pred: *or(cmp("eq", M, "m,n"), cmp("eq", "k=1", "a\\b")),
			Series: []jseries{mkSeries("m,n", ""), mkSeries("m", "", "k=1", "a\\b"), mkSeries("m", "", "k=1", "a\\ b"), mkSeries("m n", "", "k=1", "a\\b", "z", "\\,")}},
		// tag key equal to the measurement name (first segment of the key is Set with nil)
		{Flavour: "clean", Pred: *or(cmp("eq", "m", "x"), cmp("neq", "m", "x")),
			Series: []jseries{mkSeries("m", "", "m", "x"), mkSeries("m", "", "m", "y"), mkSeries("m", "", "t0", "y"), mkSeries("m n", "", "m", "x")}},
		// AND returns needMore as soon as its left side needs more
		{Flavour: "clean", Pred: *or(and(cmp("eq", "t1", "a"), cmp("eq", "t0", "b")), cmp("neq", "t0", "a")),
			Series: []jseries{mkSeries("m", "", "t0", "a"), mkSeries("m", "", "t0", "b"), mkSeries("m", "", "t0", "b", "t1", "a"), mkSeries("m", "", "t1", "a")}},
		// former finding (repaired): '=' in the measurement name; the first key segment `a=b` used to be popped as tag a = b
		{Flavour: "eqname", Note: "measurement a=b, predicate a = \"b\"", Pred: *cmp("eq", "a", "b"),
			Series: []jseries{mkSeries("a=b", "", "t0", "1"), mkSeries("a=b", "", "a", "c"), mkSeries("m", "", "a", "b")}},
		{Flavour: "eqname", Pred: *cmp("neq", "a", "c"),
			Series: []jseries{mkSeries("a=b", "", "t0", "1"), mkSeries("a=c", "", "a", "b"), mkSeries("a=c", "", "a", "c", "x y", "1")}},
		// FINDING (consequence of C11's): component ending in a backslash
		{Flavour: "bsl", Pred: *cmp("eq", "u", "1"),
			Series: []jseries{mkSeries("m", "", "t", "a\\", "u", "1"), mkSeries("m\\", "", "u", "1"), mkSeries("m", "", "t\\", "a", "u", "1")}},
		{Flavour: "bsl", Pred: *cmp("eq", "t", "a\\"),
			Series: []jseries{mkSeries("m", "", "t", "a\\", "u", "1"), mkSeries("m", "", "t", "a\\")}},
		// FINDING: "#!~#" inside a tag value cuts the key
		{Flavour: "sep", Pred: *cmp("eq", "u", "1"),
			Series: []jseries{mkSeries("m", "", "t", "x#!~#y", "u", "1"), mkSeries("m", "", "t", "x#!~y", "u", "1")}},
		// rejected by buildPredicateNode
		{Flavour: "clean", Pred: jnode{Op: "eq", L: &jopnd{Kind: "ref", S: B("t0")}, R: &jopnd{Kind: "re", S: B("a")}}, Series: []jseries{mkSeries("m", "", "t0", "a")}},
		{Flavour: "clean", Pred: jnode{Op: "re", L: &jopnd{Kind: "ref", S: B("t0")}, R: &jopnd{Kind: "lit", S: B("a")}}, Series: []jseries{mkSeries("m", "", "t0", "a")}},
	}
}

var (
	tagKeys   = []string{"t0", "t1", "t0", "t1", "k 1", "k,2", "k=3", "m", "a"}
	cleanVals = []string{"a", "a b", "a,b", "a=b", "b", "a\\b", "\\,", "m", "m n"}
	allVals   = []string{"a", "a b", "a,b", "a=b", "a\\", "", "b", "a\\b"}
	cleanName = []string{"m", "m n", "m,n", "a", "m", "a b", "\\m"}
	eqNames   = []string{"m=n", "a=b", "a=a b", "t0=a", "t1=b", "k 1=a", "=a", "a=", "t0=a=b"}
	bslNames  = []string{"m\\", "m\\,n", "m\\ n", "a\\"}
	rePats    = []string{"^a$", "a|b", ".*", "^$", "b?", "a b", "a.b", "^m"}
	plainOps  = []string{"eq", "neq", "eq", "neq", "eq", "neq", "starts", "lt", "le", "gt", "ge", "other"}
)

func main() {
	w := vh.New("C16", "From Verif Require Import Base.Prelude Model.C16.", "case", "check")
	w.Rule = "one case = one predicate (depth<=3 tree of comparisons joined by AND/OR; leaves: tag ref (t0,t1,escape-heavy keys, \\x00=_measurement, \\xff=_field, a key equal to a measurement name) =,!= (mostly), starts/lt/le/gt/ge, regex =~ !~ (Go regexp answers shipped as oracle table), occasionally literal-vs-tag or tag-vs-tag, occasionally an invalid regex/op combination) x 1-6 series (measurement from an escape-heavy set, 0-3 sorted tags over the same keys with values from {a, 'a b', 'a,b', 'a=b', 'a\\b', ...}, optional \\xff field tag, optional #!~#field suffix). Flavours: clean (well-formed series), eqname ('=' in the measurement name: repaired finding, judged like any other series), bsl (a component ends in a backslash: known finding), sep ('#!~#' in a tag: known finding). Hand-picked cases first. Non-trivial: the predicate matches some series of the case and not another. Distinct: distinct Gallina terms."
	var rc jcase
	if w.ReplayCase(&rc) {
		for i := range rc.Series {
			rc.Series[i].OutRT, rc.Series[i].OutParsed = nil, nil
		}
		run(w, &rc)
		w.Finish()
		return
	}
	for _, c := range fixed() {
		c := c
		if w.Len() < w.N {
			run(w, &c)
		}
	}
	r := w.Rng
	pick := func(xs []string) string { return xs[r.IntN(len(xs))] }
	for w.Len() < w.N {
		c := jcase{Flavour: "clean"}
		switch x := r.IntN(20); {
		case x < 3:
			c.Flavour = "eqname"
		case x < 5:
			c.Flavour = "bsl"
		case x == 5:
			c.Flavour = "sep"
		}
		api := r.IntN(3) == 0 // stay inside the delete-API grammar
		useRe := c.Flavour == "clean" && !api && r.IntN(4) == 0
		// series first, so that predicates can be biased towards their names/values
		ns := 1 + r.IntN(6)
		names := cleanName
		vals := cleanVals
		switch c.Flavour {
		case "eqname":
			names = append(append([]string{}, eqNames...), "m")
		case "bsl":
			names = append(append([]string{}, bslNames...), "m", "m n")
			vals = allVals
		}
		var usedVals, usedNames []string
		for i := 0; i < ns; i++ {
			name := pick(names)
			var kv []string
			seen := map[string]bool{}
			for j, nt := 0, r.IntN(4); j < nt; j++ {
				k := pick(tagKeys)
				if c.Flavour == "bsl" && r.IntN(6) == 0 {
					k += "\\"
				}
				if seen[k] {
					continue
				}
				seen[k] = true
				v := pick(vals)
				if c.Flavour == "clean" && r.IntN(25) == 0 {
					v = "" // dropped by MakeKey
				}
				if c.Flavour == "sep" && r.IntN(2) == 0 {
					v = pick([]string{"x#!~#y", "#!~#", "a#!~#"})
				}
				kv = append(kv, k, v)
				usedVals = append(usedVals, v)
			}
			if r.IntN(8) == 0 {
				kv = append(kv, "\xff", pick([]string{"f", "f g", "a"}))
			}
			suffix := ""
			if r.IntN(6) == 0 {
				suffix = pick([]string{"f", "f g", "a=b"})
			}
			usedNames = append(usedNames, name)
			c.Series = append(c.Series, mkSeries(name, suffix, kv...))
		}
		var gen func(d int) *jnode
		gen = func(d int) *jnode {
			if d > 0 && r.IntN(3) != 0 {
				op := "and"
				if !api && r.IntN(2) == 0 {
					op = "or"
				}
				return &jnode{Op: op, A: gen(d - 1), B: gen(d - 1)}
			}
			// leaf
			key := pick(tagKeys)
			switch x := r.IntN(12); {
			case x < 3:
				key = "\x00"
			case x == 3 && !api:
				key = "\xff"
			case x == 4:
				// a key made from a measurement name (up to its first '='), to hit the finding shape
				n := pick(usedNames)
				if i := strings.IndexByte(n, '='); i >= 0 {
					n = n[:i]
				}
				key = n
			}
			val := pick(cleanVals)
			switch x := r.IntN(6); {
			case x < 2 && len(usedVals) > 0:
				val = pick(usedVals)
			case x == 2:
				val = pick(usedNames)
				if i := strings.IndexByte(val, '='); i >= 0 && r.IntN(2) == 0 {
					val = val[i+1:]
				}
			case x == 3 && r.IntN(4) == 0:
				val = ""
			}
			op := pick(plainOps[:6])
			if !api && r.IntN(5) == 0 {
				op = pick(plainOps)
			}
			n := &jnode{Op: op, L: &jopnd{Kind: "ref", S: B(key)}, R: &jopnd{Kind: "lit", S: B(val)}}
			if api {
				return n
			}
			switch x := r.IntN(40); {
			case x == 0: // tag vs tag
				n.R = &jopnd{Kind: "ref", S: B(pick(tagKeys))}
			case x == 1: // literal vs tag
				n.L = &jopnd{Kind: "lit", S: B(val)}
				n.R = &jopnd{Kind: "ref", S: B(key)}
			case x == 2 && useRe: // invalid: regex with a non-regex operator or vice versa
				if r.IntN(2) == 0 {
					n.R = &jopnd{Kind: "re", S: B(pick(rePats))}
				} else {
					n.Op = "re"
				}
			}
			if useRe && n.L.Kind == "ref" && r.IntN(2) == 0 {
				n.Op = pick([]string{"re", "nre"})
				n.R = &jopnd{Kind: "re", S: B(pick(rePats))}
			}
			return n
		}
		c.Pred = *gen(r.IntN(4))
		run(w, &c)
	}
	w.Extra["regex_ids"] = regexes.Table()
	w.Finish()
}
