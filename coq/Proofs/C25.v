From Verif Require Import Base.Prelude Model.C25.

(** * association-list algebra *)
Lemma lookup_ins {A} k v (l : list (N * A)) k' :
  lookup k' (ins k v l) = if N.eqb k' k then Some v else lookup k' l.
Proof.
  induction l as [|[k0 v0] r IH]; cbn.
  - destruct (N.eqb k' k); reflexivity.
  - destruct (N.eqb_spec k k0) as [E|NE].
    + subst. cbn. destruct (N.eqb k' k0); reflexivity.
    + destruct (N.ltb k k0); cbn.
      * destruct (N.eqb k' k); reflexivity.
      * rewrite IH. destruct (N.eqb_spec k' k0) as [E2|NE2].
        -- subst. destruct (N.eqb_spec k0 k); [congruence|reflexivity].
        -- reflexivity.
Qed.

Lemma lookup_remove {A} k (l : list (N * A)) k' :
  lookup k' (remove k l) = if N.eqb k' k then None else lookup k' l.
Proof.
  induction l as [|[k0 v0] r IH]; cbn.
  - destruct (N.eqb k' k); reflexivity.
  - destruct (N.eqb_spec k k0) as [E|NE].
    + subst. rewrite IH. destruct (N.eqb k' k0); reflexivity.
    + cbn. rewrite IH. destruct (N.eqb_spec k' k0) as [E2|NE2].
      * subst. destruct (N.eqb_spec k0 k); [congruence|reflexivity].
      * reflexivity.
Qed.

Lemma lookup_upd {A} k v (l : list (N * A)) k' :
  lookup k' (upd k v l) =
  if N.eqb k' k then match lookup k l with Some _ => Some v | None => None end else lookup k' l.
Proof.
  induction l as [|[k0 v0] r IH]; cbn.
  - destruct (N.eqb k' k); reflexivity.
  - destruct (N.eqb_spec k k0) as [E|NE].
    + subst. cbn. destruct (N.eqb k' k0); reflexivity.
    + cbn. rewrite IH. destruct (N.eqb_spec k' k0) as [E2|NE2].
      * subst. destruct (N.eqb_spec k0 k); [congruence|reflexivity].
      * reflexivity.
Qed.

Lemma keys_upd {A} k v (l : list (N * A)) : map fst (upd k v l) = map fst l.
Proof.
  induction l as [|[k0 v0] r IH]; cbn; [reflexivity|].
  destruct (N.eqb_spec k k0); cbn; [subst; reflexivity | f_equal; exact IH].
Qed.

Lemma lookup_None_keys {A} k (l : list (N * A)) :
  lookup k l = None <-> ~ In k (map fst l).
Proof.
  induction l as [|[k0 v0] r IH]; cbn.
  - tauto.
  - destruct (N.eqb_spec k k0) as [E|NE].
    + subst. split; [discriminate|]. intro H. exfalso. apply H. auto.
    + rewrite IH. split; intro H.
      * intros [E|I]; [congruence|auto].
      * intro I. apply H. auto.
Qed.

Lemma lookup_app_fresh {A} k (l : list (N * A)) id v :
  lookup k (l ++ [(id, v)]) =
  match lookup k l with Some x => Some x | None => if N.eqb k id then Some v else None end.
Proof.
  induction l as [|[k0 v0] r IH]; cbn.
  - reflexivity.
  - destruct (N.eqb k k0); [reflexivity|exact IH].
Qed.

Lemma keys_remove_in {A} k (l : list (N * A)) x :
  In x (map fst (remove k l)) -> In x (map fst l).
Proof.
  induction l as [|[k0 v0] r IH]; cbn; [tauto|].
  destruct (N.eqb k k0); cbn; intuition.
Qed.

Lemma keys_remove_nodup {A} k (l : list (N * A)) :
  NoDup (map fst l) -> NoDup (map fst (remove k l)).
Proof.
  induction l as [|[k0 v0] r IH]; cbn; intro H; [constructor|].
  inversion H as [|? ? Hn Hd]; subst.
  destruct (N.eqb k k0); cbn; [auto|].
  constructor; [|auto]. intro I. apply Hn. eapply keys_remove_in; eauto.
Qed.

(** * invariants *)
Definition keys_ok (st : state) : Prop :=
  NoDup (map fst (st_tasks st)) /\
  (forall k, In k (map fst (st_tasks st)) -> (k < st_next st)%N) /\
  (forall k t, lookup k (st_tasks st) = Some t -> valid (t_sched t) = true).

(** [strict = false]: every active task is scheduled with its latest schedule and
    every scheduled id exists.  [strict = true]: moreover no inactive task is
    scheduled, i.e. [scheduled_iff_active]. *)
Definition inv (strict : bool) (st : state) : Prop :=
  forall id,
    match lookup id (st_tasks st) with
    | Some t => if t_active t then lookup id (st_sch st) = Some (t_sched t)
                else (strict = true -> lookup id (st_sch st) = None)
    | None => lookup id (st_sch st) = None
    end.

Definition op_ok (strict fx : bool) (o : op) : Prop :=
  match o with
  | Create status s => valid s = true /\ (strict = true -> fx = false -> status <> Some false)
  | Update _ _ spec _ => spec <> Some 0%N
  | _ => True
  end.

Lemma inv_strict_iff st : inv true st <-> scheduled_iff_active st.
Proof.
  unfold inv, scheduled_iff_active, expected. split; intros H id; specialize (H id);
    destruct (lookup id (st_tasks st)) as [t|]; auto; destruct (t_active t); auto.
Qed.

Lemma task_created_active fx id t sch : t_active t = true ->
  task_created fx id t sch = if valid (t_sched t) then Some (ins id (t_sched t) sch) else None.
Proof.
  intro Ea. unfold task_created. rewrite Ea. cbn. rewrite andb_false_r.
  destruct (valid (t_sched t)); reflexivity.
Qed.

Lemma notify_lookup fx ts : NoDup (map fst ts) ->
  forall sch id,
  lookup id (notify_existing fx ts sch) =
  match lookup id ts with
  | Some t => if t_active t && valid (t_sched t) then Some (t_sched t) else lookup id sch
  | None => lookup id sch
  end.
Proof.
  induction ts as [|[id0 t0] r IH]; cbn; intros Hnd sch id; [reflexivity|].
  inversion Hnd as [|? ? Hn Hd]; subst.
  rewrite (IH Hd).
  assert (Hsch' : forall i, i <> id0 ->
     lookup i (if t_active t0 then match task_created fx id0 t0 sch with Some s => s | None => sch end else sch)
     = lookup i sch).
  { intros i Hi. destruct (t_active t0) eqn:Ea; [|reflexivity].
    rewrite (task_created_active _ _ _ _ Ea).
    destruct (valid (t_sched t0)); [|reflexivity].
    rewrite lookup_ins. destruct (N.eqb_spec i id0); [congruence|reflexivity]. }
  destruct (N.eqb_spec id id0) as [E|NE].
  - subst id0. apply lookup_None_keys in Hn. rewrite Hn.
    destruct (t_active t0) eqn:Ea; cbn; [|reflexivity].
    rewrite (task_created_active _ _ _ _ Ea).
    destruct (valid (t_sched t0)); cbn; [|reflexivity].
    rewrite lookup_ins, N.eqb_refl. reflexivity.
  - destruct (lookup id r) as [t|]; [|apply Hsch'; exact NE].
    destruct (t_active t && valid (t_sched t)); [reflexivity|apply Hsch'; exact NE].
Qed.

Lemma nodup_snoc {A} (l : list A) x : NoDup l -> ~ In x l -> NoDup (l ++ [x]).
Proof.
  induction l as [|a l IH]; cbn; intros Hd Hn.
  - constructor; [tauto|constructor].
  - inversion Hd as [|? ? Ha Hl]; subst. constructor.
    + rewrite in_app_iff. cbn. intros [I|[E|[]]]; [tauto|]. subst. tauto.
    + apply IH; tauto.
Qed.

Lemma step_keys_ok strict fx st o :
  op_ok strict fx o -> keys_ok st -> keys_ok (step fx st o).
Proof.
  intros Hop (Hnd & Hlt & Hv). destruct o as [status s|id status spec off|id|]; cbn.
  - destruct Hop as [Hval _].
    assert (Hfresh : ~ In (st_next st) (map fst (st_tasks st))).
    { intro I. apply Hlt in I. lia. }
    unfold task_created. cbn [t_sched]. rewrite Hval. cbn [negb].
    destruct (fx && negb _); cbn.
    all: (split; [|split]); cbn.
    all: try (rewrite map_app; cbn; apply nodup_snoc; assumption).
    all: try (intros k I; rewrite map_app, in_app_iff in I; cbn in I;
              destruct I as [I|[E|[]]]; [apply Hlt in I; lia | subst; lia]).
    all: intros k t; rewrite lookup_app_fresh;
         destruct (lookup k (st_tasks st)) as [t'|] eqn:El;
         [intro E; inversion E; subst; eapply Hv; eauto |
          destruct (N.eqb k (st_next st)); intro E; inversion E; subst; exact Hval].
  - destruct (lookup id (st_tasks st)) as [from|] eqn:Ef; [|repeat split; assumption].
    split; [|split]; cbn.
    + rewrite keys_upd. exact Hnd.
    + rewrite keys_upd. exact Hlt.
    + intros k t. rewrite lookup_upd, Ef.
      destruct (N.eqb_spec k id) as [E|NE]; [|apply Hv].
      intro E2; inversion E2; subst. unfold apply_update, valid; cbn.
      pose proof (Hv _ _ Ef) as Hvf. unfold valid in Hvf.
      destruct spec as [x|]; [|exact Hvf].
      cbn in Hop. destruct (N.eqb_spec x 0); [subst; congruence|reflexivity].
  - split; [|split]; cbn.
    + apply keys_remove_nodup. exact Hnd.
    + intros k I. apply Hlt. eapply keys_remove_in; eauto.
    + intros k t. rewrite lookup_remove. destruct (N.eqb k id); [discriminate|apply Hv].
  - repeat split; assumption.
Qed.

Lemma task_updated_other id from to sch id' : id' <> id ->
  lookup id' (task_updated id from to sch) = lookup id' sch.
Proof.
  intro NE. unfold task_updated. destruct (negb (valid (t_sched to))); [reflexivity|].
  destruct (_ && _); [reflexivity|]. destruct (_ && _).
  - rewrite lookup_remove. destruct (N.eqb_spec id' id); [congruence|reflexivity].
  - rewrite lookup_ins. destruct (N.eqb_spec id' id); [congruence|reflexivity].
Qed.

Lemma task_updated_self id from to sch : valid (t_sched to) = true ->
  lookup id (task_updated id from to sch) =
  if t_active to then Some (t_sched to)
  else if t_active from then None else lookup id sch.
Proof.
  intro Hv. unfold task_updated. rewrite Hv. cbn [negb].
  destruct (t_active to), (t_active from); cbn.
  - rewrite lookup_ins, N.eqb_refl. reflexivity.
  - rewrite lookup_ins, N.eqb_refl. reflexivity.
  - rewrite lookup_remove, N.eqb_refl. reflexivity.
  - reflexivity.
Qed.

Lemma step_inv strict fx st o :
  op_ok strict fx o -> keys_ok st -> inv strict st -> inv strict (step fx st o).
Proof.
  intros Hop (Hnd & Hlt & Hv) Hinv id'. pose proof (Hinv id') as Hi.
  destruct o as [status s|id status spec off|id|]; cbn.
  - destruct Hop as [Hval Hst].
    assert (Hfresh : lookup (st_next st) (st_tasks st) = None).
    { apply lookup_None_keys. intro I. apply Hlt in I. lia. }
    unfold task_created. cbn [t_sched t_active]. rewrite Hval. cbn [negb].
    destruct (fx && negb (match status with Some b => b | None => true end)) eqn:Efx; cbn;
      rewrite lookup_app_fresh.
    + (* fixed code, inactive create: not scheduled *)
      destruct (lookup id' (st_tasks st)) as [t|] eqn:El; [exact Hi|].
      destruct (N.eqb_spec id' (st_next st)) as [E|NE]; [|exact Hi].
      apply andb_true_iff in Efx as [_ Ena]. apply negb_true_iff in Ena. cbn. rewrite Ena.
      intros _. exact Hi.
    + rewrite lookup_ins.
      destruct (lookup id' (st_tasks st)) as [t|] eqn:El.
      * destruct (N.eqb_spec id' (st_next st)) as [E|NE]; [subst; congruence|exact Hi].
      * destruct (N.eqb_spec id' (st_next st)) as [E|NE]; [|exact Hi].
        cbn. destruct (match status with Some b => b | None => true end) eqn:Eact; [reflexivity|].
        intro Hs. exfalso. destruct fx; [cbn in Efx; discriminate|].
        destruct status as [[|]|]; try discriminate. apply (Hst Hs eq_refl). reflexivity.
  - destruct (lookup id (st_tasks st)) as [from|] eqn:Ef; [|exact Hi].
    cbn. rewrite lookup_upd, Ef.
    assert (Hvto : valid (t_sched (apply_update from status spec off)) = true).
    { unfold apply_update, valid; cbn. pose proof (Hv _ _ Ef) as Hvf. unfold valid in Hvf.
      destruct spec as [x|]; [|exact Hvf].
      cbn in Hop. destruct (N.eqb_spec x 0); [subst; congruence|reflexivity]. }
    pose proof (Hinv id) as Hid. rewrite Ef in Hid.
    set (to := apply_update from status spec off) in *.
    destruct (N.eqb_spec id' id) as [E|NE].
    + subst id'. rewrite (task_updated_self _ _ _ _ Hvto).
      destruct (t_active to); [reflexivity|].
      destruct (t_active from); [intros _; reflexivity|exact Hid].
    + rewrite (task_updated_other _ _ _ _ _ NE). exact Hi.
  - rewrite !lookup_remove. destruct (N.eqb id' id); [reflexivity|exact Hi].
  - rewrite (notify_lookup fx _ Hnd). cbn.
    destruct (lookup id' (st_tasks st)) as [t|] eqn:El; [|reflexivity].
    rewrite (Hv _ _ El), andb_true_r. destruct (t_active t); [reflexivity|]. intros _; reflexivity.
Qed.

Definition ops_ok strict fx (ops : list op) : Prop := Forall (op_ok strict fx) ops.

Lemma init_ok strict : keys_ok init /\ inv strict init.
Proof.
  split; [repeat split; cbn; try constructor; try tauto; discriminate|].
  intro id. reflexivity.
Qed.

Lemma fold_inv strict fx ops : ops_ok strict fx ops ->
  forall st, keys_ok st -> inv strict st ->
  keys_ok (fold_left (step fx) ops st) /\ inv strict (fold_left (step fx) ops st).
Proof.
  induction 1 as [|o ops Ho _ IH]; cbn; intros st Hk Hi; [auto|].
  apply IH; [eapply step_keys_ok; eauto | eapply step_inv; eauto].
Qed.

Lemma run_inv strict fx ops : ops_ok strict fx ops -> inv strict (run fx ops).
Proof.
  intro H. destruct (init_ok strict) as [K I]. apply (fold_inv strict fx ops H init K I).
Qed.

(** the oracle of the judge is the property *)
Lemma trace_length fx ops : forall st, length (trace fx st ops) = length ops.
Proof. induction ops as [|o r IH]; cbn; intros; [reflexivity|f_equal; apply IH]. Qed.
