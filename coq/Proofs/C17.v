(** C17 — the engine-level delete on the shard model removes exactly the selected keys'
    points inside the range (tombstone coalescing included), and the listing facts. *)
From Verif Require Import Base.Prelude Model.C16 Model.C17.
Local Open Scope Z_scope.

(** * the cache *)
Lemma log_get_app l1 l2 k t :
  log_get (l1 ++ l2) k t = match log_get l2 k t with Some v => Some v | None => log_get l1 k t end.
Proof.
  induction l1 as [|[[k' t'] v] r IH]; simpl.
  - destruct (log_get l2 k t); reflexivity.
  - rewrite IH. destruct (log_get l2 k t); reflexivity.
Qed.

Lemma cache_delete_get sel lo hi c k t :
  log_get (cache_delete sel lo hi c) k t =
  if in_sel sel k && in_range lo hi t then None else log_get c k t.
Proof.
  induction c as [|[[k' t'] v] r IH]; simpl.
  - destruct (in_sel sel k && in_range lo hi t); reflexivity.
  - destruct (in_sel sel k' && in_range lo hi t') eqn:H; simpl.
    + rewrite IH. destruct (in_sel sel k && in_range lo hi t) eqn:H2; [reflexivity|].
      destruct (log_get r k t); [reflexivity|].
      destruct (N.eqb k k' && Z.eqb t t')%bool eqn:E; [|reflexivity].
      apply andb_true_iff in E as [E1 E2]. apply N.eqb_eq in E1. apply Z.eqb_eq in E2. subst.
      congruence.
    + rewrite IH. destruct (in_sel sel k && in_range lo hi t) eqn:H2.
      * destruct (N.eqb k k' && Z.eqb t t')%bool eqn:E; [|reflexivity].
        apply andb_true_iff in E as [E1 E2]. apply N.eqb_eq in E1. apply Z.eqb_eq in E2. subst.
        congruence.
      * reflexivity.
Qed.

(** * one key of one file *)
Fixpoint sorted_fst (l : list trange) : Prop :=
  match l with
  | [] => True
  | x :: r => (forall y, In y r -> fst x <= fst y) /\ sorted_fst r
  end.
Record wf_kf (kf : kfile) : Prop := {
  wk_bounds : forall t v, In (t, v) (kf_pts kf) -> MinInt64 <= t <= MaxInt64;
  wk_tombs : sorted_fst (kf_tombs kf)
}.

Lemma min_lt_max : MinInt64 < MaxInt64.
Proof. reflexivity. Qed.

Lemma assoc_in t l v : assoc t l = Some v -> In (t, v) l.
Proof.
  induction l as [|[t' v'] r IH]; simpl; [discriminate|].
  destruct (t =? t') eqn:E.
  - apply Z.eqb_eq in E. intros [= <-]. subst. auto.
  - auto.
Qed.

Lemma fold_min_le l : forall m, fold_left (fun m p => Z.min m (fst p)) l m <= m /\
  forall (t v : Z), In (t, v) l -> fold_left (fun m p => Z.min m (fst p)) l m <= t.
Proof.
  induction l as [|[t' v'] r IH]; intros m; simpl.
  - split; [lia | intros ? ? []].
  - destruct (IH (Z.min m t')) as [H1 H2]. split; [lia|].
    intros t v [[= <- <-]|H]; [lia | eauto].
Qed.
Lemma fold_max_ge l : forall m, m <= fold_left (fun m p => Z.max m (fst p)) l m /\
  forall (t v : Z), In (t, v) l -> t <= fold_left (fun m p => Z.max m (fst p)) l m.
Proof.
  induction l as [|[t' v'] r IH]; intros m; simpl.
  - split; [lia | intros ? ? []].
  - destruct (IH (Z.max m t')) as [H1 H2]. split; [lia|].
    intros t v [[= <- <-]|H]; [lia | eauto].
Qed.

Lemma kf_point_range kf t v : assoc t (kf_pts kf) = Some v -> kf_min kf <= t <= kf_max kf.
Proof.
  intros H. apply assoc_in in H. unfold kf_min, kf_max. split.
  - eapply (proj2 (fold_min_le _ _)); eauto.
  - eapply (proj2 (fold_max_ge _ _)); eauto.
Qed.

Lemma tombed_ins r ts t : tombed (ins_tr r ts) t = in_range (fst r) (snd r) t || tombed ts t.
Proof.
  induction ts as [|x l IH]; simpl; [reflexivity|].
  destruct (tr_le r x); simpl; [reflexivity|].
  rewrite IH. destruct (in_range (fst r) (snd r) t), (in_range (fst x) (snd x) t); reflexivity.
Qed.

Lemma In_ins_tr r y : forall ts, In y (ins_tr r ts) -> y = r \/ In y ts.
Proof.
  induction ts as [|x l IH]; simpl.
  - intros [H|[]]; auto.
  - destruct (tr_le r x); simpl.
    + intros [H|H]; auto.
    + intros [H|H]; auto. destruct (IH H); auto.
Qed.

Lemma ins_tr_sorted r : forall ts, sorted_fst ts -> sorted_fst (ins_tr r ts).
Proof.
  induction ts as [|x l IH]; simpl; intros H.
  - split; auto. intros y [].
  - destruct H as [Hx Hl]. destruct (tr_le r x) eqn:E; simpl.
    + assert (fst r <= fst x).
      { unfold tr_le in E. destruct (fst r =? fst x) eqn:E2.
        - apply Z.eqb_eq in E2. lia.
        - apply Z.ltb_lt in E. lia. }
      split; [|split; auto]. intros y [<-|Hy]; [lia|]. specialize (Hx y Hy). lia.
    + assert (fst x <= fst r).
      { unfold tr_le in E. destruct (fst r =? fst x) eqn:E2.
        - apply Z.eqb_eq in E2. lia.
        - apply Z.ltb_ge in E. lia. }
      split; [|apply IH; auto]. intros y Hy. apply In_ins_tr in Hy as [->|Hy]; auto.
Qed.

(** the coalescing window really is covered by the ranges it went through *)
Lemma coalesce_covers : forall l prev mn mx a b (done : list trange),
  coalesce prev mn mx l = (a, b) ->
  In prev done -> mn <= fst prev -> snd prev <= mx ->
  (forall y, In y l -> fst prev <= fst y) -> sorted_fst l ->
  (forall t, mn <= t <= mx -> tombed done t = true) ->
  forall t, a <= t <= b -> tombed (done ++ l) t = true.
Proof.
  induction l as [|ts r IH]; intros prev mn mx a b done H Hin H1 H2 Hp Sl Hc t Ht; simpl in H.
  - inversion H; subst. rewrite app_nil_r. auto.
  - destruct (negb (snd prev =? dec64 (fst ts)) && negb (tr_overlaps prev (fst ts) (snd ts))) eqn:G.
    + inversion H; subst. pose proof min_lt_max. lia.
    + destruct Sl as [Sts Sr].
      assert (Hpt : fst prev <= fst ts) by (apply Hp; simpl; auto).
      replace (done ++ ts :: r) with ((done ++ [ts]) ++ r) by (rewrite <- app_assoc; reflexivity).
      apply (IH ts (Z.min mn (fst ts)) (Z.max mx (snd ts)) a b (done ++ [ts])); auto.
      * apply in_or_app. right. simpl. auto.
      * lia.
      * lia.
      * intros t' Ht'. unfold tombed. rewrite existsb_app. simpl. rewrite orb_false_r.
        destruct (in_range (fst ts) (snd ts) t') eqn:E; [apply orb_true_r|].
        rewrite orb_false_r. apply Hc.
        unfold in_range in E.
        apply andb_false_iff in G.
        assert (Adj : snd prev = dec64 (fst ts) \/ (fst prev <= snd ts /\ fst ts <= snd prev)).
        { destruct G as [G|G]; apply negb_false_iff in G.
          - left. apply Z.eqb_eq. exact G.
          - right. unfold tr_overlaps in G. apply andb_true_iff in G as [G1 G2].
            apply Z.leb_le in G1, G2. auto. }
        apply andb_false_iff in E. pose proof min_lt_max as MM.
        unfold dec64 in Adj. destruct (fst ts =? MinInt64) eqn:EM.
        -- apply Z.eqb_eq in EM.
           destruct E as [E|E]; apply Z.leb_gt in E; lia.
        -- destruct E as [E|E]; apply Z.leb_gt in E; lia.
Qed.

Lemma coalesce_all_covers ts a b : coalesce_all ts = (a, b) -> sorted_fst ts ->
  forall t, a <= t <= b -> tombed ts t = true.
Proof.
  intros H S t Ht. destruct ts as [|r0 r]; simpl in H.
  - inversion H; subst. pose proof min_lt_max. lia.
  - destruct S as [S0 Sr]. change (tombed ([r0] ++ r) t = true).
    apply (coalesce_covers r r0 (fst r0) (snd r0) a b [r0]); auto.
    + simpl; auto.
    + lia.
    + lia.
    + intros t' Ht'. simpl. unfold in_range.
      assert (fst r0 <=? t' = true) as -> by (apply Z.leb_le; lia).
      assert (t' <=? snd r0 = true) as -> by (apply Z.leb_le; lia). reflexivity.
Qed.

Lemma kf_delete_key lo hi kf : kf_key (kf_delete lo hi kf) = kf_key kf.
Proof.
  unfold kf_delete. destruct (negb (kf_alive kf)); auto.
  destruct ((lo =? MinInt64) && (hi =? MaxInt64)); auto.
  destruct ((kf_max kf <? lo) || (hi <? kf_min kf)); auto.
  destruct ((lo <=? kf_min kf) && (kf_max kf <=? hi)); auto.
  destruct (coalesce_all (ins_tr (lo, hi) (kf_tombs kf))) as [a b].
  destruct ((a <=? kf_min kf) && (kf_max kf <=? b)); auto.
Qed.

Lemma kf_delete_wf lo hi kf : wf_kf kf -> wf_kf (kf_delete lo hi kf).
Proof.
  intros [B T]. unfold kf_delete. destruct (negb (kf_alive kf)); [constructor; auto|].
  destruct ((lo =? MinInt64) && (hi =? MaxInt64)); [constructor; auto|].
  destruct ((kf_max kf <? lo) || (hi <? kf_min kf)); [constructor; auto|].
  destruct ((lo <=? kf_min kf) && (kf_max kf <=? hi)); [constructor; auto|].
  destruct (coalesce_all (ins_tr (lo, hi) (kf_tombs kf))) as [a b].
  destruct ((a <=? kf_min kf) && (kf_max kf <=? b)); constructor; simpl; auto;
    apply ins_tr_sorted; auto.
Qed.

Lemma kf_delete_get lo hi kf t : wf_kf kf ->
  kf_get (kf_delete lo hi kf) t = if in_range lo hi t then None else kf_get kf t.
Proof.
  intros [B T]. unfold kf_delete.
  destruct (kf_alive kf) eqn:A; simpl.
  2:{ unfold kf_get. rewrite A. simpl. destruct (in_range lo hi t); reflexivity. }
  assert (Hpt : forall v, assoc t (kf_pts kf) = Some v ->
                (MinInt64 <= t <= MaxInt64) /\ (kf_min kf <= t <= kf_max kf)).
  { intros v Hv. split; [eapply B; eapply assoc_in; eauto | eapply kf_point_range; eauto]. }
  assert (Hnone : forall P : Prop, (forall v, assoc t (kf_pts kf) = Some v -> P -> False) -> P ->
                  kf_get kf t = None).
  { intros P HP p. unfold kf_get. destruct (kf_alive kf && negb (tombed (kf_tombs kf) t)); auto.
    destruct (assoc t (kf_pts kf)) eqn:E; auto. exfalso. eapply HP; eauto. }
  destruct ((lo =? MinInt64) && (hi =? MaxInt64)) eqn:Full.
  { apply andb_true_iff in Full as [F1 F2]. apply Z.eqb_eq in F1, F2. subst.
    unfold kf_get at 1. simpl. destruct (in_range MinInt64 MaxInt64 t) eqn:R; [reflexivity|].
    symmetry. apply (Hnone True); auto. intros v Hv _. destruct (Hpt v Hv) as [H1 _].
    unfold in_range in R. apply andb_false_iff in R as [R|R]; apply Z.leb_gt in R; lia. }
  destruct ((kf_max kf <? lo) || (hi <? kf_min kf)) eqn:Out.
  { destruct (in_range lo hi t) eqn:R; [|reflexivity].
    apply (Hnone True); auto. intros v Hv _. destruct (Hpt v Hv) as [_ H2].
    unfold in_range in R. apply andb_true_iff in R as [R1 R2]. apply Z.leb_le in R1, R2.
    apply orb_true_iff in Out as [O|O]; apply Z.ltb_lt in O; lia. }
  destruct ((lo <=? kf_min kf) && (kf_max kf <=? hi)) eqn:Cov.
  { unfold kf_get at 1. simpl. destruct (in_range lo hi t) eqn:R; [reflexivity|].
    symmetry. apply (Hnone True); auto. intros v Hv _. destruct (Hpt v Hv) as [_ H2].
    apply andb_true_iff in Cov as [C1 C2]. apply Z.leb_le in C1, C2.
    unfold in_range in R. apply andb_false_iff in R as [R|R]; apply Z.leb_gt in R; lia. }
  destruct (coalesce_all (ins_tr (lo, hi) (kf_tombs kf))) as [a b] eqn:Co.
  destruct ((a <=? kf_min kf) && (kf_max kf <=? b)) eqn:Ch.
  - unfold kf_get at 1. simpl. destruct (in_range lo hi t) eqn:R; [reflexivity|].
    symmetry. unfold kf_get. rewrite A. simpl.
    destruct (tombed (kf_tombs kf) t) eqn:Tb; [reflexivity|]. simpl.
    destruct (assoc t (kf_pts kf)) as [v|] eqn:E; [|reflexivity]. exfalso.
    destruct (Hpt v eq_refl) as [_ H2].
    apply andb_true_iff in Ch as [C1 C2]. apply Z.leb_le in C1, C2.
    assert (Hc : tombed (ins_tr (lo, hi) (kf_tombs kf)) t = true).
    { apply (coalesce_all_covers _ a b Co); [|lia]. apply ins_tr_sorted; auto. }
    rewrite tombed_ins in Hc. simpl in Hc. rewrite R, Tb in Hc. discriminate.
  - unfold kf_get. simpl. rewrite A. simpl. rewrite tombed_ins. simpl.
    destruct (in_range lo hi t); reflexivity.
Qed.

(** * one file *)
Record wf_file (f : file) : Prop := {
  wf_kfs : forall kf, In kf (f_keys f) -> wf_kf kf;
  wf_span : forall kf t v, In kf (f_keys f) -> In (t, v) (kf_pts kf) -> f_min f <= t <= f_max f
}.

Lemma find_map_kf (g : kfile -> kfile) (Hg : forall kf, kf_key (g kf) = kf_key kf) k : forall l,
  find (fun kf => N.eqb (kf_key kf) k) (map g l) =
  option_map g (find (fun kf => N.eqb (kf_key kf) k) l).
Proof.
  induction l as [|x r IH]; simpl; [reflexivity|].
  rewrite Hg. destruct (N.eqb (kf_key x) k); simpl; auto.
Qed.

Lemma file_delete_get sel lo hi f k t : wf_file f ->
  file_get (file_delete sel lo hi f) k t =
  if in_sel sel k && in_range lo hi t then None else file_get f k t.
Proof.
  intros [W S]. unfold file_delete.
  destruct (file_overlaps f lo hi) eqn:O.
  - unfold file_get, find_kf. simpl.
    rewrite (find_map_kf (fun kf => if in_sel sel (kf_key kf) then kf_delete lo hi kf else kf)).
    2:{ intros kf. destruct (in_sel sel (kf_key kf)); auto using kf_delete_key. }
    destruct (find (fun kf => N.eqb (kf_key kf) k) (f_keys f)) as [kf|] eqn:Fd; simpl.
    + apply find_some in Fd as [Hin Ek]. apply N.eqb_eq in Ek. subst k.
      destruct (in_sel sel (kf_key kf)); simpl; [|reflexivity].
      apply kf_delete_get; auto.
    + destruct (in_sel sel k && in_range lo hi t); reflexivity.
  - destruct (in_sel sel k && in_range lo hi t) eqn:H; [|reflexivity].
    apply andb_true_iff in H as [_ R]. unfold in_range in R. apply andb_true_iff in R as [R1 R2].
    apply Z.leb_le in R1, R2.
    unfold file_get, find_kf. destruct (find (fun kf => N.eqb (kf_key kf) k) (f_keys f)) as [kf|] eqn:Fd; auto.
    apply find_some in Fd as [Hin _]. unfold kf_get.
    destruct (kf_alive kf && negb (tombed (kf_tombs kf) t)); auto.
    destruct (assoc t (kf_pts kf)) as [v|] eqn:E; auto. exfalso.
    apply assoc_in in E. destruct (S _ _ _ Hin E) as [S1 S2].
    unfold file_overlaps in O. apply andb_false_iff in O as [O|O]; apply Z.leb_gt in O; lia.
Qed.

Lemma file_delete_wf sel lo hi f : wf_file f -> wf_file (file_delete sel lo hi f).
Proof.
  intros [W S]. unfold file_delete. destruct (file_overlaps f lo hi); [|constructor; auto].
  constructor; simpl.
  - intros kf' Hin. apply in_map_iff in Hin as (kf & <- & Hin).
    destruct (in_sel sel (kf_key kf)); auto. apply kf_delete_wf; auto.
  - intros kf' t v Hin Hp. apply in_map_iff in Hin as (kf & <- & Hin).
    apply (S kf t v Hin). destruct (in_sel sel (kf_key kf)); auto.
    revert Hp. unfold kf_delete. destruct (negb (kf_alive kf)); auto.
    destruct ((lo =? MinInt64) && (hi =? MaxInt64)); auto.
    destruct ((kf_max kf <? lo) || (hi <? kf_min kf)); auto.
    destruct ((lo <=? kf_min kf) && (kf_max kf <=? hi)); auto.
    destruct (coalesce_all (ins_tr (lo, hi) (kf_tombs kf))) as [a b].
    destruct ((a <=? kf_min kf) && (kf_max kf <=? b)); auto.
Qed.

Lemma files_delete_get sel lo hi fs k t : (forall f, In f fs -> wf_file f) ->
  files_get (map (file_delete sel lo hi) fs) k t =
  if in_sel sel k && in_range lo hi t then None else files_get fs k t.
Proof.
  induction fs as [|f r IH]; intros W; simpl.
  - destruct (in_sel sel k && in_range lo hi t); reflexivity.
  - rewrite IH by (intros; apply W; simpl; auto).
    rewrite file_delete_get by (auto; apply W; simpl; auto).
    destruct (in_sel sel k && in_range lo hi t); [reflexivity|].
    destruct (files_get r k t); reflexivity.
Qed.

(** * the shard *)
Definition wf_shard (sh : shard) : Prop := forall f, In f (sh_files sh) -> wf_file f.

Theorem eng_delete_exact defs sh sel lo hi k t : wf_shard sh ->
  get (eng_delete defs sh sel lo hi) k t =
  if in_sel sel k && in_range lo hi t then None else get sh k t.
Proof.
  intros W. unfold eng_delete. destruct sel as [|s0 sr] eqn:Es.
  - reflexivity.
  - rewrite <- Es. clear Es.
    destruct (negb (existsb (fun f => file_overlaps f lo hi) (sh_files sh)) &&
              match sh_cache sh with [] => true | _ => false end) eqn:Early.
    + (* nothing can be in range *)
      destruct (in_sel sel k && in_range lo hi t) eqn:H; [|reflexivity].
      apply andb_true_iff in Early as [E1 E2]. apply negb_true_iff in E1.
      unfold get. destruct (sh_cache sh); [|discriminate]. simpl.
      assert (forall fs, (forall f, In f fs -> wf_file f) ->
                existsb (fun f => file_overlaps f lo hi) fs = false -> files_get fs k t = None) as G.
      { induction fs as [|f r IH]; intros Wf Ex; simpl; auto.
        simpl in Ex. apply orb_false_iff in Ex as [Ef Er].
        rewrite IH; auto; [|intros; apply Wf; simpl; auto].
        pose proof (file_delete_get sel lo hi f k t (Wf f (or_introl eq_refl))) as D.
        unfold file_delete in D. rewrite Ef, H in D. exact D. }
      apply G; auto.
    + unfold get. simpl. rewrite cache_delete_get, files_delete_get; auto.
      destruct (in_sel sel k && in_range lo hi t); [reflexivity|]. reflexivity.
Qed.

Lemma eng_delete_wf defs sh sel lo hi : wf_shard sh -> wf_shard (eng_delete defs sh sel lo hi).
Proof.
  intros W. unfold eng_delete. destruct sel; auto.
  destruct (negb (existsb (fun f => file_overlaps f lo hi) (sh_files sh)) &&
            match sh_cache sh with [] => true | _ => false end); auto.
  intros f Hin. simpl in Hin. apply in_map_iff in Hin as (f0 & <- & Hin).
  apply file_delete_wf; auto.
Qed.

(** * listing *)

(** a series whose data is still readable stays listed: the reconciliation never drops a
    series that still has a live point (in the cache or in a file index) *)
Lemma get_some_on_disk_or_cache sh k t v : get sh k t = Some v ->
  in_cache (sh_cache sh) (series_of k) = true \/ on_disk (sh_files sh) (series_of k) = true.
Proof.
  unfold get. destruct (log_get (sh_cache sh) k t) as [x|] eqn:L.
  - intros _. left. clear - L. induction (sh_cache sh) as [|[[k' t'] v'] r IH]; simpl in *; [discriminate|].
    destruct (log_get r k t) eqn:E.
    + rewrite IH; auto. apply orb_true_r.
    + destruct (N.eqb k k' && Z.eqb t t')%bool eqn:E2; [|discriminate].
      apply andb_true_iff in E2 as [E2 _]. apply N.eqb_eq in E2. subst. rewrite N.eqb_refl. reflexivity.
  - intros H. right. clear L. induction (sh_files sh) as [|f r IH]; simpl in *; [discriminate|].
    destruct (files_get r k t) eqn:E.
    + rewrite IH; auto. apply orb_true_r.
    + unfold file_get, find_kf in H.
      destruct (find (fun kf => N.eqb (kf_key kf) k) (f_keys f)) as [kf|] eqn:Fd; [|discriminate].
      apply find_some in Fd as [Hin Ek]. apply N.eqb_eq in Ek.
      unfold kf_get in H. destruct (kf_alive kf) eqn:A; [|discriminate].
      apply orb_true_iff. left. apply existsb_exists. exists kf. split; auto.
      rewrite A, Ek, N.eqb_refl. reflexivity.
Qed.

Theorem data_stays_listed defs sh sel lo hi k t v :
  In (series_of k) (sh_listed sh) ->
  get (eng_delete defs sh sel lo hi) k t = Some v ->
  In (series_of k) (sh_listed (eng_delete defs sh sel lo hi)).
Proof.
  intros Hl Hg. unfold eng_delete in *. destruct sel as [|s0 sr] eqn:Es; auto.
  rewrite <- Es in *. clear Es.
  destruct (negb (existsb (fun f => file_overlaps f lo hi) (sh_files sh)) &&
            match sh_cache sh with [] => true | _ => false end); auto.
  simpl. apply filter_In. split; auto.
  apply get_some_on_disk_or_cache in Hg. simpl in Hg.
  apply negb_true_iff. destruct Hg as [H|H]; rewrite H; simpl;
    rewrite ?andb_false_r; reflexivity.
Qed.

(** a selected series leaves the listing exactly when none of its keys is in a file index or
    in the cache any more — and no same-batch cache key extending its key still has values *)
Theorem reconcile_spec defs sh sel lo hi s :
  sel <> [] ->
  (negb (existsb (fun f => file_overlaps f lo hi) (sh_files sh)) &&
   match sh_cache sh with [] => true | _ => false end) = false ->
  let sh' := eng_delete defs sh sel lo hi in
  (In s (sh_listed sh') <->
   In s (sh_listed sh) /\
   (memN s sel = false \/ on_disk (sh_files sh') s = true \/ in_cache (sh_cache sh') s = true \/
    has_cache_values defs sel (sh_cache sh) (sh_cache sh') s = true)).
Proof.
  intros Hs He. unfold eng_delete. destruct sel as [|s0 sr] eqn:Es; [congruence|].
  rewrite <- Es in *. clear Es. rewrite He. simpl. rewrite filter_In.
  split; intros [H1 H2]; split; auto.
  - apply negb_true_iff in H2. apply andb_false_iff in H2 as [H2|H2].
    + apply andb_false_iff in H2 as [H2|H2].
      * apply andb_false_iff in H2 as [H2|H2]; [left; exact H2|].
        right. left. apply negb_false_iff. exact H2.
      * right. right. left. apply negb_false_iff. exact H2.
    + right. right. right. apply negb_false_iff. exact H2.
  - apply negb_true_iff. destruct H2 as [H|[H|[H|H]]]; rewrite H; simpl; rewrite ?andb_false_r; auto.
Qed.

(** cache-only shards (no TSM files) with no key-prefix confusion: exact reconciliation *)
Lemma in_cache_get c s : in_cache c s = true -> exists k t v, series_of k = s /\ log_get c k t = Some v.
Proof.
  induction c as [|[[k' t'] v'] r IH]; simpl; [discriminate|].
  intros H. apply orb_true_iff in H as [H|H].
  - apply N.eqb_eq in H. exists k', t'. simpl.
    destruct (log_get r k' t') eqn:E; [eauto|]. rewrite N.eqb_refl, Z.eqb_refl. simpl. eauto.
  - destruct (IH H) as (k & t & v & E1 & E2). exists k, t. rewrite E2. eauto.
Qed.

(** * the per-shard loop of Store.DeleteSeriesWithPredicate (no measurement shortcut) *)
Lemma bcompare_eq : forall a b, bcompare a b = Eq -> a = b.
Proof.
  induction a as [|x a IH]; intros [|y b]; simpl; try discriminate; auto.
  destruct (N.compare x y) eqn:C; try discriminate.
  apply N.compare_eq in C. subst. intros H. f_equal. auto.
Qed.

Lemma In_ins_bytes x y : forall l, In y (ins_bytes x l) <-> y = x \/ In y l.
Proof.
  induction l as [|z r IH]; simpl.
  - split; [intros [H|[]]; auto | intros [H|[]]; auto].
  - destruct (bcompare x z) eqn:C; simpl.
    + apply bcompare_eq in C. subst. split; [intros [H|H]; auto | intros [H|[H|H]]; subst; auto].
    + split; [intros [H|[H|H]]; auto | intros [H|[H|H]]; auto].
    + rewrite IH. split; [intros [H|[H|H]]; auto | intros [H|[H|H]]; auto].
Qed.

Lemma In_sort_names y : forall l, In y (sort_names l) <-> In y l.
Proof.
  induction l as [|x r IH].
  - simpl. split; auto.
  - change (sort_names (x :: r)) with (ins_bytes x (sort_names r)).
    rewrite In_ins_bytes, IH. simpl. split; [intros [H|H]; auto | intros [H|H]; auto].
Qed.

Lemma in_sel_iff sel k : in_sel sel k = true <-> In (series_of k) sel.
Proof.
  unfold in_sel. rewrite existsb_exists. split.
  - intros (x & Hx & E). apply N.eqb_eq in E. subst. exact Hx.
  - intros H. exists (series_of k). split; auto. apply N.eqb_refl.
Qed.

Lemma eng_delete_listed_other defs sh sel lo hi s :
  ~ In s sel -> (In s (sh_listed (eng_delete defs sh sel lo hi)) <-> In s (sh_listed sh)).
Proof.
  intros Hn. unfold eng_delete. destruct sel as [|s0 sr] eqn:Es; [tauto|]. rewrite <- Es in *. clear Es.
  destruct (negb (existsb (fun f => file_overlaps f lo hi) (sh_files sh)) &&
            match sh_cache sh with [] => true | _ => false end); [tauto|].
  simpl. rewrite filter_In. split; [tauto|]. intros H. split; auto.
  assert (memN s sel = false) as ->; [|reflexivity].
  unfold memN. destruct (existsb (N.eqb s) sel) eqn:E; auto.
  apply existsb_exists in E as (x & Hx & E). apply N.eqb_eq in E. subst. contradiction.
Qed.

Definition hit (defs : list sdef) (p : pred) (lo hi : Z) (sh : shard) (ms : list bytes) (k : key) (t : Z) : Prop :=
  In (series_of k) (sh_listed sh) /\ In (sname defs (series_of k)) ms /\
  matches no_regex p (engine_key (sname defs (series_of k)) (stags defs (series_of k))) = true /\
  in_range lo hi t = true.

Lemma classic_hit defs p lo hi sh ms k t :
  hit defs p lo hi sh ms k t \/ ~ hit defs p lo hi sh ms k t.
Proof.
  unfold hit.
  destruct (in_dec N.eq_dec (series_of k) (sh_listed sh)); [|right; tauto].
  destruct (in_dec (list_eq_dec N.eq_dec) (sname defs (series_of k)) ms); [|right; tauto].
  destruct (matches no_regex p (engine_key (sname defs (series_of k)) (stags defs (series_of k))));
    [|right; intros (_ & _ & H & _); discriminate].
  destruct (in_range lo hi t); [left; auto | right; intros (_ & _ & _ & H); discriminate].
Qed.

Lemma selected_iff defs p sh mm s :
  In s (selected defs p sh mm) <->
  In s (sh_listed sh) /\ sname defs s = mm /\
  matches no_regex p (engine_key (sname defs s) (stags defs s)) = true.
Proof.
  unfold selected. rewrite filter_In, andb_true_iff. split.
  - intros (H1 & H2 & H3). split; auto. split; auto.
    apply (list_eqb_spec N.eqb) in H2; auto. intros; apply N.eqb_eq.
  - intros (H1 & H2 & H3). split; auto. split; auto.
    apply (list_eqb_spec N.eqb); auto. intros; apply N.eqb_eq.
Qed.

Theorem del_loop_exact defs p lo hi : forall ms sh k t,
  NoDup ms -> wf_shard sh ->
  (hit defs p lo hi sh ms k t -> get (del_loop defs p lo hi None ms sh) k t = None) /\
  (~ hit defs p lo hi sh ms k t -> get (del_loop defs p lo hi None ms sh) k t = get sh k t).
Proof.
  induction ms as [|mm r IH]; intros sh k t Hnd W.
  - simpl. split; [intros (_ & [] & _) | reflexivity].
  - simpl. apply NoDup_cons_iff in Hnd as [Hmm Hr].
    set (sel := selected defs p sh mm).
    set (sh' := eng_delete defs sh sel lo hi).
    assert (W' : wf_shard sh') by (apply eng_delete_wf; auto).
    destruct (IH sh' k t Hr W') as [I1 I2].
    assert (G : get sh' k t = if in_sel sel k && in_range lo hi t then None else get sh k t)
      by (apply eng_delete_exact; auto).
    assert (Hother : forall s, sname defs s <> mm ->
                     (In s (sh_listed sh') <-> In s (sh_listed sh))).
    { intros s Hs. apply eng_delete_listed_other. intros Hin.
      apply selected_iff in Hin as (_ & E & _). contradiction. }
    split.
    + intros (H1 & H2 & H3 & H4). destruct H2 as [H2|H2].
      * (* this measurement's turn *)
        assert (Hsel : in_sel sel k = true).
        { apply in_sel_iff. apply selected_iff. auto. }
        destruct (classic_hit defs p lo hi sh' r k t) as [Hh|Hh].
        -- auto.
        -- rewrite (I2 Hh), G, Hsel, H4. reflexivity.
      * apply I1. split; [|split; auto].
        apply Hother; auto. intros E. apply Hmm. rewrite <- E. exact H2.
    + intros Hn.
      assert (Hn' : ~ hit defs p lo hi sh' r k t).
      { intros (H1 & H2 & H3 & H4). apply Hn. split; [|split; [right; auto | auto]].
        apply Hother; auto. intros E. apply Hmm. rewrite <- E. exact H2. }
      rewrite (I2 Hn'), G.
      destruct (in_sel sel k && in_range lo hi t) eqn:E; [|reflexivity].
      exfalso. apply andb_true_iff in E as [E1 E2]. apply in_sel_iff in E1.
      apply selected_iff in E1 as (H1 & H2 & H3). apply Hn. split; auto. split; [left; auto | auto].
Qed.

(** * the measurement shortcut (taken for an equality [_measurement = n] only): when every
    listed series the predicate selects belongs to measurement [n], stopping after [n] (or
    skipping a shard that does not have [n]) loses nothing. *)
Lemma beqb_iff a b : bytes_eqb a b = true <-> a = b.
Proof. apply (list_eqb_spec N.eqb). intros; apply N.eqb_eq. Qed.

Theorem del_loop_shortcut_exact defs p lo hi n : forall ms sh k t,
  wf_shard sh ->
  (forall s, In s (sh_listed sh) ->
             matches no_regex p (engine_key (sname defs s) (stags defs s)) = true -> sname defs s = n) ->
  In n ms ->
  (hit defs p lo hi sh ms k t -> get (del_loop defs p lo hi (Some n) ms sh) k t = None) /\
  (~ hit defs p lo hi sh ms k t -> get (del_loop defs p lo hi (Some n) ms sh) k t = get sh k t).
Proof.
  induction ms as [|mm r IH]; intros sh k t W H Hn; [contradiction|].
  simpl. destruct (bytes_eqb mm n) eqn:E.
  - apply beqb_iff in E. subst mm.
    set (sel := selected defs p sh n).
    assert (G : get (eng_delete defs sh sel lo hi) k t =
                if in_sel sel k && in_range lo hi t then None else get sh k t)
      by (apply eng_delete_exact; auto).
    split.
    + intros (H1 & H2 & H3 & H4). rewrite G.
      assert (in_sel sel k = true) as ->.
      { apply in_sel_iff. apply selected_iff. split; auto. }
      rewrite H4. reflexivity.
    + intros Hh. rewrite G. destruct (in_sel sel k && in_range lo hi t) eqn:E; [|reflexivity].
      exfalso. apply andb_true_iff in E as [E1 E2]. apply in_sel_iff in E1.
      apply selected_iff in E1 as (H1 & H2 & H3). apply Hh. split; auto. split; [left; auto | auto].
  - assert (Hne : mm <> n) by (intros ->; rewrite (proj2 (beqb_iff n n) eq_refl) in E; discriminate).
    assert (Es : selected defs p sh mm = []).
    { destruct (selected defs p sh mm) as [|s l] eqn:S; auto. exfalso.
      assert (Hin : In s (selected defs p sh mm)) by (rewrite S; simpl; auto).
      apply selected_iff in Hin as (H1 & H2 & H3). apply Hne. rewrite <- H2. apply H; auto. }
    rewrite Es. change (eng_delete defs sh [] lo hi) with sh.
    assert (Hn' : In n r) by (destruct Hn as [Hn|Hn]; [contradiction | exact Hn]).
    destruct (IH sh k t W H Hn') as [I1 I2]. split.
    + intros (H1 & H2 & H3 & H4). apply I1. split; auto. split; auto.
      destruct H2 as [H2|H2]; auto. exfalso. apply Hne. rewrite H2. apply H; auto.
    + intros Hh. apply I2. intros (H1 & H2 & H3 & H4). apply Hh. split; auto. split; [right; auto | auto].
Qed.
