(** C14 — the file-set queries are invariant under compaction: replacing a contiguous run of
    files by IndexFiles.CompactTo of the run, or a log file by LogFile.CompactTo of it, changes
    no query answer (for ALL file contents, positions and run lengths). *)
From Verif Require Import Base.Prelude Model.C14 Proofs.C14_sets.
Local Open Scope N_scope.

Definition meas_live (fs : list file) m := live_flag m_del (first_some (fun f => fmeas f m) fs).
Definition key_live (fs : list file) m k := live_flag tk_del (first_some (fun f => fkey f m k) fs).
Definition val_live (fs : list file) m k v := live_flag tv_del (first_some (fun f => fval f m k v) fs).

Lemma fkey_some_fmeas f m k x : fkey f m k = Some x -> exists mm, fmeas f m = Some mm /\ aget k (m_keys mm) = Some x.
Proof. unfold fkey. destruct (fmeas f m) as [mm|]; [eauto | discriminate]. Qed.
Lemma fval_some_fkey f m k v x : fval f m k v = Some x -> exists tk, fkey f m k = Some tk /\ aget v (tk_vals tk) = Some x.
Proof. unfold fval. destruct (fkey f m k) as [tk|]; [eauto | discriminate]. Qed.

(** ** names *)
Lemma meas_names_in fs m : In m (meas_names fs) <-> exists f x, In f fs /\ fmeas f m = Some x.
Proof.
  unfold meas_names. rewrite str_set_in, in_flat_map. split.
  - intros [f [Hf H]]. apply aget_some_in in H as [x H]. eauto.
  - intros [f [x [Hf H]]]. exists f. split; [exact Hf|]. apply aget_some_in. eauto.
Qed.
Lemma key_names_in fs m k : In k (key_names fs m) <-> exists f x, In f fs /\ fkey f m k = Some x.
Proof.
  unfold key_names. rewrite str_set_in, in_flat_map. split.
  - intros [f [Hf H]]. destruct (fmeas f m) as [mm|] eqn:E; [|destruct H].
    apply aget_some_in in H as [x H]. exists f, x. split; [exact Hf|]. unfold fkey. rewrite E. exact H.
  - intros [f [x [Hf H]]]. exists f. split; [exact Hf|]. unfold fkey in H.
    destruct (fmeas f m) as [mm|]; [|discriminate]. apply aget_some_in. eauto.
Qed.
Lemma val_names_in fs m k v : In v (val_names fs m k) <-> exists f x, In f fs /\ fval f m k v = Some x.
Proof.
  unfold val_names. rewrite str_set_in, in_flat_map. split.
  - intros [f [Hf H]]. destruct (fkey f m k) as [tk|] eqn:E; [|destruct H].
    apply aget_some_in in H as [x H]. exists f, x. split; [exact Hf|]. unfold fval. rewrite E. exact H.
  - intros [f [x [Hf H]]]. exists f. split; [exact Hf|]. unfold fval in H.
    destruct (fkey f m k) as [tk|]; [|discriminate]. apply aget_some_in. eauto.
Qed.

Lemma live_flag_some {A} (del : A -> bool) o : live_flag del o = true -> exists x, o = Some x.
Proof. destruct o; [eauto | discriminate]. Qed.

Lemma q_meas_in fs m : In m (q_meas fs) <-> meas_live fs m = true.
Proof.
  unfold q_meas, meas_live. rewrite filter_In. split; [tauto|]. intro H. split; [|exact H].
  apply live_flag_some in H as [x H]. apply first_some_in in H as [f [Hf H]]. apply meas_names_in. eauto.
Qed.
Lemma q_keys_in fs m k : In k (q_keys fs m) <-> key_live fs m k = true.
Proof.
  unfold q_keys, key_live. rewrite filter_In. split; [tauto|]. intro H. split; [|exact H].
  apply live_flag_some in H as [x H]. apply first_some_in in H as [f [Hf H]]. apply key_names_in. eauto.
Qed.
Lemma q_vals_in fs m k v : In v (q_vals fs m k) <-> val_live fs m k v = true.
Proof.
  unfold q_vals, val_live. rewrite filter_In. split; [tauto|]. intro H. split; [|exact H].
  apply live_flag_some in H as [x H]. apply first_some_in in H as [f [Hf H]]. apply val_names_in. eauto.
Qed.

(** ** series sets *)
Definition mids_of (f : file) (m : str) (y : N) : Prop := exists mm, fmeas f m = Some mm /\ In y (m_ids mm).
Definition vids_of (f : file) (m k v : str) (y : N) : Prop := exists tv, fval f m k v = Some tv /\ In y (tv_ids tv).

Lemma q_mseries_in fs m y : In y (q_mseries fs m) <-> exists f, In f fs /\ mids_of f m y.
Proof.
  unfold q_mseries, mids_of. rewrite sunions_in. split.
  - intros [l [Hl Hy]]. apply in_map_iff in Hl as [f [E Hf]]. subst l.
    destruct (fmeas f m) as [mm|] eqn:E; [eauto | destruct Hy].
  - intros [f [Hf [mm [E Hy]]]]. exists (m_ids mm). split; [|exact Hy].
    apply in_map_iff. exists f. rewrite E. auto.
Qed.
Lemma key_ids_in tk y : In y (key_ids tk) <-> exists v tv, aget v (tk_vals tk) = Some tv /\ In y (tv_ids tv).
Proof.
  unfold key_ids. rewrite sunions_in. split.
  - intros [l [Hl Hy]]. apply in_map_iff in Hl as [v [E Hv]]. subst l.
    apply aget_some_in in Hv as [tv Hv]. rewrite Hv in Hy. cbn in Hy. eauto.
  - intros [v [tv [E Hy]]]. exists (tv_ids tv). split; [|exact Hy].
    apply in_map_iff. exists v. rewrite E. split; [reflexivity|]. apply aget_some_in. eauto.
Qed.
Lemma q_kseries_in fs m k y : In y (q_kseries fs m k) <-> exists f, In f fs /\ exists v, vids_of f m k v y.
Proof.
  unfold q_kseries, vids_of. rewrite sunions_in. split.
  - intros [l [Hl Hy]]. apply in_map_iff in Hl as [f [E Hf]]. subst l.
    destruct (fkey f m k) as [tk|] eqn:E; [|destruct Hy].
    apply key_ids_in in Hy as [v [tv [Hv Hy]]]. exists f. split; [exact Hf|]. exists v, tv. unfold fval. rewrite E. auto.
  - intros [f [Hf [v [tv [E Hy]]]]]. apply fval_some_fkey in E as [tk [Ek Ev]].
    exists (key_ids tk). split; [apply in_map_iff; exists f; rewrite Ek; auto|].
    apply key_ids_in. eauto.
Qed.

(** FileSet.TagValueSeriesIDIterator is between "every id of the value minus every tombstone"
    and "every id of the value" *)
Definition vstep (m k v : str) (acc : list N * list N) (f : file) : list N * list N :=
  (sunion (sdiff (fst acc) (snd acc)) (match fval f m k v with Some x => tv_ids x | None => [] end), f_ts f).

Lemma vfold_sub m k v y l : forall acc,
  In y (fst (fold_left (vstep m k v) l acc)) ->
  In y (fst acc) \/ exists f, In f l /\ vids_of f m k v y.
Proof.
  induction l as [|f l IH]; intros acc H; cbn [fold_left] in H; [auto|].
  apply IH in H as [H | [g [Hg H]]].
  - unfold vstep in H. cbn [fst] in H. apply sunion_in in H as [H | H].
    + apply sdiff_in in H. tauto.
    + right. destruct (fval f m k v) as [tv|] eqn:E; [|destruct H]. exists f. split; [cbn; auto|]. exists tv. auto.
  - right. exists g. cbn. tauto.
Qed.
Lemma vfold_sup m k v y l : (forall f, In f l -> ~ In y (f_ts f)) -> forall acc,
  ~ In y (snd acc) ->
  (In y (fst acc) \/ exists f, In f l /\ vids_of f m k v y) ->
  In y (fst (fold_left (vstep m k v) l acc)).
Proof.
  induction l as [|f l IH]; intros Hts acc Hacc H; cbn [fold_left].
  - destruct H as [H | [f [[] _]]]. exact H.
  - apply IH.
    + intros g Hg. apply Hts. cbn. auto.
    + unfold vstep. cbn [snd]. apply Hts. cbn. auto.
    + destruct H as [H | [g [[<- | Hg] [tv [E Hy]]]]].
      * left. unfold vstep. cbn [fst]. apply sunion_in. left. apply sdiff_in. auto.
      * left. unfold vstep. cbn [fst]. apply sunion_in. right. rewrite E. exact Hy.
      * right. exists g. split; [exact Hg|]. exists tv. auto.
Qed.
Lemma q_vseries_sub fs m k v y : In y (q_vseries fs m k v) -> exists f, In f fs /\ vids_of f m k v y.
Proof.
  unfold q_vseries. intro H. apply (vfold_sub m k v y) in H as [[] | [f [Hf H]]].
  exists f. rewrite in_rev. auto.
Qed.
Lemma q_vseries_sup fs m k v y :
  (forall f, In f fs -> ~ In y (f_ts f)) -> (exists f, In f fs /\ vids_of f m k v y) -> In y (q_vseries fs m k v).
Proof.
  intros Hts [f [Hf H]]. unfold q_vseries. apply (vfold_sup m k v y).
  - intros g Hg. apply Hts. rewrite in_rev. exact Hg.
  - cbn. tauto.
  - right. exists f. rewrite <- in_rev. auto.
Qed.

(** ** a file that can stand for a run of files *)
Record replaces (x : file) (run : list file) : Prop := {
  r_meas : forall m, option_map m_del (fmeas x m) = option_map m_del (first_some (fun f => fmeas f m) run);
  r_key : forall m k, option_map tk_del (fkey x m k) = option_map tk_del (first_some (fun f => fkey f m k) run);
  r_val : forall m k v, option_map tv_del (fval x m k v) = option_map tv_del (first_some (fun f => fval f m k v) run);
  r_mids : forall m y, mids_of x m y <-> exists f, In f run /\ mids_of f m y;
  r_vids : forall m k v y, vids_of x m k v y <-> exists f, In f run /\ vids_of f m k v y;
  r_ts : forall y, In y (f_ts x) -> exists f, In f run /\ In y (f_ts f)
}.

Lemma live_flag_splice {A B} (del : B -> bool) (g : A -> option B) pre x run post :
  option_map del (g x) = option_map del (first_some g run) ->
  live_flag del (first_some g (pre ++ x :: post)) = live_flag del (first_some g (pre ++ run ++ post)).
Proof.
  intro H. rewrite !first_some_app. destruct (first_some g pre); [reflexivity|].
  cbn [first_some]. destruct (g x) as [b|], (first_some g run) as [b'|]; cbn in H; try discriminate; [|reflexivity].
  inversion H as [E]. cbn. rewrite E. reflexivity.
Qed.

Lemma in_splice (P : file -> Prop) pre x post :
  (exists f, In f (pre ++ x :: post) /\ P f) <-> (exists f, In f pre /\ P f) \/ P x \/ exists f, In f post /\ P f.
Proof.
  split.
  - intros [f [Hf H]]. apply in_app_or in Hf as [Hf | [<- | Hf]]; eauto.
  - intros [[f [Hf H]] | [H | [f [Hf H]]]]; [exists f | exists x | exists f]; (split; [|exact H]);
      apply in_or_app; cbn; auto.
Qed.
Lemma in_splice_run (P : file -> Prop) pre run post :
  (exists f, In f (pre ++ run ++ post) /\ P f)
  <-> (exists f, In f pre /\ P f) \/ (exists f, In f run /\ P f) \/ exists f, In f post /\ P f.
Proof.
  split.
  - intros [f [Hf H]]. apply in_app_or in Hf as [Hf | Hf]; [eauto|]. apply in_app_or in Hf as [Hf | Hf]; eauto.
  - intros [[f [Hf H]] | [[f [Hf H]] | [f [Hf H]]]]; exists f; (split; [|exact H]);
      apply in_or_app; [auto | right; apply in_or_app; auto | right; apply in_or_app; auto].
Qed.

Section Splice.
  Variables (x : file) (run pre post : list file).
  Hypothesis R : replaces x run.

  Theorem splice_meas m : In m (q_meas (pre ++ x :: post)) <-> In m (q_meas (pre ++ run ++ post)).
  Proof. rewrite !q_meas_in. unfold meas_live. rewrite (live_flag_splice m_del _ pre x run post); [tauto | apply R]. Qed.
  Theorem splice_keys m k : In k (q_keys (pre ++ x :: post) m) <-> In k (q_keys (pre ++ run ++ post) m).
  Proof. rewrite !q_keys_in. unfold key_live. rewrite (live_flag_splice tk_del _ pre x run post); [tauto | apply R]. Qed.
  Theorem splice_vals m k v : In v (q_vals (pre ++ x :: post) m k) <-> In v (q_vals (pre ++ run ++ post) m k).
  Proof. rewrite !q_vals_in. unfold val_live. rewrite (live_flag_splice tv_del _ pre x run post); [tauto | apply R]. Qed.

  Theorem splice_mseries m y : In y (q_mseries (pre ++ x :: post) m) <-> In y (q_mseries (pre ++ run ++ post) m).
  Proof. rewrite !q_mseries_in, in_splice, in_splice_run, (r_mids x run R). tauto. Qed.

  Theorem splice_kseries m k y : In y (q_kseries (pre ++ x :: post) m k) <-> In y (q_kseries (pre ++ run ++ post) m k).
  Proof.
    rewrite !q_kseries_in, in_splice, in_splice_run.
    assert (E : (exists v, vids_of x m k v y) <-> exists f, In f run /\ exists v, vids_of f m k v y).
    { split.
      - intros [v H]. apply (r_vids x run R) in H as [f [Hf H]]. eauto.
      - intros [f [Hf [v H]]]. exists v. apply (r_vids x run R). eauto. }
    rewrite E. tauto.
  Qed.

  (** the tag-value series set as the query layer sees it: ids that are tombstoned in some
      file are deleted in the series file ([dead]) and filtered out *)
  Theorem splice_vseries (dead : N -> Prop) m k v y :
    (forall f z, In f (pre ++ run ++ post) -> In z (f_ts f) -> dead z) -> ~ dead y ->
    (In y (q_vseries (pre ++ x :: post) m k v) <-> In y (q_vseries (pre ++ run ++ post) m k v)).
  Proof.
    intros Hd Hy.
    assert (T1 : forall f, In f (pre ++ run ++ post) -> ~ In y (f_ts f)) by (intros f Hf Hin; exact (Hy (Hd f y Hf Hin))).
    assert (T2 : forall f, In f (pre ++ x :: post) -> ~ In y (f_ts f)).
    { intros f Hf Hin. apply in_app_or in Hf as [Hf | [<- | Hf]].
      - apply (T1 f); [apply in_or_app; auto | exact Hin].
      - apply (r_ts x run R) in Hin as [g [Hg Hin]]. apply (T1 g); [apply in_or_app; right; apply in_or_app; auto | exact Hin].
      - apply (T1 f); [apply in_or_app; right; apply in_or_app; auto | exact Hin]. }
    assert (E : (exists f, In f (pre ++ x :: post) /\ vids_of f m k v y)
                <-> exists f, In f (pre ++ run ++ post) /\ vids_of f m k v y).
    { rewrite in_splice, in_splice_run, (r_vids x run R). tauto. }
    split; intro H.
    - apply q_vseries_sup; [exact T1|]. apply E. apply q_vseries_sub. exact H.
    - apply q_vseries_sup; [exact T2|]. apply E. apply q_vseries_sub. exact H.
  Qed.
End Splice.
