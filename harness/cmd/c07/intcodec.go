package main

import (
	"fmt"
	"math"
	"math/rand/v2"

	"github.com/influxdata/influxdb/v2/tsdb/engine/tsm1"
	"verifh/vh"
)

// intCase is used for integer, unsigned and timestamp codecs: values are 64-bit patterns.
type intCase struct {
	Vals []uint64 `json:"vals"` // int64/uint64 bit patterns
	// implementation outputs
	SB   []byte `json:"impl_scalar_bytes,omitempty"`
	SBOK bool   `json:"impl_scalar_ok"`
	BB   []byte `json:"impl_batch_bytes,omitempty"`
	BBOK bool   `json:"impl_batch_ok"`
	// decoder X on encoder Y output: ss = scalar dec / scalar enc, bs = batch dec / scalar enc, ...
	DSS, DBS, DSB, DBB         []uint64               `json:"-"`
	DSSOK, DBSOK, DSBOK, DBBOK bool                   `json:"-"`
	Decoded                    map[string]interface{} `json:"impl_decoded,omitempty"`
}

func toI64(v []uint64) []int64 {
	o := make([]int64, len(v))
	for i, x := range v {
		o[i] = int64(x)
	}
	return o
}
func toU64(v []int64) []uint64 {
	o := make([]uint64, len(v))
	for i, x := range v {
		o[i] = uint64(x)
	}
	return o
}

func decSummary(c *intCase) {
	c.Decoded = map[string]interface{}{}
	put := func(k string, v []uint64, ok bool) {
		if !ok {
			c.Decoded[k] = "error"
		} else if fmt.Sprint(v) == fmt.Sprint(c.Vals) {
			c.Decoded[k] = "== vals"
		} else {
			c.Decoded[k] = v
		}
	}
	put("scalar_dec(scalar_enc)", c.DSS, c.DSSOK)
	put("batch_dec(scalar_enc)", c.DBS, c.DBSOK)
	put("scalar_dec(batch_enc)", c.DSB, c.DSBOK)
	put("batch_dec(batch_enc)", c.DBB, c.DBBOK)
}

func intScalarDecode(b []byte, limit int) ([]uint64, bool) {
	var d tsm1.IntegerDecoder
	d.SetBytes(b)
	out := []uint64{}
	for d.Next() {
		out = append(out, uint64(d.Read()))
		if len(out) > limit {
			break
		}
	}
	return out, d.Error() == nil
}

func timeScalarDecode(b []byte, limit int) ([]uint64, bool) {
	var d tsm1.TimeDecoder
	d.Init(b)
	out := []uint64{}
	for d.Next() {
		out = append(out, uint64(d.Read()))
		if len(out) > limit {
			break
		}
	}
	return out, d.Error() == nil
}

func runInt(w *vh.W, c *jcase) {
	s := c.Int
	idx := w.Len()
	unsigned := c.Kind == "uint"
	limit := len(s.Vals) + 1000
	p := vh.Guard(func() {
		enc := tsm1.NewIntegerEncoder(len(s.Vals))
		for _, v := range s.Vals {
			enc.Write(int64(v)) // the unsigned block encoder writes int64(v.value)
		}
		b, err := enc.Bytes()
		s.SB, s.SBOK = append([]byte{}, b...), err == nil
		var bb []byte
		if unsigned {
			bb, err = tsm1.UnsignedArrayEncodeAll(cp(s.Vals), nil)
		} else {
			bb, err = tsm1.IntegerArrayEncodeAll(toI64(s.Vals), nil)
		}
		s.BB, s.BBOK = append([]byte{}, bb...), err == nil
		batchDec := func(b []byte) ([]uint64, bool) {
			if unsigned {
				o, err := tsm1.UnsignedArrayDecodeAll(b, nil)
				return cp(o), err == nil
			}
			o, err := tsm1.IntegerArrayDecodeAll(b, nil)
			return toU64(o), err == nil
		}
		if s.SBOK {
			s.DSS, s.DSSOK = intScalarDecode(s.SB, limit)
			s.DBS, s.DBSOK = batchDec(s.SB)
		}
		if s.BBOK {
			s.DSB, s.DSBOK = intScalarDecode(s.BB, limit)
			s.DBB, s.DBBOK = batchDec(s.BB)
		}
	})
	if p != "" {
		w.Fail(idx, "panic in integer codec: "+p, "")
	}
	decSummary(s)
	var l lets
	t := l.wrap(fmt.Sprintf("CInt %s %s %s %s %s %s %s", l.u64s(s.Vals), l.optBytes(s.SB, s.SBOK), l.optBytes(s.BB, s.BBOK),
		l.optU64s(s.DSS, s.DSSOK), l.optU64s(s.DBS, s.DBSOK), l.optU64s(s.DSB, s.DSBOK), l.optU64s(s.DBB, s.DBBOK)))
	w.Add(t, c, len(s.Vals) >= 2, "")
	w.Count("kind", c.Kind)
	w.Count(c.Kind+".len", lenClass(len(s.Vals)))
	if s.BBOK && len(s.BB) > 0 {
		w.Count(c.Kind+".batch_encoding", fmt.Sprint(s.BB[0]>>4))
	}
	if s.SBOK && len(s.SB) > 0 {
		w.Count(c.Kind+".scalar_encoding", fmt.Sprint(s.SB[0]>>4))
	}
}

func runTime(w *vh.W, c *jcase) {
	s := c.Time
	idx := w.Len()
	limit := len(s.Vals) + 1000
	p := vh.Guard(func() {
		enc := tsm1.NewTimeEncoder(len(s.Vals))
		for _, v := range s.Vals {
			enc.Write(int64(v))
		}
		b, err := enc.Bytes()
		s.SB, s.SBOK = append([]byte{}, b...), err == nil
		bb, err := tsm1.TimeArrayEncodeAll(toI64(s.Vals), nil)
		s.BB, s.BBOK = append([]byte{}, bb...), err == nil
		batchDec := func(b []byte) ([]uint64, bool) {
			o, err := tsm1.TimeArrayDecodeAll(b, nil)
			return toU64(o), err == nil
		}
		if s.SBOK {
			s.DSS, s.DSSOK = timeScalarDecode(s.SB, limit)
			s.DBS, s.DBSOK = batchDec(s.SB)
			if n := tsm1.CountTimestamps(s.SB); n != len(s.Vals) {
				w.Fail(idx, fmt.Sprintf("CountTimestamps(scalar bytes) = %d, want %d", n, len(s.Vals)), "")
			}
		}
		if s.BBOK {
			s.DSB, s.DSBOK = timeScalarDecode(s.BB, limit)
			s.DBB, s.DBBOK = batchDec(s.BB)
			if n := tsm1.CountTimestamps(s.BB); n != len(s.Vals) {
				w.Fail(idx, fmt.Sprintf("CountTimestamps(batch bytes) = %d, want %d", n, len(s.Vals)), "")
			}
		}
	})
	if p != "" {
		w.Fail(idx, "panic in timestamp codec: "+p, "")
	}
	decSummary(s)
	var l lets
	t := l.wrap(fmt.Sprintf("CTime %s %s %s %s %s %s %s", l.u64s(s.Vals), l.optBytes(s.SB, s.SBOK), l.optBytes(s.BB, s.BBOK),
		l.optU64s(s.DSS, s.DSSOK), l.optU64s(s.DBS, s.DBSOK), l.optU64s(s.DSB, s.DSBOK), l.optU64s(s.DBB, s.DBBOK)))
	w.Add(t, c, len(s.Vals) >= 2, "")
	w.Count("kind", "time")
	w.Count("time.len", lenClass(len(s.Vals)))
	if s.BBOK && len(s.BB) > 0 {
		w.Count("time.batch_header", fmt.Sprintf("%02x", s.BB[0]))
	}
	if s.SBOK && len(s.SB) > 0 {
		w.Count("time.scalar_header", fmt.Sprintf("%02x", s.SB[0]))
	}
}

// ---- generators ----

var extremes = []uint64{0, 1, math.MaxUint64, uint64(math.MaxInt64), 1 << 63, 1<<63 + 1, uint64(math.MaxInt64) - 1,
	1 << 62, 1<<62 - 1, 1 << 60, 1<<60 - 1, 1 << 59, 1<<59 - 1, 1<<59 + 1, math.MaxUint64 - 1, 2}

// zig-zag inverse, to craft a delta whose zig-zag encoding is a given value
func unzig(v uint64) uint64 { return (v >> 1) ^ uint64((int64(v&1)<<63)>>63) }

// genIntVals: 64-bit patterns whose consecutive differences are chosen by mode.
func genIntVals(r *rand.Rand, n int) []uint64 {
	v := make([]uint64, n)
	if n == 0 {
		return v
	}
	mode := r.IntN(12)
	switch r.IntN(4) {
	case 0:
		v[0] = extremes[r.IntN(len(extremes))]
	case 1:
		v[0] = uint64(int64(r.IntN(2001) - 1000))
	default:
		v[0] = r.Uint64() >> uint(r.IntN(64))
		if r.IntN(2) == 0 {
			v[0] = -v[0]
		}
	}
	step := uint64(int64(r.IntN(21) - 10))
	if r.IntN(4) == 0 {
		step = extremes[r.IntN(len(extremes))]
	}
	if r.IntN(4) == 0 {
		step = r.Uint64()
	}
	zz := genPackVals(r, n) // candidate zig-zag encoded deltas
	dpos := 1
	if n > 2 {
		dpos = []int{1, n - 1, 1 + r.IntN(n-1)}[r.IntN(3)]
	}
	for i := 1; i < n; i++ {
		var d uint64
		switch mode {
		case 0, 1: // arithmetic progression: RLE
			d = step
		case 2: // progression with one disruptor (first, last or a random delta)
			d = step
			if i == dpos {
				d = step + 1 + uint64(r.IntN(3))
			}
		case 3, 4, 5, 6: // deltas whose zig-zag values exercise simple8b selectors / runs of 1s (delta = -1)
			d = unzig(zz[i])
		case 7: // extremes: forces the uncompressed format
			v[i] = extremes[r.IntN(len(extremes))]
			continue
		case 8: // random 64-bit
			v[i] = r.Uint64()
			continue
		case 9: // small values around zero
			v[i] = uint64(int64(r.IntN(7) - 3))
			continue
		case 10: // constant
			d = 0
		default: // delta -1 run (zig-zag 1) with rare disruptors
			d = math.MaxUint64
			if r.IntN(100) == 0 {
				d = uint64(r.IntN(5))
			}
		}
		v[i] = v[i-1] + d
	}
	return v
}

var pow10 = []uint64{1, 10, 100, 1000, 1e4, 1e5, 1e6, 1e7, 1e8, 1e9, 1e10, 1e11, 1e12, 1e13, 1e14}

func genTimeVals(r *rand.Rand, n int) []uint64 {
	v := make([]uint64, n)
	if n == 0 {
		return v
	}
	switch r.IntN(5) {
	case 0:
		v[0] = extremes[r.IntN(len(extremes))]
	case 1:
		v[0] = uint64(r.IntN(1000))
	default:
		v[0] = 1500000000000000000 + uint64(r.IntN(1000000))*pow10[r.IntN(13)]
	}
	mode := r.IntN(12)
	scale := pow10[r.IntN(len(pow10))]
	step := uint64(1+r.IntN(20)) * scale
	zz := genPackVals(r, n)
	dpos := 1
	if n > 2 {
		dpos = []int{1, n - 1, 1 + r.IntN(n-1)}[r.IntN(3)]
	}
	for i := 1; i < n; i++ {
		var d uint64
		switch mode {
		case 0, 1: // regular interval: RLE
			d = step
		case 2: // regular with one disruptor (first, last or a random delta) that is less divisible
			d = step
			if i == dpos {
				d = step + uint64(1+r.IntN(9))*pow10[r.IntN(len(pow10))]
				if scale > 1 && r.IntN(2) == 0 {
					d = step + scale/10*uint64(1+r.IntN(9))
				}
			}
		case 3, 4, 5: // scaled deltas exercising simple8b selectors and runs of 1s after division
			d = zz[i] * scale
		case 6: // unscaled
			d = zz[i]
		case 7: // unsorted / extremes
			v[i] = extremes[r.IntN(len(extremes))]
			continue
		case 8: // random 64-bit (unsorted)
			v[i] = r.Uint64()
			continue
		case 9: // jitter around a regular interval
			d = step + uint64(r.IntN(3))
		case 10: // duplicates
			d = 0
			if r.IntN(4) == 0 {
				d = scale
			}
		default: // delta exactly 1*scale with rare disruptors
			d = scale
			if r.IntN(100) == 0 {
				d = scale * uint64(r.IntN(5))
			}
		}
		v[i] = v[i-1] + d
	}
	return v
}

func fixedInt() []jcase {
	var cs []jcase
	mk := func(kind string, v []uint64) {
		c := jcase{Kind: kind}
		if kind == "time" {
			c.Time = &intCase{Vals: v}
		} else {
			c.Int = &intCase{Vals: v}
		}
		cs = append(cs, c)
	}
	mi, ma := uint64(1<<63), uint64(math.MaxInt64)
	for _, kind := range []string{"int", "uint", "time"} {
		mk(kind, nil)
		mk(kind, []uint64{0})
		mk(kind, []uint64{mi})
		mk(kind, []uint64{ma})
		mk(kind, []uint64{math.MaxUint64})
		mk(kind, []uint64{mi, ma})
		mk(kind, []uint64{ma, mi})
		mk(kind, []uint64{mi, ma, mi})
		mk(kind, []uint64{ma, mi, ma, mi})
		mk(kind, []uint64{mi, mi, mi})
		mk(kind, []uint64{ma, ma, ma, ma})
		mk(kind, []uint64{0, ma, math.MaxUint64 - 1})                      // step MaxInt64 (RLE with wrap)
		mk(kind, []uint64{0, mi, 0, mi, 0})                                // step MinInt64
		mk(kind, []uint64{5, 4, 3, 2, 1, 0, math.MaxUint64})               // step -1 through zero
		mk(kind, []uint64{1 << 62, 1<<62 + 1, 1<<62 + 5})                  // first value huge, deltas small
		mk(kind, []uint64{0, 1 << 59, 0})                                  // zig-zag(2^59) = 2^60: just too big
		mk(kind, []uint64{0, 1<<59 - 1, 1})                                // zig-zag = 2^60-2: fits
		mk(kind, []uint64{0, 1<<60 - 1, 7})                                // time delta = MaxValue
		mk(kind, []uint64{0, 1 << 60, 7})                                  // time delta = MaxValue+1
		mk(kind, []uint64{10, 20})                                         // two values
		mk(kind, []uint64{1000, 2000, 3000, 4000})                         // RLE, divisor 1000
		mk(kind, []uint64{1000, 2000, 3000, 4500})                         // packed, divisor 100
		mk(kind, []uint64{0, 1000000000000, 3000000000000, 3000000000000}) // divisor 1e12
		mk(kind, []uint64{0, 10000000000000, 30000000000000, 70000000000000})
		mk(kind, []uint64{7, 7, 7, 7, 7})
		mk(kind, []uint64{0, 1500, 2500, 3500, 4500})       // only the FIRST delta limits the divisor
		mk(kind, []uint64{0, 1000, 2000, 3000, 4500})       // only the LAST delta limits the divisor
		mk(kind, []uint64{0, 1000, 2000, 3010, 4010, 5010}) // a middle delta limits the divisor
		mk(kind, []uint64{5, 6, 8, 9, 10, 11})              // first delta differs (no RLE)
		mk(kind, []uint64{5, 6, 7, 8, 9, 11})               // last delta differs (no RLE)
	}
	// long runs: 250 timestamps 1s apart with one late disruptor (runs of 1s after division)
	for _, n := range []int{122, 242, 250} {
		for _, at := range []int{n - 1, 1} {
			v := make([]uint64, n)
			u := make([]uint64, n)
			for i := range v {
				v[i] = 1600000000000000000 + uint64(i)*1000000000
				u[i] = 100000 - uint64(i)
				if i >= at {
					v[i] += 2000000000
					u[i] -= 3
				}
			}
			mk("time", v)
			mk("int", u)
		}
	}
	return cs
}

func genInt(r *rand.Rand, big bool) jcase {
	n := genLen(r, big)
	kind := "int"
	if r.IntN(3) == 0 {
		kind = "uint"
	}
	return jcase{Kind: kind, Int: &intCase{Vals: genIntVals(r, n)}}
}
func genTime(r *rand.Rand, big bool) jcase {
	n := genLen(r, big)
	return jcase{Kind: "time", Time: &intCase{Vals: genTimeVals(r, n)}}
}
