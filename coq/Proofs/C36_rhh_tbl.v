(** C36 (rhh) — table / arithmetic / list lemmas for the robin-hood hash map proofs.

    Contents: circular arithmetic on probe positions ([(a + j) mod cap], [dist]), the
    [tget]/[tset] algebra, the list of occupied slots [elems] and its behaviour under [tset]
    (as permutations), a pigeonhole lemma, [pow2] bounds, and the algebra of the abstract
    association map ([amap_get]/[amap_remove] under permutations). *)
From Verif Require Import Base.Prelude Model.C36_rhh.
From Coq Require Import ZifyBool ZifyNat ZifyN Permutation.
Local Open Scope N_scope.

(** * Circular arithmetic *)

Lemma mod_cases a c : 0 < c -> a < 2 * c ->
  (a < c /\ a mod c = a) \/ (c <= a /\ a mod c = a - c).
Proof.
  intros Hc Ha. destruct (N.lt_ge_cases a c) as [Hl | Hg].
  - left; split; auto. apply N.mod_small; auto.
  - right; split; auto. symmetry. apply N.mod_unique with 1; lia.
Qed.

(** [mods c Hc]: eliminate every [_ mod c] (with [Hc : 0 < c]): a term [a mod c] with
    [a < 2c] provable is split into the two cases of [mod_cases]; a term [a mod c] whose
    argument has no bound only gets [a mod c < c].  Then [lia]. *)
Ltac mod_bounded c Hc a :=
  let H := fresh "Hmb" in
  assert (H : a < 2 * c) by lia;
  let Hm := fresh "Hmc" in
  pose proof (mod_cases a c Hc H) as Hm;
  let x := fresh "r" in
  set (x := a mod c) in *; clearbody x; clear H.

Ltac mod_free c Hc a :=
  lazymatch a with
  | context [_ mod c] => fail
  | _ =>
      let Hm := fresh "Hmf" in
      pose proof (N.mod_lt a c (N.neq_sym _ _ (N.lt_neq _ _ Hc))) as Hm;
      let x := fresh "r" in
      set (x := a mod c) in *; clearbody x
  end.

Ltac mod_step c Hc :=
  first
    [ match goal with
      | |- context [?a mod c] => mod_bounded c Hc a
      | H : context [?a mod c] |- _ => mod_bounded c Hc a
      end
    | match goal with
      | |- context [?a mod c] => mod_free c Hc a
      | H : context [?a mod c] |- _ => mod_free c Hc a
      end ].

Ltac mods c Hc := repeat (mod_step c Hc); lia.

Section Circ.
  Variable c : N.
  Hypothesis Hc : 0 < c.

  Lemma cadd_lt a j : (a + j) mod c < c.
  Proof. apply N.mod_lt. lia. Qed.

  Lemma dist_lt h p : dist h p c < c.
  Proof. unfold dist. apply N.mod_lt. lia. Qed.

  Lemma cadd_dist h p : p < c -> (h mod c + dist h p c) mod c = p.
  Proof. intros Hp. unfold dist. mods c Hc. Qed.

  Lemma dist_cadd h j : j < c -> dist h ((h mod c + j) mod c) c = j.
  Proof. intros Hj. unfold dist. mods c Hc. Qed.

  Lemma cadd_inj h j1 j2 : j1 < c -> j2 < c ->
    (h mod c + j1) mod c = (h mod c + j2) mod c -> j1 = j2.
  Proof. intros H1 H2 E. mods c Hc. Qed.

  Lemma cadd_succ h j : j < c ->
    ((h mod c + j) mod c + 1) mod c = (h mod c + (j + 1)) mod c.
  Proof. intros Hj. mods c Hc. Qed.

  Lemma dist_succ h p : p < c -> dist h p c + 1 < c ->
    dist h ((p + 1) mod c) c = dist h p c + 1.
  Proof. intros Hp. unfold dist. intros Hd. mods c Hc. Qed.

  Lemma dist_home h : dist h (h mod c) c = 0.
  Proof. unfold dist. mods c Hc. Qed.

  (** the gap between the current position and a fixed (empty) position *)
  Definition cgap (pos em : N) : N := (em + c - pos) mod c.

  Lemma cgap_lt pos em : cgap pos em < c.
  Proof. unfold cgap. apply N.mod_lt; lia. Qed.

  Lemma cgap_pos pos em : pos < c -> em < c -> pos <> em -> 1 <= cgap pos em.
  Proof. intros Hp He Hne. unfold cgap. mods c Hc. Qed.

  Lemma cgap_succ pos em : pos < c -> em < c -> pos <> em ->
    cgap ((pos + 1) mod c) em = cgap pos em - 1.
  Proof. intros Hp He Hne. unfold cgap. mods c Hc. Qed.

  Lemma succ_lt pos : (pos + 1) mod c < c.
  Proof. apply N.mod_lt; lia. Qed.
End Circ.

(** * [tget] / [tset] *)

Lemma tset_nat_length t p x : length (tset_nat t p x) = length t.
Proof.
  revert p; induction t as [|y t IH]; intros [|p]; simpl; auto.
Qed.

Lemma nth_tset_nat_same t p x d : (p < length t)%nat -> nth p (tset_nat t p x) d = x.
Proof.
  revert p; induction t as [|y t IH]; intros [|p] Hp; simpl in *; try lia; auto.
  apply IH; lia.
Qed.

Lemma nth_tset_nat_other t p q x d : p <> q -> nth q (tset_nat t p x) d = nth q t d.
Proof.
  revert p q; induction t as [|y t IH]; intros [|p] [|q] Hne; simpl; auto; try congruence.
Qed.

Lemma tset_nat_split t p x : (p < length t)%nat ->
  exists l1 e l2, t = l1 ++ e :: l2 /\ length l1 = p /\ tset_nat t p x = l1 ++ x :: l2
                  /\ nth p t empty_slot = e.
Proof.
  revert p; induction t as [|y t IH]; intros [|p] Hp; simpl in *; try lia.
  - exists [], y, t; auto.
  - destruct (IH p) as (l1 & e & l2 & E1 & E2 & E3 & E4); [lia|].
    exists (y :: l1), e, l2; simpl. rewrite E3, E4, E2. rewrite <- E1. auto.
Qed.

Lemma tset_length t p x : length (tset t p x) = length t.
Proof. apply tset_nat_length. Qed.

Lemma tget_tset_same t p x : p < N.of_nat (length t) -> tget (tset t p x) p = x.
Proof. intros Hp. unfold tget, tset. apply nth_tset_nat_same. lia. Qed.

Lemma tget_tset_other t p q x : p <> q -> tget (tset t p x) q = tget t q.
Proof. intros Hne. unfold tget, tset. apply nth_tset_nat_other. lia. Qed.

Lemma tget_tset t p q x : p < N.of_nat (length t) ->
  tget (tset t p x) q = if N.eqb q p then x else tget t q.
Proof.
  intros Hp. destruct (N.eqb_spec q p) as [->|Hne].
  - apply tget_tset_same; auto.
  - apply tget_tset_other; auto.
Qed.

(** * Occupied slots *)

Definition occb (e : slot) : bool := negb (N.eqb (s_hash e) 0).
Definition elems (t : list slot) : list slot := filter occb t.

Lemma occb_true e : occb e = true <-> s_hash e <> 0.
Proof. unfold occb. destruct (N.eqb_spec (s_hash e) 0); simpl; split; congruence. Qed.

Lemma occb_false e : occb e = false <-> s_hash e = 0.
Proof. unfold occb. destruct (N.eqb_spec (s_hash e) 0); simpl; split; congruence. Qed.

Lemma elems_app a b : elems (a ++ b) = elems a ++ elems b.
Proof. apply filter_app. Qed.

Lemma elems_length_le t : (length (elems t) <= length t)%nat.
Proof.
  unfold elems. induction t as [|y t IH]; simpl; auto. destruct (occb y); simpl; lia.
Qed.

Lemma In_elems t e :
  In e (elems t) <-> exists p, p < N.of_nat (length t) /\ tget t p = e /\ s_hash e <> 0.
Proof.
  unfold elems. rewrite filter_In, occb_true. split.
  - intros [Hin Hh]. destruct (In_nth _ _ empty_slot Hin) as (n & Hn & En).
    exists (N.of_nat n). unfold tget. rewrite Nat2N.id. split; [lia|auto].
  - intros (p & Hp & E & Hh). split; auto. subst e. unfold tget. apply nth_In. lia.
Qed.

(** [tset] on an empty slot adds an element; on an occupied slot it replaces one. *)
Lemma elems_tset_empty t p x :
  p < N.of_nat (length t) -> s_hash (tget t p) = 0 -> s_hash x <> 0 ->
  Permutation (elems (tset t p x)) (x :: elems t).
Proof.
  intros Hp He Hx. unfold tset, tget in *.
  destruct (tset_nat_split t (N.to_nat p) x) as (l1 & e & l2 & E1 & E2 & E3 & E4); [lia|].
  rewrite E3. rewrite E4 in He. rewrite E1. rewrite !elems_app. simpl.
  apply occb_true in Hx. apply occb_false in He. rewrite Hx, He.
  symmetry. apply Permutation_middle.
Qed.

Lemma elems_tset_occ t p x :
  p < N.of_nat (length t) -> s_hash (tget t p) <> 0 -> s_hash x <> 0 ->
  exists rest, Permutation (elems t) (tget t p :: rest) /\ Permutation (elems (tset t p x)) (x :: rest).
Proof.
  intros Hp He Hx. unfold tset, tget in *.
  destruct (tset_nat_split t (N.to_nat p) x) as (l1 & e & l2 & E1 & E2 & E3 & E4); [lia|].
  rewrite E3. rewrite E4 in *. exists (elems l1 ++ elems l2).
  rewrite E1 at 1. rewrite !elems_app. simpl.
  apply occb_true in Hx. apply occb_true in He. rewrite Hx, He.
  split; symmetry; apply Permutation_middle.
Qed.

(** pigeonhole: fewer occupied slots than slots -> an empty slot exists *)
Lemma exists_empty t : (length (elems t) < length t)%nat ->
  exists p, p < N.of_nat (length t) /\ s_hash (tget t p) = 0.
Proof.
  induction t as [|y t IH]; simpl; intros Hl; [lia|].
  destruct (occb y) eqn:Ey.
  - simpl in Hl. destruct IH as (p & Hp & E); [lia|].
    exists (p + 1). split; [lia|]. unfold tget in *.
    replace (N.to_nat (p + 1)) with (S (N.to_nat p)) by lia. simpl. auto.
  - exists 0. split; [lia|]. unfold tget. simpl. apply occb_false; auto.
Qed.

(** position-wise distinct keys -> [NoDup] of the keys of [elems] *)
Lemma NoDup_keys_nat (t : list slot) :
  (forall i j, (i < length t)%nat -> (j < length t)%nat ->
     s_hash (nth i t empty_slot) <> 0 -> s_hash (nth j t empty_slot) <> 0 ->
     s_key (nth i t empty_slot) = s_key (nth j t empty_slot) -> i = j) ->
  NoDup (map s_key (elems t)).
Proof.
  induction t as [|y t IH]; simpl; intros H; [constructor|].
  assert (IHt : NoDup (map s_key (elems t))).
  { apply IH. intros i j Hi Hj Hhi Hhj E.
    specialize (H (S i) (S j)). simpl in H. assert (S i = S j) by (apply H; auto; lia). lia. }
  destruct (occb y) eqn:Ey; auto.
  simpl. constructor; auto.
  intros Hin. apply in_map_iff in Hin as (e & Ek & Hin).
  unfold elems in Hin. apply filter_In in Hin as [Hin He]. apply occb_true in He.
  destruct (In_nth _ _ empty_slot Hin) as (n & Hn & En).
  apply occb_true in Ey.
  specialize (H 0%nat (S n)). simpl in H. rewrite En in H.
  assert (0%nat = S n) by (apply H; auto; lia). lia.
Qed.

(** * [h_alloc] *)

Lemma alloc_length cap : length (h_alloc cap) = N.to_nat cap.
Proof. unfold h_alloc. apply repeat_length. Qed.

Lemma tget_alloc cap p : tget (h_alloc cap) p = empty_slot.
Proof.
  unfold tget, h_alloc. generalize (N.to_nat p) as n. generalize (N.to_nat cap) as m.
  induction m as [|m IH]; intros [|n]; simpl; auto.
Qed.

Lemma elems_alloc cap : elems (h_alloc cap) = [].
Proof.
  unfold h_alloc. generalize (N.to_nat cap) as m. induction m as [|m IH]; simpl; auto.
Qed.

(** * [pow2] *)

Lemma pow2_loop_ge_i fuel i v : i <= pow2_loop fuel i v.
Proof.
  revert i; induction fuel as [|f IH]; intros i; cbn [pow2_loop]; [lia|].
  destruct (N.leb v i); [lia|]. specialize (IH (2 * i)). lia.
Qed.

Lemma pow2_loop_ge_v fuel i v :
  v <= pow2_loop fuel i v \/ pow2_loop fuel i v = i * 2 ^ N.of_nat fuel.
Proof.
  revert i; induction fuel as [|f IH]; intros i.
  - right. simpl. lia.
  - cbn [pow2_loop]. destruct (N.leb_spec v i) as [Hle|Hgt]; [left; lia|].
    destruct (IH (2 * i)) as [H|H]; [left; auto|right].
    rewrite H. rewrite Nat2N.inj_succ, N.pow_succ_r'. lia.
Qed.

Lemma pow2_ge2 v : 2 <= pow2 v.
Proof. apply pow2_loop_ge_i. Qed.

Lemma pow2_pos v : 0 < pow2 v.
Proof. pose proof (pow2_ge2 v). lia. Qed.

Lemma pow2_ge v : v <= pow2 v \/ pow2 v = 9223372036854775808.
Proof.
  unfold pow2. destruct (pow2_loop_ge_v 62 2 v) as [H|H]; [left; auto|right].
  rewrite H. reflexivity.
Qed.

Lemma pow2_double_gt cap : 0 < cap -> cap < 9223372036854775808 -> cap < pow2 (cap * 2).
Proof. intros H0 H. destruct (pow2_ge (cap * 2)) as [E|E]; lia. Qed.

(** * Abstract association map *)

Lemma bytes_eqb_eq a b : bytes_eqb a b = true <-> a = b.
Proof. unfold bytes_eqb. apply list_eqb_spec. apply N.eqb_eq. Qed.

Lemma bytes_eqb_neq a b : bytes_eqb a b = false <-> a <> b.
Proof.
  destruct (bytes_eqb a b) eqn:E.
  - apply bytes_eqb_eq in E. split; congruence.
  - split; auto. intros _ Hab. apply bytes_eqb_eq in Hab. congruence.
Qed.

Lemma bytes_eqb_refl a : bytes_eqb a a = true.
Proof. apply bytes_eqb_eq; auto. Qed.

Lemma amap_remove_notin k a : ~ In k (map fst a) -> amap_remove k a = a.
Proof.
  induction a as [|[k' v'] a IH]; simpl; intros H; auto.
  destruct (bytes_eqb k' k) eqn:E.
  - apply bytes_eqb_eq in E. tauto.
  - f_equal. apply IH. tauto.
Qed.

Lemma amap_remove_perm k a b : Permutation a b -> Permutation (amap_remove k a) (amap_remove k b).
Proof.
  induction 1 as [| [k1 v1] a b Hp IH | [k1 v1] [k2 v2] a | a b c0 H1 IH1 H2 IH2]; simpl.
  - constructor.
  - destruct (bytes_eqb k1 k); auto.
  - destruct (bytes_eqb k1 k), (bytes_eqb k2 k); auto. apply perm_swap.
  - eapply perm_trans; eauto.
Qed.

Lemma amap_get_in k v a : NoDup (map fst a) -> In (k, v) a -> amap_get k a = Some v.
Proof.
  induction a as [|[k' v'] a IH]; simpl; intros Hnd Hin; [tauto|].
  inversion Hnd as [|? ? Hni Hnd']; subst.
  destruct Hin as [E|Hin].
  - inversion E; subst. rewrite bytes_eqb_refl. auto.
  - destruct (bytes_eqb k' k) eqn:E.
    + apply bytes_eqb_eq in E. subst k'. exfalso. apply Hni.
      apply in_map_iff. exists (k, v); auto.
    + apply IH; auto.
Qed.

Lemma amap_get_notin k a : ~ In k (map fst a) -> amap_get k a = None.
Proof.
  induction a as [|[k' v'] a IH]; simpl; intros H; auto.
  destruct (bytes_eqb k' k) eqn:E.
  - apply bytes_eqb_eq in E. tauto.
  - apply IH. tauto.
Qed.
