(** C16 — the other reading (absent tag = empty string), the API grammar, and the witnesses
    of the refuted statements. *)
From Verif Require Import Base.Prelude Model.C16 Proofs.C16 Proofs.C16_key.
Local Open Scope N_scope.

Section Alt.
Variable rm : N -> bytes -> bool.

Lemma eval2_ext p : forall g g', geq_on (refs p) g g' -> eval2 rm g p = eval2 rm g' p.
Proof.
  induction p as [op l r | a IHa b IHb | a IHa b IHb]; intros g g' H; simpl.
  - rewrite (cmp_val_ext rm g g'); auto.
  - rewrite (IHa g g'), (IHb g g'); auto; intros k Hk; apply H; simpl; apply in_or_app; auto.
  - rewrite (IHa g g'), (IHb g g'); auto; intros k Hk; apply H; simpl; apply in_or_app; auto.
Qed.

(** when every referenced tag is present, the two readings coincide *)
Lemma readings_agree_when_present p env :
  (forall k, In k (refs p) -> lookup env k <> None) ->
  holds rm p env = holds_absent_empty rm p env.
Proof.
  intros H. rewrite holds_eval2. unfold holds_absent_empty.
  apply eval2_ext. intros k Hk. unfold lookup_e.
  destruct (lookup env k) eqn:E; auto. exfalso. apply (H k); auto.
Qed.

(** positive predicates: tag = non-empty literal, AND, OR *)
Fixpoint pos_pred (p : pred) : bool :=
  match p with
  | PCmp OpEq (LRef _) (RLit b) => nonempty b
  | PCmp _ _ _ => false
  | PAnd a b | POr a b => pos_pred a && pos_pred b
  end.

Lemma readings_agree_on_positive p env :
  pos_pred p = true -> holds rm p env = holds_absent_empty rm p env.
Proof.
  intros H. rewrite holds_eval2. unfold holds_absent_empty.
  induction p as [op l r | a IHa b IHb | a IHa b IHb]; simpl in *.
  - destruct op; try discriminate. destruct l as [k|]; try discriminate.
    destruct r as [|b|]; try discriminate.
    unfold cmp_val, lookup_e. simpl. destruct (lookup env k) as [v|]; auto.
    simpl. destruct b; [discriminate | reflexivity].
  - apply andb_true_iff in H as [Ha Hb]. rewrite IHa, IHb; auto.
  - apply andb_true_iff in H as [Ha Hb]. rewrite IHa, IHb; auto.
Qed.

Lemma api_pred_wf p : api_pred p = true -> wf_pred p = true /\ valid p = true.
Proof.
  induction p as [op l r | a IHa b IHb | a IHa b IHb]; simpl; intros H.
  - destruct l as [k|]; try discriminate. destruct r as [|b|]; try discriminate.
    destruct op; try discriminate; auto.
  - apply andb_true_iff in H as [Ha Hb].
    destruct (IHa Ha), (IHb Hb). split; apply andb_true_iff; auto.
  - discriminate.
Qed.

End Alt.

(** * Witnesses *)
Definition b_m : bytes := [109].   (* "m" *)
Definition b_t : bytes := [116].   (* "t" *)
Definition b_u : bytes := [117].   (* "u" *)
Definition b_x : bytes := [120].   (* "x" *)
Definition b_1 : bytes := [49].    (* "1" *)
Definition b_a : bytes := [97].    (* "a" *)
Definition b_b : bytes := [98].    (* "b" *)

(** t != "x" on the series m,u=1 (no tag t) *)
Definition w_neq_pred : pred := PCmp OpNeq (LRef b_t) (RLit b_x).
Definition w_neq_env : tagset := [(MTAG, b_m); (b_u, b_1)].

(** measurement "a=b", predicate a = "b", series without tag a *)
Definition w_eq_name : bytes := [97; 61; 98].
Definition w_eq_pred : pred := PCmp OpEq (LRef b_a) (RLit b_b).
Definition w_eq_env : tagset := [(MTAG, w_eq_name); (b_t, b_1)].

(** tag value "a\" followed by another tag; predicate u = "1" *)
Definition w_bsl_pred : pred := PCmp OpEq (LRef b_u) (RLit b_1).
Definition w_bsl_env : tagset := [(MTAG, b_m); (b_t, [97; 92]); (b_u, b_1)].

(** tag value "x#!~#y" followed by another tag; predicate u = "1" *)
Definition w_sep_env : tagset := [(MTAG, b_m); (b_t, [120; 35; 33; 126; 35; 121]); (b_u, b_1)].
