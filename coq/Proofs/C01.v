From Verif Require Import Base.Prelude Model.C01.
From Coq Require Import Sorting.Sorted.

(** * Logs *)
Lemma log_get_app a b k t :
  log_get (a ++ b) k t = match log_get b k t with Some v => Some v | None => log_get a k t end.
Proof.
  induction a as [|[[k' t'] v] a IH]; cbn [app log_get].
  - destruct (log_get b k t); reflexivity.
  - rewrite IH. destruct (log_get b k t); [reflexivity|]. reflexivity.
Qed.

Lemma files_get_app a b k t :
  files_get (a ++ b) k t = match files_get b k t with Some v => Some v | None => files_get a k t end.
Proof.
  induction a as [|f a IH]; cbn [app files_get].
  - destruct (files_get b k t); reflexivity.
  - rewrite IH. destruct (files_get b k t); reflexivity.
Qed.

Lemma log_get_some_in l k t v : log_get l k t = Some v -> In (k, t, v) l.
Proof.
  induction l as [|[[k' t'] v'] l IH]; cbn [log_get]; [discriminate|].
  destruct (log_get l k t) eqn:E.
  - intros H; inversion H; subst. right. apply IH. reflexivity.
  - destruct (N.eqb k k' && Z.eqb t t')%bool eqn:B; [|discriminate].
    apply andb_true_iff in B as [B1 B2]. apply N.eqb_eq in B1. apply Z.eqb_eq in B2.
    intros H; inversion H; subst. left. reflexivity.
Qed.

Lemma log_get_none_iff l k t : log_get l k t = None <-> (forall v, ~ In (k, t, v) l).
Proof.
  induction l as [|[[k' t'] v'] l IH]; cbn [log_get].
  - split; [intros _ v []|reflexivity].
  - destruct (log_get l k t) eqn:E.
    + split; [discriminate|]. intros H. exfalso. apply (H z). right. apply log_get_some_in. exact E.
    + destruct (N.eqb k k' && Z.eqb t t')%bool eqn:B.
      * split; [discriminate|]. intros H. exfalso.
        apply andb_true_iff in B as [B1 B2]. apply N.eqb_eq in B1. apply Z.eqb_eq in B2. subst.
        apply (H v'). left. reflexivity.
      * split; [|reflexivity]. intros _ v [H|H].
        -- inversion H; subst. rewrite N.eqb_refl, Z.eqb_refl in B. discriminate.
        -- destruct IH as [IH _]. exact (IH eq_refl v H).
Qed.

(** If all entries for (k,t) carry the same value and one exists, that is the value. *)
Lemma log_get_unique l k t v :
  In (k, t, v) l -> (forall v', In (k, t, v') l -> v' = v) -> log_get l k t = Some v.
Proof.
  intros Hin Hu. destruct (log_get l k t) eqn:E.
  - apply log_get_some_in in E. f_equal. apply Hu. exact E.
  - exfalso. destruct (log_get_none_iff l k t) as [H _]. exact (H E v Hin).
Qed.

Lemma log_get_filter (p : key -> Z -> bool) l k t :
  log_get (filter (fun e => p (fst (fst e)) (snd (fst e))) l) k t =
  if p k t then log_get l k t else None.
Proof.
  induction l as [|[[k' t'] v'] l IH]; cbn [filter log_get fst snd].
  - destruct (p k t); reflexivity.
  - destruct (p k' t') eqn:P; cbn [log_get]; rewrite IH.
    + destruct (p k t) eqn:P2; [reflexivity|].
      destruct (N.eqb k k' && Z.eqb t t')%bool eqn:B; [|reflexivity].
      apply andb_true_iff in B as [B1 B2]. apply N.eqb_eq in B1. apply Z.eqb_eq in B2. subst.
      congruence.
    + destruct (p k t) eqn:P2; [|reflexivity].
      destruct (log_get l k t); [reflexivity|].
      destruct (N.eqb k k' && Z.eqb t t')%bool eqn:B; [|reflexivity].
      apply andb_true_iff in B as [B1 B2]. apply N.eqb_eq in B1. apply Z.eqb_eq in B2. subst.
      congruence.
Qed.

Definition hit ks lo hi (k : key) (t : Z) : bool := (in_keys ks k && in_range lo hi t)%bool.

Lemma log_delete_get l ks lo hi k t :
  log_get (log_delete l ks lo hi) k t = if hit ks lo hi k t then None else log_get l k t.
Proof.
  unfold log_delete, hit.
  rewrite (log_get_filter (fun k t => negb (in_keys ks k && in_range lo hi t))).
  destruct (in_keys ks k && in_range lo hi t)%bool; reflexivity.
Qed.

(** * Files *)
Lemma tombed_app a b k t : tombed (a ++ b) k t = (tombed a k t || tombed b k t)%bool.
Proof. unfold tombed. apply existsb_app. Qed.

Lemma tombed_map_keys ks lo hi k t :
  tombed (map (fun k => {| tk := k; tlo := lo; thi := hi |}) ks) k t = hit ks lo hi k t.
Proof.
  unfold hit, in_keys, in_range, tombed. induction ks as [|x ks IH]; cbn; [reflexivity|].
  rewrite IH. rewrite (N.eqb_sym x k).
  destruct (N.eqb k x), (Z.leb lo t), (Z.leb t hi), (existsb (N.eqb k) ks); reflexivity.
Qed.

Lemma file_delete_get ks lo hi f k t :
  file_get (file_delete ks lo hi f) k t = if hit ks lo hi k t then None else file_get f k t.
Proof.
  unfold file_get, file_delete; cbn [ftomb fpts].
  rewrite tombed_app, tombed_map_keys. destruct (hit ks lo hi k t); reflexivity.
Qed.

Lemma files_delete_get ks lo hi fs k t :
  files_get (map (file_delete ks lo hi) fs) k t = if hit ks lo hi k t then None else files_get fs k t.
Proof.
  induction fs as [|f fs IH]; cbn [map files_get].
  - destruct (hit ks lo hi k t); reflexivity.
  - rewrite IH, file_delete_get. destruct (hit ks lo hi k t); reflexivity.
Qed.

Lemma files_get_some_cand fs k t v : files_get fs k t = Some v -> In (k, t) (files_cands fs).
Proof.
  induction fs as [|f fs IH]; cbn [files_get]; [discriminate|].
  unfold files_cands; cbn [flat_map]. intros H. apply in_or_app.
  destruct (files_get fs k t) eqn:E.
  - right. apply IH. exact H.
  - left. unfold file_get in H. destruct (tombed (ftomb f) k t); [discriminate|].
    apply log_get_some_in in H. unfold file_cands. apply in_map_iff. exists (k, t, v). split; [reflexivity|exact H].
Qed.

Lemma merge_files_get g k t : file_get (merge_files g) k t = files_get g k t.
Proof.
  unfold file_get, merge_files; cbn [ftomb fpts tombed existsb].
  set (L := flat_map _ _).
  assert (HL : forall v, In (k, t, v) L <-> In (k, t) (files_cands g) /\ files_get g k t = Some v).
  { intros v. unfold L. rewrite in_flat_map. split.
    - intros [[k0 t0] [Hin H]]. cbn [fst snd] in H.
      destruct (files_get g k0 t0) eqn:E; [|destruct H].
      destruct H as [H|[]]. inversion H; subst. split; assumption.
    - intros [Hin E]. exists (k, t). split; [exact Hin|]. cbn [fst snd]. rewrite E. left. reflexivity. }
  destruct (files_get g k t) as [v|] eqn:E.
  - apply log_get_unique.
    + apply HL. split; [eapply files_get_some_cand; exact E|reflexivity].
    + intros v' H. apply HL in H as [_ H]. congruence.
  - apply log_get_none_iff. intros v H. apply HL in H as [_ H]. discriminate.
Qed.

(** * One step against the abstraction *)
Definition overlay (b : log) (m : key -> Z -> option Z) : key -> Z -> option Z :=
  fun k t => match log_get b k t with Some v => Some v | None => m k t end.

Lemma step_write_abs s b k t : abs (fst (step s (Write b))) k t = overlay b (abs s) k t.
Proof.
  unfold abs, overlay; cbn. rewrite log_get_app. destruct (log_get b k t); reflexivity.
Qed.

Lemma step_snapbegin_abs s k t : abs (fst (step s SnapBegin)) k t = abs s k t.
Proof.
  unfold abs; cbn. destruct (snapshotting s); [reflexivity|].
  destruct (snap s) eqn:E; cbn; [|reflexivity].
  destruct (log_get (hot s) k t); reflexivity.
Qed.

Lemma step_snapcommit_abs s k t : abs (fst (step s SnapCommit)) k t = abs s k t.
Proof.
  unfold abs; cbn. destruct (snapshotting s); [|reflexivity]. cbn.
  destruct (log_get (hot s) k t); [reflexivity|].
  destruct (snap s) as [|e l] eqn:E; [reflexivity|].
  rewrite files_get_app. cbn [files_get]. unfold file_get; cbn [ftomb fpts tombed existsb].
  destruct (log_get (e :: l) k t); reflexivity.
Qed.

Lemma step_snapfail_abs s k t : abs (fst (step s SnapFail)) k t = abs s k t.
Proof. unfold abs; cbn. destruct (snapshotting s); reflexivity. Qed.

Lemma step_compact_abs s i n k t : abs (fst (step s (Compact i n))) k t = abs s k t.
Proof.
  unfold step. destruct (Nat.leb 1 n && Nat.leb (i + n) (length (files s)))%bool; [|reflexivity].
  unfold abs; cbn [fst hot snap files].
  destruct (log_get (hot s) k t); [reflexivity|]. destruct (log_get (snap s) k t); [reflexivity|].
  assert (D : files s = firstn i (files s) ++ firstn n (skipn i (files s)) ++ skipn (i + n) (files s)).
  { rewrite <- (firstn_skipn i (files s)) at 1. f_equal.
    rewrite <- (firstn_skipn n (skipn i (files s))) at 1. f_equal.
    clear. revert i. induction (files s) as [|f l IHl]; intros [|i]; cbn; try reflexivity.
    - destruct n; reflexivity.
    - apply IHl. }
  rewrite D at 4. rewrite !files_get_app. cbn [files_get]. rewrite merge_files_get.
  reflexivity.
Qed.

Lemma step_delete_abs_other s ks lo hi k t :
  hit ks lo hi k t = false -> abs (fst (step s (Delete ks lo hi))) k t = abs s k t.
Proof.
  intros H. unfold abs; cbn. rewrite log_delete_get, files_delete_get, H. reflexivity.
Qed.

Lemma step_delete_abs s ks lo hi k t :
  snap s = [] ->
  abs (fst (step s (Delete ks lo hi))) k t = if hit ks lo hi k t then None else abs s k t.
Proof.
  intros Hs. unfold abs; cbn. rewrite log_delete_get, files_delete_get, Hs. cbn.
  destruct (hit ks lo hi k t); reflexivity.
Qed.

(** Without the hypothesis the deleted point may only survive through the snapshot store. *)
Lemma step_delete_abs_general s ks lo hi k t :
  abs (fst (step s (Delete ks lo hi))) k t =
  if hit ks lo hi k t then log_get (snap s) k t else abs s k t.
Proof.
  unfold abs; cbn. rewrite log_delete_get, files_delete_get.
  destruct (hit ks lo hi k t); [|reflexivity]. destruct (log_get (snap s) k t); reflexivity.
Qed.

(** * Histories *)
Fixpoint safe (h : list op) (s : state) : Prop :=
  match h with
  | [] => True
  | o :: r => match o with Delete _ _ _ => snap s = [] | _ => True end /\ safe r (fst (step s o))
  end.

Definition no_delete (h : list op) : Prop :=
  Forall (fun o => match o with Delete _ _ _ => False | _ => True end) h.

Lemma no_delete_safe h : no_delete h -> forall s, safe h s.
Proof.
  induction 1 as [|o h Ho _ IH]; intros s; cbn; [exact I|].
  split; [destruct o; try exact I; destruct Ho|apply IH].
Qed.

Lemma run_refines h : forall s L,
  (forall k t, abs s k t = log_get L k t) -> safe h s ->
  forall k t, abs (run h s) k t = log_get (spec_log h L) k t.
Proof.
  induction h as [|o h IH]; intros s L HA HS k t; [apply HA|].
  destruct HS as [Ho HS]. unfold run; cbn [fold_left]. fold (run h (fst (step s o))).
  destruct o as [b| | | |i n|ks lo hi]; cbn [spec_log].
  - apply IH; [|exact HS]. intros k' t'. rewrite step_write_abs. unfold overlay.
    rewrite log_get_app, HA. reflexivity.
  - apply IH; [|exact HS]. intros k' t'. rewrite step_snapbegin_abs. apply HA.
  - apply IH; [|exact HS]. intros k' t'. rewrite step_snapcommit_abs. apply HA.
  - apply IH; [|exact HS]. intros k' t'. rewrite step_snapfail_abs. apply HA.
  - apply IH; [|exact HS]. intros k' t'. rewrite step_compact_abs. apply HA.
  - apply IH; [|exact HS]. intros k' t'. rewrite (step_delete_abs _ _ _ _ _ _ Ho), log_delete_get, HA.
    reflexivity.
Qed.

Lemma abs_init k t : abs init k t = log_get [] k t.
Proof. reflexivity. Qed.

(** * Reads *)
Lemma insert_uniq_in t l x : In x (insert_uniq t l) <-> x = t \/ In x l.
Proof.
  induction l as [|y l IH]; cbn; [intuition|].
  destruct (Z.ltb t y) eqn:E1; cbn; [intuition|].
  destruct (Z.eqb t y) eqn:E2; cbn.
  - apply Z.eqb_eq in E2; subst. intuition.
  - rewrite IH. intuition.
Qed.

Lemma sort_uniq_in l x : In x (sort_uniq l) <-> In x l.
Proof.
  induction l as [|y l IH]; cbn; [reflexivity|]. rewrite insert_uniq_in, IH. intuition.
Qed.

Definition ssorted := StronglySorted Z.lt.

Lemma insert_uniq_sorted t l : ssorted l -> ssorted (insert_uniq t l).
Proof.
  induction 1 as [|y l Hs IH Hy]; cbn; [repeat constructor|].
  destruct (Z.ltb t y) eqn:E1.
  - apply Z.ltb_lt in E1. constructor; [constructor; assumption|].
    constructor; [exact E1|]. rewrite Forall_forall in *. intros x Hx. specialize (Hy x Hx). lia.
  - destruct (Z.eqb t y) eqn:E2; [constructor; assumption|].
    apply Z.ltb_ge in E1. apply Z.eqb_neq in E2.
    constructor; [exact IH|]. rewrite Forall_forall in *. intros x Hx.
    apply insert_uniq_in in Hx as [->|Hx]; [lia|exact (Hy x Hx)].
Qed.

Lemma sort_uniq_sorted l : ssorted (sort_uniq l).
Proof. induction l; cbn; [constructor|apply insert_uniq_sorted; assumption]. Qed.

(** A read result is determined by: sorted times + membership. *)
Definition tsorted (r : list (Z * Z)) := StronglySorted (fun a b => fst a < fst b)%Z r.

Definition pick (f : Z -> option Z) (lo hi : Z) (ts : list Z) : list (Z * Z) :=
  flat_map (fun t => if in_range lo hi t then match f t with Some v => [(t, v)] | None => [] end else []) ts.

Lemma pick_in f lo hi ts t v :
  In (t, v) (pick f lo hi ts) <-> In t ts /\ in_range lo hi t = true /\ f t = Some v.
Proof.
  unfold pick. rewrite in_flat_map. split.
  - intros [x [Hx H]]. destruct (in_range lo hi x) eqn:R; [|destruct H].
    destruct (f x) eqn:F; [|destruct H]. destruct H as [H|[]]. inversion H; subst. auto.
  - intros [H1 [H2 H3]]. exists t. split; [exact H1|]. rewrite H2, H3. left. reflexivity.
Qed.

Lemma pick_sorted f lo hi ts : ssorted ts -> tsorted (pick f lo hi ts).
Proof.
  induction 1 as [|x l Hs IH Hx]; cbn; [constructor|].
  destruct (in_range lo hi x); [|exact IH]. destruct (f x); [|exact IH].
  cbn. constructor; [exact IH|]. rewrite Forall_forall in *. intros [t v] H.
  apply pick_in in H as [H _]. cbn. exact (Hx t H).
Qed.

Lemma tsorted_ext (a b : list (Z * Z)) :
  tsorted a -> tsorted b -> (forall x, In x a <-> In x b) -> a = b.
Proof.
  intros Ha; revert b. induction Ha as [|x a Ha IH Hx]; intros b Hb E.
  - destruct b as [|y b]; [reflexivity|]. exfalso. apply (E y). left. reflexivity.
  - destruct b as [|y b]; [exfalso; apply (E x); left; reflexivity|].
    inversion Hb as [|? ? Hb' Hy]; subst.
    rewrite Forall_forall in Hx, Hy.
    assert (Exy : x = y).
    { destruct (proj1 (E x) (or_introl eq_refl)) as [H|H]; [congruence|].
      destruct (proj2 (E y) (or_introl eq_refl)) as [H2|H2]; [congruence|].
      specialize (Hx y H2). specialize (Hy x H). lia. }
    rewrite Exy in *. clear Exy x. f_equal. apply IH; [exact Hb'|]. intros z. split; intros Hz.
    + destruct (proj1 (E z) (or_intror Hz)) as [H|H]; [|exact H]. rewrite <- H in Hz. specialize (Hx y Hz). lia.
    + destruct (proj2 (E z) (or_intror Hz)) as [H|H]; [|exact H]. rewrite <- H in Hz. specialize (Hy y Hz). lia.
Qed.

Lemma key_times_in l k t : In t (key_times l k) <-> exists v, In (k, t, v) l.
Proof.
  unfold key_times. rewrite in_flat_map. split.
  - intros [[[k' t'] v] [Hin H]]. cbn [fst snd] in H. destruct (N.eqb k' k) eqn:E; [|destruct H].
    apply N.eqb_eq in E. destruct H as [H|[]]. subst. eauto.
  - intros [v H]. exists (k, t, v). split; [exact H|]. cbn [fst snd]. rewrite N.eqb_refl. left. reflexivity.
Qed.

Lemma log_get_some_time l k t v : log_get l k t = Some v -> In t (key_times l k).
Proof. intros H. apply key_times_in. exists v. apply log_get_some_in. exact H. Qed.

Lemma files_get_some_time fs k t v :
  files_get fs k t = Some v -> In t (flat_map (fun f => key_times (fpts f) k) fs).
Proof.
  induction fs as [|f fs IH]; cbn [files_get flat_map]; [discriminate|].
  intros H. apply in_or_app. destruct (files_get fs k t) eqn:E.
  - right. apply IH. exact H.
  - left. unfold file_get in H. destruct (tombed _ _ _); [discriminate|].
    eapply log_get_some_time. exact H.
Qed.

Lemma abs_some_cand s k t v : abs s k t = Some v -> In t (cand_times s k).
Proof.
  unfold abs, cand_times. intros H. apply in_or_app.
  destruct (log_get (hot s) k t) eqn:E1; [left; eapply log_get_some_time; exact E1|].
  right. apply in_or_app.
  destruct (log_get (snap s) k t) eqn:E2; [left; eapply log_get_some_time; exact E2|].
  right. eapply files_get_some_time. exact H.
Qed.

Lemma read_asc_eq_spec s L k lo hi :
  (forall t, abs s k t = log_get L k t) -> read_asc s k lo hi = spec_read_asc L k lo hi.
Proof.
  intros HA. apply tsorted_ext.
  - apply (pick_sorted (abs s k)). apply sort_uniq_sorted.
  - apply (pick_sorted (log_get L k)). apply sort_uniq_sorted.
  - intros [t v]. unfold read_asc, spec_read_asc.
    change (In (t, v) (pick (abs s k) lo hi (sort_uniq (cand_times s k))) <->
            In (t, v) (pick (log_get L k) lo hi (sort_uniq (key_times L k)))).
    rewrite !pick_in, !sort_uniq_in, HA. split; intros [H1 [H2 H3]]; repeat split; auto.
    + eapply log_get_some_time. exact H3.
    + eapply abs_some_cand. rewrite HA. exact H3.
Qed.

Lemma read_eq_spec s L k lo hi asc :
  (forall t, abs s k t = log_get L k t) -> read s k lo hi asc = spec_read L k lo hi asc.
Proof.
  intros HA. unfold read, spec_read. rewrite (read_asc_eq_spec s L k lo hi HA). reflexivity.
Qed.

(** The oracle itself, in plain words: ascending spec reads are sorted by time and hold
    exactly the in-range points whose last un-deleted write carries that value. *)
Lemma spec_read_asc_char L k lo hi :
  tsorted (spec_read_asc L k lo hi) /\
  forall t v, In (t, v) (spec_read_asc L k lo hi) <-> (lo <= t <= hi)%Z /\ log_get L k t = Some v.
Proof.
  split; [apply (pick_sorted (log_get L k)); apply sort_uniq_sorted|].
  intros t v. unfold spec_read_asc.
  fold (pick (log_get L k) lo hi (sort_uniq (key_times L k))).
  rewrite pick_in, sort_uniq_in. unfold in_range. rewrite andb_true_iff, !Z.leb_le.
  split; [intros [_ [H1 H2]]; auto|]. intros [H1 H2]. repeat split; try tauto.
  eapply log_get_some_time. exact H2.
Qed.

(** * Main results *)
Theorem read_your_writes h k lo hi asc :
  safe h init -> read (run h init) k lo hi asc = spec_read (spec_log h []) k lo hi asc.
Proof.
  intros HS. apply read_eq_spec. intros t. apply (run_refines h init [] abs_init HS).
Qed.

(** The judge agrees with itself: on histories whose deletes never fall inside a pending
    snapshot, a case that matches the model also satisfies the oracle. *)
Fixpoint ops_of (c : list cstep) : list op :=
  match c with [] => [] | COp o _ :: r => o :: ops_of r | CRead _ _ _ _ _ :: r => ops_of r end.

(** No resurrection: once a safe delete covered (k,t), later non-writing operations keep
    it invisible. *)
Definition writes_point (o : op) (k : key) (t : Z) : Prop :=
  match o with Write b => log_get b k t <> None | _ => False end.

Lemma step_preserves_none s o k t :
  abs s k t = None -> ~ writes_point o k t ->

  log_get (snap s) k t = None ->
  abs (fst (step s o)) k t = None /\ log_get (snap (fst (step s o))) k t = None.
Proof.
  intros HA HW HS. destruct o as [b| | | |i n|ks lo hi].
  - rewrite step_write_abs. unfold overlay. cbn in HW.
    destruct (log_get b k t); [exfalso; apply HW; discriminate|]. split; [exact HA|exact HS].
  - rewrite step_snapbegin_abs. split; [exact HA|]. cbn. destruct (snapshotting s); [exact HS|].
    destruct (snap s) eqn:E; cbn; [|exact HS].
    unfold abs in HA. destruct (log_get (hot s) k t); [discriminate|reflexivity].
  - rewrite step_snapcommit_abs. split; [exact HA|]. cbn. destruct (snapshotting s); [reflexivity|exact HS].
  - rewrite step_snapfail_abs. split; [exact HA|]. cbn. destruct (snapshotting s); exact HS.
  - rewrite step_compact_abs. split; [exact HA|]. unfold step.
    destruct (Nat.leb 1 n && Nat.leb (i + n) (length (files s)))%bool; exact HS.
  - rewrite step_delete_abs_general. split; [|exact HS].
    destruct (hit ks lo hi k t); [exact HS|exact HA].
Qed.

Lemma run_preserves_none h : forall s k t,
  abs s k t = None -> log_get (snap s) k t = None ->
  Forall (fun o => ~ writes_point o k t) h -> abs (run h s) k t = None.
Proof.
  induction h as [|o h IH]; intros s k t HA HS HF; [exact HA|].
  inversion HF as [|? ? Ho HF']; subst.
  unfold run; cbn [fold_left]. fold (run h (fst (step s o))).
  destruct (step_preserves_none s o k t HA Ho HS) as [H1 H2]. apply IH; assumption.
Qed.

Theorem no_resurrection h1 ks lo hi h2 k t :
  snap (run h1 init) = [] ->
  hit ks lo hi k t = true ->
  Forall (fun o => ~ writes_point o k t) h2 ->
  abs (run (h1 ++ Delete ks lo hi :: h2) init) k t = None.
Proof.
  intros Hs Hh HF. unfold run. rewrite fold_left_app. cbn [fold_left].
  fold (run h1 init). fold (run h2 (fst (step (run h1 init) (Delete ks lo hi)))).
  apply run_preserves_none; [| |exact HF].
  - rewrite (step_delete_abs _ _ _ _ _ _ Hs), Hh. reflexivity.
  - cbn. rewrite Hs. reflexivity.
Qed.

Theorem delete_leaves_others h1 ks lo hi k t :
  hit ks lo hi k t = false ->
  abs (run (h1 ++ [Delete ks lo hi]) init) k t = abs (run h1 init) k t.
Proof.
  intros H. unfold run. rewrite fold_left_app. cbn [fold_left]. apply step_delete_abs_other. exact H.
Qed.

(** The full statement of C03 (no hypothesis on pending snapshots) is false of the
    faithful model: a delete that falls between Cache.Snapshot and the snapshot commit
    leaves the point in the snapshot store, from where it is read and then written to a
    new TSM file without a tombstone. *)
Definition c03_witness : list op :=
  [Write [(1%N, 5%Z, 7%Z)]; SnapBegin; Delete [1%N] 0%Z 10%Z; SnapCommit].

Lemma resurrection_witness :
  abs (run c03_witness init) 1%N 5%Z = Some 7%Z /\
  read (run c03_witness init) 1%N 0%Z 10%Z true = [(5%Z, 7%Z)] /\
  spec_read (spec_log c03_witness []) 1%N 0%Z 10%Z true = [].
Proof. vm_compute. repeat split. Qed.
