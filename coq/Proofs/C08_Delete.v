(** C08 proofs: [indirectIndex.Delete] removes exactly the given keys; [DeleteRange] hides exactly
    the given key/time range (coalescing window, fully-deleted shortcut, MinInt64 wrap). *)
From Verif Require Import Base.Prelude Base.C08_BE Model.C08_File Model.C08_Index Model.C08 Proofs.C08_Search.

(** non-strictly sorted key batches (duplicates allowed) *)
Fixpoint kssorted (l : list key) : Prop :=
  match l with
  | [] => True
  | x :: r => (forall y, In y r -> kleb x y = true) /\ kssorted r
  end.

Lemma kltb_kleb a b : kltb a b = true -> kleb a b = true.
Proof. unfold kltb, kleb. destruct (kcmp a b); congruence. Qed.
Lemma kleb_refl a : kleb a a = true.
Proof. unfold kleb. rewrite kcmp_refl. reflexivity. Qed.
Lemma kleb_trans a b c : kleb a b = true -> kleb b c = true -> kleb a c = true.
Proof.
  intros H1 H2. destruct (kcmp_total a b) as [L|[->|G]]; auto.
  - apply kltb_kleb. eapply kltb_kleb_trans; eauto.
  - rewrite kleb_nlt, G in H1. discriminate.
Qed.
Lemma keqb_sym a b : keqb a b = keqb b a.
Proof. unfold keqb. rewrite (kcmp_antisym a b). destruct (kcmp a b); reflexivity. Qed.

Lemma kmem_in k ks : kmem k ks = true <-> In k ks.
Proof.
  unfold kmem. rewrite existsb_exists. split.
  - intros [x [Hx E]]. apply keqb_eq in E. subst. exact Hx.
  - intro H. exists k. split; [exact H|apply keqb_refl].
Qed.

Lemma kmem_ext k a b : (forall y, In y a <-> In y b) -> kmem k a = kmem k b.
Proof.
  intro H. destruct (kmem k a) eqn:Ea, (kmem k b) eqn:Eb; auto.
  - apply kmem_in, H, kmem_in in Ea. congruence.
  - apply kmem_in, H, kmem_in in Eb. congruence.
Qed.

Lemma ins_key_in k l y : In y (ins_key k l) <-> y = k \/ In y l.
Proof.
  induction l as [|x r IH]; cbn [ins_key].
  - cbn. intuition.
  - destruct (kltb k x); cbn [In]; [intuition|]. rewrite IH. intuition.
Qed.

Lemma ins_key_sorted k l : kssorted l -> kssorted (ins_key k l).
Proof.
  induction l as [|x r IH]; intro Hs; cbn [ins_key].
  - cbn. split; [intros ? []|exact I].
  - destruct Hs as [Hx Hs]. destruct (kltb k x) eqn:E.
    + split; [|split; assumption]. intros y [<-|Hy]; [apply kltb_kleb; exact E|].
      apply kltb_kleb. eapply kltb_kleb_trans; [exact E|apply Hx; exact Hy].
    + split; [|apply IH; exact Hs]. intros y Hy. apply ins_key_in in Hy as [->|Hy]; [|apply Hx; exact Hy].
      rewrite kleb_nlt, E. reflexivity.
Qed.

Lemma sort_keys_in l y : In y (sort_keys l) <-> In y l.
Proof.
  unfold sort_keys. induction l as [|x r IH]; cbn [fold_right]; [reflexivity|].
  rewrite ins_key_in, IH. cbn. intuition.
Qed.

Lemma sort_keys_sorted l : kssorted (sort_keys l).
Proof.
  unfold sort_keys. induction l as [|x r IH]; cbn [fold_right]; [exact I|]. apply ins_key_sorted; exact IH.
Qed.

Lemma kmem_sort k l : kmem k (sort_keys l) = kmem k l.
Proof. apply kmem_ext. intro y. apply sort_keys_in. Qed.

Lemma drop_lt_sorted ks k : kssorted ks -> kssorted (drop_lt ks k).
Proof.
  induction ks as [|x r IH]; intro Hs; cbn [drop_lt]; [exact I|].
  destruct (kltb x k); [apply IH; apply Hs|exact Hs].
Qed.

Lemma drop_lt_head ks k k1 r : drop_lt ks k = k1 :: r -> kltb k1 k = false.
Proof.
  induction ks as [|x l IH]; cbn [drop_lt]; [discriminate|].
  destruct (kltb x k) eqn:E; [exact IH|]. intro H; inversion H; subst. exact E.
Qed.

Lemma drop_lt_kmem ks k k' : kleb k k' = true -> kmem k' (drop_lt ks k) = kmem k' ks.
Proof.
  intro Hle. induction ks as [|x r IH]; cbn [drop_lt]; [reflexivity|].
  destruct (kltb x k) eqn:E; [|reflexivity].
  rewrite IH. unfold kmem at 2. cbn [existsb]. fold (kmem k' r).
  assert (Hx : kltb x k' = true) by (eapply kltb_kleb_trans; eauto).
  rewrite keqb_sym, (kltb_neq _ _ Hx). reflexivity.
Qed.

Lemma filter_all {A} (f : A -> bool) l : (forall x, In x l -> f x = true) -> filter f l = l.
Proof.
  induction l as [|x l IH]; intro H; cbn [filter]; [reflexivity|].
  rewrite (H x (or_introl eq_refl)). f_equal. apply IH. intros; apply H; right; assumption.
Qed.

Lemma kmem_above k1 ks2 k : kssorted (k1 :: ks2) -> kltb k k1 = true -> kmem k (k1 :: ks2) = false.
Proof.
  intros [H1 _] Hlt. destruct (kmem k (k1 :: ks2)) eqn:E; [|reflexivity].
  apply kmem_in in E as [<-|Hin]; [rewrite kltb_irrefl in Hlt; discriminate|].
  specialize (H1 k Hin). rewrite kleb_nlt, Hlt in H1. discriminate.
Qed.

Definition keep (ks : list key) (ik : ikey) : bool := negb (kmem (ik_key ik) ks).

Lemma del_walk_spec l : forall ks, ksorted l -> kssorted ks -> del_walk l ks = filter (keep ks) l.
Proof.
  induction l as [|ik l' IH]; intros ks Hs Hks; [reflexivity|].
  destruct Hs as [Hx Hs]. cbn [del_walk].
  destruct ks as [|k0 ks0].
  { symmetry. apply filter_all. intros; reflexivity. }
  set (ks := k0 :: ks0) in *.
  assert (Hmem : forall x, In x (ik :: l') -> kmem (ik_key x) (drop_lt ks (ik_key ik)) = kmem (ik_key x) ks).
  { intros x Hin. apply drop_lt_kmem. destruct Hin as [<-|Hin]; [apply kleb_refl|apply kltb_kleb, Hx, Hin]. }
  pose proof (drop_lt_sorted ks (ik_key ik) Hks) as Hds.
  destruct (drop_lt ks (ik_key ik)) as [|k1 ks2] eqn:Ed.
  - rewrite (IH [] Hs I). rewrite (filter_all (keep []) l') by (intros; reflexivity).
    symmetry. apply filter_all. intros x Hin. unfold keep. rewrite <- Hmem by exact Hin. reflexivity.
  - pose proof (drop_lt_head _ _ _ _ Ed) as Hh.
    cbn [filter]. unfold keep at 1. rewrite <- (Hmem ik (or_introl eq_refl)).
    destruct (keqb k1 (ik_key ik)) eqn:Ek.
    + apply keqb_eq in Ek. subst k1.
      assert (E1 : kmem (ik_key ik) (ik_key ik :: ks2) = true) by (apply kmem_in; left; reflexivity).
      rewrite E1. cbn [negb]. rewrite (IH ks2 Hs (proj2 Hds)).
      apply filter_ext_in. intros x Hin. unfold keep. rewrite <- (Hmem x (or_intror Hin)).
      unfold kmem at 2. cbn [existsb]. fold (kmem (ik_key x) ks2).
      rewrite keqb_sym, (kltb_neq _ _ (Hx x Hin)). reflexivity.
    + assert (Hlt : kltb (ik_key ik) k1 = true).
      { destruct (kcmp_total (ik_key ik) k1) as [L|[E|G]]; [exact L| |congruence].
        subst k1. rewrite keqb_refl in Ek. discriminate. }
      rewrite (kmem_above _ _ _ Hds Hlt). cbn [negb]. f_equal.
      rewrite (IH (k1 :: ks2) Hs Hds). apply filter_ext_in. intros x Hin.
      unfold keep. rewrite <- (Hmem x (or_intror Hin)). reflexivity.
Qed.

Lemma ksorted_filter f l : ksorted l -> ksorted (filter f l).
Proof.
  induction l as [|x l IH]; intro Hs; [exact I|]. destruct Hs as [Hx Hs]. cbn [filter].
  destruct (f x); [|apply IH; exact Hs]. split; [|apply IH; exact Hs].
  intros y Hy. apply filter_In in Hy as [Hy _]. apply Hx; exact Hy.
Qed.

Lemma in_firstn_nth {A} (d : A) n l x : In x (firstn n l) -> exists p, (p < n)%nat /\ (p < length l)%nat /\ nth p l d = x.
Proof.
  revert l; induction n as [|n IH]; intros l Hin; [destruct Hin|].
  destruct l as [|y l]; [destruct Hin|]. cbn [firstn] in Hin. destruct Hin as [<-|Hin].
  - exists 0%nat. cbn. repeat split; lia.
  - destruct (IH l Hin) as [p [H1 [H2 H3]]]. exists (S p). cbn. repeat split; try lia. exact H3.
Qed.

(** Delete removes exactly the given keys from the live key list and nothing else changes *)
Lemma index_delete_keys ix ks : wf_index ix ->
  ix_keys (index_delete ix ks) = filter (keep ks) (ix_keys ix).
Proof.
  intros [Hs Hr]. unfold index_delete. destruct ks as [|k0 ks0].
  { symmetry. apply filter_all. intros; reflexivity. }
  set (ks := k0 :: ks0). cbn [ix_keys].
  set (sk := sort_keys ks).
  assert (Hsk : kssorted sk) by apply sort_keys_sorted.
  assert (Hkeep : forall x, keep ks x = keep sk x) by (intro x; unfold keep, sk; rewrite kmem_sort; reflexivity).
  rewrite (filter_ext _ _ Hkeep).
  set (l := ix_keys ix) in *. set (start := search_offset l (hd [] sk)).
  rewrite <- (firstn_skipn start l) at 3. rewrite filter_app.
  assert (Hsuf : ksorted (skipn start l)).
  { rewrite <- (firstn_skipn start l) in Hs. apply ksorted_app_inv in Hs. tauto. }
  rewrite del_walk_spec by assumption. f_equal.
  symmetry. apply filter_all. intros x Hin.
  assert (Hne : l <> []) by (intro E0; rewrite E0, firstn_nil in Hin; destruct Hin).
  destruct (in_firstn_nth dk _ _ _ Hin) as [p [Hp [_ Hnth]]].
  destruct (search_offset_pos l (hd [] sk) Hs Hne) as [_ [HL _]]. specialize (HL p Hp).
  rewrite nth_key_eq, Hnth in HL.
  unfold keep. destruct sk as [|s0 sr] eqn:Esk; [reflexivity|]. cbn [hd] in HL.
  rewrite (kmem_above _ _ _ Hsk HL). reflexivity.
Qed.

Lemma index_delete_static ix ks :
  ix_minkey (index_delete ix ks) = ix_minkey ix /\ ix_maxkey (index_delete ix ks) = ix_maxkey ix /\
  ix_mintime (index_delete ix ks) = ix_mintime ix /\ ix_maxtime (index_delete ix ks) = ix_maxtime ix /\
  ix_tombs (index_delete ix ks) = ix_tombs ix.
Proof. unfold index_delete. destruct ks; repeat split; reflexivity. Qed.

Lemma index_delete_wf ix ks : wf_index ix -> wf_index (index_delete ix ks).
Proof.
  intro H. pose proof (index_delete_keys ix ks H) as Hk. destruct H as [Hs Hr].
  destruct (index_delete_static ix ks) as [E1 [E2 _]].
  split.
  - rewrite Hk. apply ksorted_filter; exact Hs.
  - intros ik Hin. rewrite Hk in Hin. apply filter_In in Hin as [Hin _]. rewrite E1, E2. apply Hr; exact Hin.
Qed.

(** visibility after Delete *)
Lemma sp_find_filter f l k : ksorted l ->
  sp_find (filter f l) k = match sp_find l k with Some ik => if f ik then Some ik else None | None => None end.
Proof.
  intro Hs. destruct (sp_find l k) as [ik|] eqn:E.
  - apply sp_find_in in E as [Hin Hk]. destruct (f ik) eqn:Ef.
    + apply sp_find_sorted; [apply ksorted_filter; exact Hs|apply filter_In; auto|exact Hk].
    + destruct (sp_find (filter f l) k) as [ik'|] eqn:E'; [|reflexivity].
      apply sp_find_in in E' as [Hin' Hk']. apply filter_In in Hin' as [Hin' Hf'].
      assert (ik' = ik); [|congruence].
      pose proof (sp_find_sorted l k ik Hs Hin Hk) as A. pose proof (sp_find_sorted l k ik' Hs Hin' Hk') as B. congruence.
  - destruct (sp_find (filter f l) k) as [ik'|] eqn:E'; [|reflexivity].
    apply sp_find_in in E' as [Hin' Hk']. apply filter_In in Hin' as [Hin' _].
    rewrite (sp_find_sorted l k ik' Hs Hin' Hk') in E. discriminate.
Qed.

Lemma index_delete_cv ix ks k t : wf_index ix ->
  contains_value (index_delete ix ks) k t = contains_value ix k t && negb (kmem k ks).
Proof.
  intro Hwf. rewrite !contains_value_spec by (try apply index_delete_wf; exact Hwf).
  destruct (index_delete_static ix ks) as [_ [_ [_ [_ Et]]]]. rewrite Et.
  unfold sp_entries. rewrite index_delete_keys by exact Hwf. rewrite sp_find_filter by apply Hwf.
  destruct (sp_find (ix_keys ix) k) as [ik|] eqn:E; [|reflexivity].
  apply sp_find_in in E as [_ Hk]. unfold keep. rewrite Hk.
  destruct (kmem k ks); cbn [negb]; [cbn; rewrite andb_false_r; reflexivity|rewrite andb_true_r; reflexivity].
Qed.

(** ** DeleteRange *)
From Coq Require Import ZifyBool.

Definition covers (l : list trange) (t : Z) : bool := existsb (in_range t) l.
Fixpoint tdom (k : key) (m : tombs) : bool :=
  match m with [] => false | (k', _) :: r => keqb k' k || tdom k r end.
Fixpoint tnodup (m : tombs) : Prop :=
  match m with [] => True | (k, _) :: r => tdom k r = false /\ tnodup r end.

Lemma keqb_trans_false a b c : keqb a b = true -> keqb a c = false -> keqb b c = false.
Proof. intros H1 H2. apply keqb_eq in H1. subst. exact H2. Qed.

Lemma tomb_get_set k k' v m : tomb_get k (tomb_set k' v m) = if keqb k' k then v else tomb_get k m.
Proof.
  induction m as [|[k0 v0] r IH]; cbn [tomb_set tomb_get]; [reflexivity|].
  destruct (keqb k0 k') eqn:E0; cbn [tomb_get].
  - apply keqb_eq in E0. subst k0. destruct (keqb k' k); reflexivity.
  - rewrite IH. destruct (keqb k0 k) eqn:E1; [|reflexivity].
    apply keqb_eq in E1. subst k0. rewrite keqb_sym, E0. reflexivity.
Qed.

Lemma tdom_set k k' v m : tdom k (tomb_set k' v m) = keqb k' k || tdom k m.
Proof.
  induction m as [|[k0 v0] r IH]; cbn [tomb_set tdom]; [reflexivity|].
  destruct (keqb k0 k') eqn:E0; cbn [tdom].
  - apply keqb_eq in E0. subst k0. destruct (keqb k' k); reflexivity.
  - rewrite IH. destruct (keqb k0 k), (keqb k' k); reflexivity.
Qed.

Lemma tdom_false_get k m : tdom k m = false -> tomb_get k m = [].
Proof.
  induction m as [|[k0 v0] r IH]; cbn [tdom tomb_get]; [reflexivity|].
  intro H. apply orb_false_iff in H as [H1 H2]. rewrite H1. apply IH; exact H2.
Qed.

Lemma tnodup_set k v m : tnodup m -> tnodup (tomb_set k v m).
Proof.
  induction m as [|[k0 v0] r IH]; cbn [tomb_set tnodup]; intro H; [auto|].
  destruct H as [H1 H2]. destruct (keqb k0 k) eqn:E0; cbn [tnodup]; [auto|].
  split; [|apply IH; exact H2]. rewrite tdom_set, H1. rewrite keqb_sym, E0. reflexivity.
Qed.

Definition fold_set (upd m : tombs) : tombs := fold_left (fun m kv => tomb_set (fst kv) (snd kv) m) upd m.

Lemma fold_set_get upd : tnodup upd -> forall m k,
  tomb_get k (fold_set upd m) = if tdom k upd then tomb_get k upd else tomb_get k m.
Proof.
  unfold fold_set. induction upd as [|[k0 v0] r IH]; intros Hn m k; [reflexivity|].
  destruct Hn as [H1 H2]. cbn [fold_left fst snd tdom tomb_get]. rewrite IH by exact H2.
  rewrite tomb_get_set. destruct (keqb k0 k) eqn:E0; cbn [orb].
  - apply keqb_eq in E0. subst k0. rewrite H1. reflexivity.
  - destruct (tdom k r); reflexivity.
Qed.

(** sorting the ranges keeps the set and orders it by Min *)
Fixpoint trs_sorted (l : list trange) : Prop :=
  match l with [] => True | x :: r => (forall y, In y r -> (fst x <= fst y)%Z) /\ trs_sorted r end.

Lemma ins_tr_in a l y : In y (ins_tr a l) <-> y = a \/ In y l.
Proof.
  induction l as [|x r IH]; cbn [ins_tr]; [cbn; intuition|].
  destruct (tr_le a x); cbn [In]; [intuition|]. rewrite IH. intuition.
Qed.

Lemma ins_tr_sorted a l : trs_sorted l -> trs_sorted (ins_tr a l).
Proof.
  induction l as [|x r IH]; intro Hs; cbn [ins_tr]; [cbn; split; [intros ? []|exact I]|].
  destruct Hs as [Hx Hs]. destruct (tr_le a x) eqn:E; unfold tr_le in E.
  - split; [|split; assumption]. intros y [<-|Hy]; [|specialize (Hx y Hy)]; destruct (Z.eqb_spec (fst a) (fst x)); lia.
  - split; [|apply IH; exact Hs]. intros y Hy. apply ins_tr_in in Hy as [->|Hy]; [|apply Hx; exact Hy].
    destruct (Z.eqb_spec (fst a) (fst x)); lia.
Qed.

Lemma sort_tr_in l y : In y (sort_tr l) <-> In y l.
Proof.
  unfold sort_tr. induction l as [|x r IH]; cbn [fold_right]; [reflexivity|].
  rewrite ins_tr_in, IH. cbn. intuition.
Qed.
Lemma sort_tr_sorted l : trs_sorted (sort_tr l).
Proof. unfold sort_tr. induction l as [|x r IH]; cbn [fold_right]; [exact I|]. apply ins_tr_sorted; exact IH. Qed.

Lemma existsb_in_iff {A} (f : A -> bool) a b : (forall y, In y a <-> In y b) -> existsb f a = existsb f b.
Proof.
  intro H. destruct (existsb f a) eqn:Ea, (existsb f b) eqn:Eb; auto.
  - apply existsb_exists in Ea as [x [Hx Hf]]. apply H in Hx.
    assert (existsb f b = true) by (apply existsb_exists; eauto). congruence.
  - apply existsb_exists in Eb as [x [Hx Hf]]. apply H in Hx.
    assert (existsb f a = true) by (apply existsb_exists; eauto). congruence.
Qed.

Lemma covers_sort l t : covers (sort_tr l) t = covers l t.
Proof. apply existsb_in_iff. intro; apply sort_tr_in. Qed.
Lemma covers_app a b t : covers (a ++ b) t = covers a t || covers b t.
Proof. apply existsb_app. Qed.

(** the coalescing window only ever covers times that some range covers *)
Lemma coalesce_cover l : forall prev mn mx seen,
  (forall t, in_i64 t -> (mn <= t <= mx)%Z -> covers seen t = true) ->
  (snd prev <= mx)%Z -> (forall y, In y l -> (mn <= fst y)%Z) ->
  forall t, in_i64 t ->
    (fst (coalesce prev mn mx l) <= t <= snd (coalesce prev mn mx l))%Z -> covers (seen ++ l) t = true.
Proof.
  induction l as [|ts r IH]; intros prev mn mx seen Hseen Hprev Hmn t Ht Hw; cbn [coalesce] in Hw.
  - rewrite app_nil_r. apply Hseen; assumption.
  - destruct (negb (snd prev =? dec64 (fst ts))%Z && negb (tr_overlaps prev (fst ts) (snd ts))) eqn:Eab.
    + cbn [fst snd] in Hw. unfold MaxInt64, MinInt64 in Hw. lia.
    + replace (seen ++ ts :: r) with ((seen ++ [ts]) ++ r) by (rewrite <- app_assoc; reflexivity).
      assert (Hmn' : Z.min mn (fst ts) = mn) by (specialize (Hmn ts (or_introl eq_refl)); lia).
      rewrite Hmn' in Hw.
      apply (IH ts mn (Z.max mx (snd ts)) (seen ++ [ts])); auto; try lia.
      * intros u Hu Hr. rewrite covers_app.
        destruct (Z.leb_spec u mx) as [Hle|Hgt]; [rewrite Hseen by (auto; lia); reflexivity|].
        apply orb_true_iff; right. cbn. rewrite orb_false_r. unfold in_range.
        assert (Hlo : (fst ts <= u)%Z).
        { apply andb_false_iff in Eab as [E|E]; apply negb_false_iff in E.
          - apply Z.eqb_eq in E. unfold dec64 in E. unfold in_i64, MaxInt64, MinInt64 in *.
            destruct (Z.eqb_spec (fst ts) (-9223372036854775808)); lia.
          - unfold tr_overlaps in E. lia. }
        lia.
      * intros y Hy. apply Hmn. right; exact Hy.
Qed.

Lemma window_cover l t : trs_sorted l -> in_i64 t ->
  (fst (window l) <= t <= snd (window l))%Z -> covers l t = true.
Proof.
  intros Hs Ht Hw. destruct l as [|r0 r]; cbn [window] in Hw.
  - cbn [fst snd] in Hw. unfold MaxInt64, MinInt64 in Hw. lia.
  - destruct Hs as [H0 Hs].
    apply (coalesce_cover r r0 (fst r0) (snd r0) [r0]); auto; try lia.
    intros u _ Hu. cbn. unfold in_range. rewrite orb_false_r. lia.
Qed.

(** per-key facts *)
Definition hits (ik : ikey) (t : Z) : bool := existsb (fun e => e_contains e t) (ik_ents ik).
Definition dead (old : tombs) (ik : ikey) (lo hi : Z) : Prop :=
  forall t, in_i64 t -> hits ik t = true ->
    in_range t (lo, hi) || covers (tomb_get (ik_key ik) old) t = true.

Lemma hits_span ik t : wf_ents ik -> hits ik t = true -> (first_min ik <= t <= last_max ik)%Z.
Proof.
  intros [_ Hb] H. unfold hits in H. apply existsb_exists in H as [e [He Hc]].
  specialize (Hb e He). unfold e_contains in Hc. lia.
Qed.

Lemma dr_key_spec old upd ik lo hi isfull upd1 :
  wf_ents ik -> tdom (ik_key ik) upd = false -> dr_key old upd ik lo hi = (isfull, upd1) ->
  (forall k', keqb (ik_key ik) k' = false -> tdom k' upd1 = tdom k' upd /\ tomb_get k' upd1 = tomb_get k' upd) /\
  (isfull = true -> dead old ik lo hi) /\
  ((upd1 = upd /\ (isfull = false -> forall t, hits ik t = true -> in_range t (lo, hi) = false))
   \/ (tdom (ik_key ik) upd1 = true /\
       forall t, covers (tomb_get (ik_key ik) upd1) t = covers (tomb_get (ik_key ik) old) t || in_range t (lo, hi))).
Proof.
  intros Hwf Hdom. pose proof (hits_span ik) as Hspan. unfold dr_key, first_min in *.
  destruct Hwf as [Hne Hb]. destruct (ik_ents ik) as [|e0 er] eqn:Ee; [congruence|].
  set (mn := emin e0) in *. set (mx := last_max ik) in *.
  assert (Hsp : forall t, hits ik t = true -> (mn <= t <= mx)%Z).
  { intros t Ht. apply Hspan; [|exact Ht]. split; [rewrite Ee; discriminate|]. rewrite Ee. exact Hb. }
  destruct ((lo >? mx)%Z || (hi <? mn)%Z) eqn:Eout.
  { intro E; inversion E; subst. repeat split; auto; [discriminate|].
    left. split; [reflexivity|]. intros _ t Ht. specialize (Hsp t Ht). unfold in_range; cbn [fst snd]. lia. }
  destruct ((lo <=? mn)%Z && (mx <=? hi)%Z) eqn:Ecov.
  { intro E; inversion E; subst. repeat split; auto.
    - intros _ t _ Ht. specialize (Hsp t Ht). unfold in_range; cbn [fst snd]. apply orb_true_iff; left. lia.
    - left. split; [reflexivity|discriminate]. }
  rewrite (tdom_false_get _ _ Hdom). cbn [app].
  set (newTs := sort_tr (tomb_get (ik_key ik) old ++ [(lo, hi)])).
  destruct (window newTs) as [wmn wmx] eqn:Ew.
  intro E; inversion E; subst isfull upd1; clear E.
  assert (Hcov : forall t, covers newTs t = covers (tomb_get (ik_key ik) old) t || in_range t (lo, hi)).
  { intro t. unfold newTs. rewrite covers_sort, covers_app. cbn. rewrite orb_false_r. reflexivity. }
  repeat split.
  - rewrite tdom_set, H. reflexivity.
  - rewrite tomb_get_set, H. reflexivity.
  - intros Hfull t Ht Hh. specialize (Hsp t Hh). rewrite orb_comm, <- Hcov.
    apply window_cover; [apply sort_tr_sorted|exact Ht|]. rewrite Ew. cbn [fst snd]. lia.
  - right. split; [rewrite tdom_set, keqb_refl; reflexivity|].
    intro t. rewrite tomb_get_set, keqb_refl. apply Hcov.
Qed.

Lemma dr_key_nodup old upd ik lo hi : tnodup upd -> tnodup (snd (dr_key old upd ik lo hi)).
Proof.
  intro H. unfold dr_key. destruct (ik_ents ik); [exact H|].
  destruct (_ || _); [exact H|]. destruct (_ && _); [exact H|].
  destruct (window _). cbn [snd]. apply tnodup_set; exact H.
Qed.

Lemma drop_lt_incl ks x k : In k (drop_lt ks x) -> In k ks.
Proof.
  induction ks as [|y r IH]; cbn [drop_lt]; [auto|]. destruct (kltb y x); [right; auto|auto].
Qed.

Lemma kmem_incl k a b : (forall y, In y a -> In y b) -> kmem k a = true -> kmem k b = true.
Proof. intros H Ha. apply kmem_in. apply H. apply kmem_in. exact Ha. Qed.

Lemma ksorted_head_neq ik l' x : ksorted (ik :: l') -> In x l' -> keqb (ik_key ik) (ik_key x) = false.
Proof. intros [Hx _] Hin. apply kltb_neq. apply Hx; exact Hin. Qed.

Definition dr_post (old : tombs) (lo hi : Z) (l : list ikey) (ks : list key)
           (full : list key) (upd : tombs) (full' : list key) (upd' : tombs) : Prop :=
  tnodup upd' /\
  (forall k, In k full -> In k full') /\
  (forall k, In k full' -> In k full \/
     (kmem k ks = true /\ exists ik, In ik l /\ ik_key ik = k /\ dead old ik lo hi)) /\
  (forall k, (forall ik, In ik l -> keqb (ik_key ik) k = false) ->
     tdom k upd' = tdom k upd /\ tomb_get k upd' = tomb_get k upd) /\
  (forall ik, In ik l ->
     (tdom (ik_key ik) upd' = false /\
      (kmem (ik_key ik) ks = true -> ~ In (ik_key ik) full' ->
       forall t, hits ik t = true -> in_range t (lo, hi) = false))
     \/ (tdom (ik_key ik) upd' = true /\ kmem (ik_key ik) ks = true /\
         forall t, covers (tomb_get (ik_key ik) upd') t
                   = covers (tomb_get (ik_key ik) old) t || in_range t (lo, hi))).

Lemma dr_post_stop old lo hi l ks full upd :
  tnodup upd -> (forall x, In x l -> tdom (ik_key x) upd = false) ->
  (forall x, In x l -> kmem (ik_key x) ks = false) ->
  dr_post old lo hi l ks full upd full upd.
Proof.
  intros Hn Hd Hm. repeat split; auto.
  intros ik Hin. left. split; [apply Hd; exact Hin|]. intro H. rewrite (Hm ik Hin) in H. discriminate.
Qed.

Lemma dr_walk_spec old lo hi l : forall ks full upd full' upd',
  ksorted l -> kssorted ks -> Forall wf_ents l ->
  (forall x, In x l -> tdom (ik_key x) upd = false) -> tnodup upd ->
  dr_walk old l ks lo hi full upd = (full', upd') ->
  dr_post old lo hi l ks full upd full' upd'.
Proof.
  induction l as [|ik l' IH]; intros ks full upd full' upd' Hs Hks Hwf Hd Hn Hrun.
  { cbn in Hrun. inversion Hrun; subst. apply dr_post_stop; auto. intros ? []. }
  cbn [dr_walk] in Hrun.
  destruct ks as [|k0 ks0].
  { inversion Hrun; subst. apply dr_post_stop; auto. }
  set (ks := k0 :: ks0) in *.
  assert (Hmem : forall x, In x (ik :: l') -> kmem (ik_key x) (drop_lt ks (ik_key ik)) = kmem (ik_key x) ks).
  { intros x Hin. apply drop_lt_kmem. destruct Hin as [<-|Hin]; [apply kleb_refl|apply kltb_kleb, Hs, Hin]. }
  pose proof (drop_lt_sorted ks (ik_key ik) Hks) as Hds.
  pose proof (drop_lt_incl ks (ik_key ik)) as Hincl.
  destruct (drop_lt ks (ik_key ik)) as [|k1 ks2] eqn:Ed.
  { inversion Hrun; subst. apply dr_post_stop; auto. intros x Hin. rewrite <- Hmem by exact Hin. reflexivity. }
  pose proof (drop_lt_head _ _ _ _ Ed) as Hh.
  assert (Hs' : ksorted l') by apply Hs.
  assert (Hwf' : Forall wf_ents l') by (inversion Hwf; assumption).
  assert (Hwfik : wf_ents ik) by (inversion Hwf; assumption).
  assert (Hneq : forall x, In x l' -> keqb (ik_key ik) (ik_key x) = false) by (intros; eapply ksorted_head_neq; eauto).
  assert (Hneq' : forall x, In x l' -> keqb (ik_key x) (ik_key ik) = false) by (intros; rewrite keqb_sym; auto).
  destruct (kltb (ik_key ik) k1) eqn:Elt.
  - (* the batch has no entry for this index key *)
    destruct (IH (k1 :: ks2) full upd full' upd' Hs' Hds Hwf' (fun x Hx => Hd x (or_intror Hx)) Hn Hrun)
      as [P1 [P2 [P3 [P4 P5]]]].
    split; [exact P1|]. split; [exact P2|]. split; [|split].
    + intros k Hk. destruct (P3 k Hk) as [H|[Hm [x [Hx [Hxk Hdead]]]]]; [left; exact H|right].
      split; [eapply kmem_incl; [exact Hincl|exact Hm]|]. exists x. split; [right; exact Hx|split; assumption].
    + intros k Hk. apply P4. intros x Hx. apply Hk. right; exact Hx.
    + intros x [<-|Hx].
      * left. destruct (P4 (ik_key ik) Hneq') as [Q1 _]. split; [rewrite Q1; apply Hd; left; reflexivity|].
        intro Hm. rewrite <- (Hmem ik (or_introl eq_refl)) in Hm. rewrite (kmem_above _ _ _ Hds Elt) in Hm. discriminate.
      * rewrite <- (Hmem x (or_intror Hx)). apply P5; exact Hx.
  - (* keys[0] = index key *)
    assert (Ek1 : k1 = ik_key ik).
    { destruct (kcmp_total (ik_key ik) k1) as [L|[E|G]]; [congruence|auto|congruence]. }
    subst k1.
    assert (Hmik : kmem (ik_key ik) ks = true).
    { apply kmem_in. apply Hincl. left; reflexivity. }
    assert (Hmem2 : forall x, In x l' -> kmem (ik_key x) ks2 = kmem (ik_key x) ks).
    { intros x Hx. rewrite <- (Hmem x (or_intror Hx)). unfold kmem at 2. cbn [existsb]. fold (kmem (ik_key x) ks2).
      rewrite (Hneq' x Hx). reflexivity. }
    destruct (dr_key old upd ik lo hi) as [isfull upd1] eqn:Ekey.
    pose proof (dr_key_nodup old upd ik lo hi Hn) as Hn1. rewrite Ekey in Hn1. cbn [snd] in Hn1.
    destruct (dr_key_spec old upd ik lo hi isfull upd1 Hwfik (Hd ik (or_introl eq_refl)) Ekey) as [K1 [K2 K3]].
    assert (Hd1 : forall x, In x l' -> tdom (ik_key x) upd1 = false).
    { intros x Hx. destruct (K1 (ik_key x) (Hneq x Hx)) as [Q _]. rewrite Q. apply Hd. right; exact Hx. }
    destruct isfull.
    + destruct (IH ks2 (full ++ [ik_key ik]) upd1 full' upd' Hs' (proj2 Hds) Hwf' Hd1 Hn1 Hrun)
        as [P1 [P2 [P3 [P4 P5]]]].
      assert (Hinfull : In (ik_key ik) full') by (apply P2; apply in_or_app; right; left; reflexivity).
      split; [exact P1|]. split; [intros k Hk; apply P2; apply in_or_app; left; exact Hk|]. split; [|split].
      * intros k Hk. destruct (P3 k Hk) as [H|[Hm [x [Hx [Hxk Hdead]]]]].
        -- apply in_app_or in H as [H|[<-|[]]]; [left; exact H|right].
           split; [exact Hmik|]. exists ik. repeat split; auto. left; reflexivity.
        -- right. split.
           ++ eapply kmem_incl; [|exact Hm]. intros y Hy. apply Hincl. right; exact Hy.
           ++ exists x. split; [right; exact Hx|split; assumption].
      * intros k Hk. destruct (P4 k (fun x Hx => Hk x (or_intror Hx))) as [Q1 Q2].
        destruct (K1 k (Hk ik (or_introl eq_refl))) as [R1 R2]. split; congruence.
      * intros x [<-|Hx].
        -- destruct (P4 (ik_key ik) Hneq') as [Q1 Q2].
           destruct K3 as [[-> _]|[T1 T2]].
           ++ left. split; [rewrite Q1; apply Hd; left; reflexivity|]. intros _ Hnot. contradiction.
           ++ right. split; [rewrite Q1; exact T1|]. split; [exact Hmik|]. intro t. rewrite Q2. apply T2.
        -- rewrite <- (Hmem2 x Hx). apply P5; exact Hx.
    + destruct (IH (ik_key ik :: ks2) full upd1 full' upd' Hs' Hds Hwf' Hd1 Hn1 Hrun)
        as [P1 [P2 [P3 [P4 P5]]]].
      split; [exact P1|]. split; [exact P2|]. split; [|split].
      * intros k Hk. destruct (P3 k Hk) as [H|[Hm [x [Hx [Hxk Hdead]]]]]; [left; exact H|right].
        split; [eapply kmem_incl; [exact Hincl|exact Hm]|]. exists x. split; [right; exact Hx|split; assumption].
      * intros k Hk. destruct (P4 k (fun x Hx => Hk x (or_intror Hx))) as [Q1 Q2].
        destruct (K1 k (Hk ik (or_introl eq_refl))) as [R1 R2]. split; congruence.
      * intros x [<-|Hx].
        -- destruct (P4 (ik_key ik) Hneq') as [Q1 Q2].
           destruct K3 as [[-> K3]|[T1 T2]].
           ++ left. split; [rewrite Q1; apply Hd; left; reflexivity|]. intros _ _. apply K3. reflexivity.
           ++ right. split; [rewrite Q1; exact T1|]. split; [exact Hmik|]. intro t. rewrite Q2. apply T2.
        -- rewrite <- (Hmem x (or_intror Hx)). apply P5; exact Hx.
Qed.

(** ** the theorem *)
Definition times_in_range (ix : index) : Prop :=
  forall ik e, In ik (ix_keys ix) -> In e (ik_ents ik) ->
    (ix_mintime ix <= emin e)%Z /\ (emax e <= ix_maxtime ix)%Z.
Definition wf_dr (ix : index) : Prop := wf_index ix /\ Forall wf_ents (ix_keys ix) /\ times_in_range ix.

Lemma in_range_full t : in_i64 t -> in_range t (MinInt64, MaxInt64) = true.
Proof. unfold in_i64, in_range. cbn [fst snd]. lia. Qed.

Lemma set_tombs_wf ix m : wf_index ix -> wf_index (set_tombs ix m).
Proof. intros [A B]. split; [exact A|exact B]. Qed.

Lemma full_delete_keys ix full : wf_index ix ->
  let ix1 := match full with [] => ix | _ => index_delete ix full end in
  ix_keys ix1 = filter (keep full) (ix_keys ix) /\ ix_tombs ix1 = ix_tombs ix /\ wf_index ix1 /\
  ix_minkey ix1 = ix_minkey ix /\ ix_maxkey ix1 = ix_maxkey ix /\
  ix_mintime ix1 = ix_mintime ix /\ ix_maxtime ix1 = ix_maxtime ix.
Proof.
  intro Hwf. destruct full as [|f0 fr]; cbv zeta.
  - split; [symmetry; apply filter_all; intros; reflexivity|]. split; [reflexivity|].
    split; [exact Hwf|]. repeat split.
  - destruct (index_delete_static ix (f0 :: fr)) as [A [B [C [D E]]]].
    split; [apply index_delete_keys; exact Hwf|]. split; [exact E|].
    split; [apply index_delete_wf; exact Hwf|]. repeat split; assumption.
Qed.

Lemma delete_range_hides ix ks lo hi k t : wf_dr ix -> in_i64 t ->
  contains_value (index_delete_range ix ks lo hi) k t
  = contains_value ix k t && negb (kmem k ks && in_range t (lo, hi)).
Proof.
  intros [Hwf [Hents Htr]] Ht. unfold index_delete_range.
  destruct ks as [|k0 ks0]; [cbn; rewrite andb_true_r; reflexivity|].
  set (ks := k0 :: ks0). set (sk := sort_keys ks).
  assert (Hkm : kmem k ks = kmem k sk) by (unfold sk; rewrite kmem_sort; reflexivity).
  rewrite Hkm.
  destruct ((lo =? MinInt64)%Z && (hi =? MaxInt64)%Z) eqn:Efull.
  { apply andb_true_iff in Efull as [E1 E2]. apply Z.eqb_eq in E1, E2. subst lo hi.
    rewrite index_delete_cv by exact Hwf. rewrite in_range_full by exact Ht. rewrite andb_true_r. reflexivity. }
  assert (Hcv : contains_value ix k t =
                match sp_find (ix_keys ix) k with
                | Some ik => hits ik t && negb (covers (tomb_get k (ix_tombs ix)) t)
                | None => false end).
  { rewrite contains_value_spec by exact Hwf. unfold sp_entries. destruct (sp_find (ix_keys ix) k); reflexivity. }
  destruct ((lo >? ix_maxtime ix)%Z || (hi <? ix_mintime ix)%Z) eqn:Eout.
  { rewrite Hcv. destruct (sp_find (ix_keys ix) k) as [ik|] eqn:Ef; [|reflexivity].
    apply sp_find_in in Ef as [Hin Hk].
    destruct (hits ik t) eqn:Eh; [|reflexivity].
    assert (in_range t (lo, hi) = false).
    { unfold hits in Eh. apply existsb_exists in Eh as [e [He Hc]].
      destruct (Htr ik e Hin He). unfold e_contains in Hc. unfold in_range; cbn [fst snd]. lia. }
    rewrite H, andb_false_r, andb_true_r. reflexivity. }
  destruct (dr_walk (ix_tombs ix) (ix_keys ix) sk lo hi [] []) as [full upd] eqn:Ewalk.
  destruct (dr_walk_spec (ix_tombs ix) lo hi (ix_keys ix) sk [] [] full upd (proj1 Hwf) (sort_keys_sorted ks) Hents
              (fun _ _ => eq_refl) I Ewalk) as [P1 [_ [P3 [_ P5]]]].
  destruct (full_delete_keys ix full Hwf) as [Q1 [Q2 [Q3 _]]]. cbv zeta in Q1, Q2, Q3.
  set (ix1 := match full with [] => ix | _ => index_delete ix full end) in *.
  rewrite contains_value_spec by (apply set_tombs_wf; exact Q3).
  cbn [set_tombs ix_keys ix_tombs]. rewrite Q1, Q2. fold (fold_set upd (ix_tombs ix)).
  rewrite fold_set_get by exact P1. unfold sp_entries. rewrite sp_find_filter by apply Hwf.
  rewrite Hcv.
  destruct (sp_find (ix_keys ix) k) as [ik|] eqn:Ef; [|reflexivity].
  pose proof Ef as Ef'. apply sp_find_in in Ef' as [Hin Hk]. subst k.
  fold (hits ik t). fold (covers (if tdom (ik_key ik) upd then tomb_get (ik_key ik) upd else tomb_get (ik_key ik) (ix_tombs ix)) t).
  unfold keep. destruct (kmem (ik_key ik) full) eqn:Ekf; cbn [negb].
  - (* the key was dropped from the index *)
    cbn [existsb andb]. apply kmem_in in Ekf. destruct (P3 _ Ekf) as [[]|[Hm [x [Hx [Hxk Hdead]]]]].
    assert (x = ik).
    { pose proof (sp_find_sorted _ _ x (proj1 Hwf) Hx Hxk) as A. congruence. }
    subst x. rewrite Hm. cbn [andb].
    destruct (hits ik t) eqn:Eh; [|reflexivity]. specialize (Hdead t Ht Eh).
    destruct (covers (tomb_get (ik_key ik) (ix_tombs ix)) t); cbn [negb andb]; [reflexivity|].
    rewrite orb_false_r in Hdead. rewrite Hdead. reflexivity.
  - fold (hits ik t).
    assert (Hnot : ~ In (ik_key ik) full) by (intro H; apply kmem_in in H; congruence).
    destruct (P5 ik Hin) as [[T1 T2]|[T1 [T2 T3]]]; rewrite T1.
    + destruct (hits ik t) eqn:Eh; [|reflexivity]. cbn [andb].
      destruct (kmem (ik_key ik) sk) eqn:Em; cbn [andb negb]; [|rewrite andb_true_r; reflexivity].
      rewrite (T2 eq_refl Hnot t Eh). cbn [negb]. rewrite andb_true_r. reflexivity.
    + rewrite T3, T2. cbn [andb]. rewrite negb_orb, andb_assoc. reflexivity.
Qed.

(** well-formedness is preserved, so the theorem applies to any sequence of deletes *)
Lemma index_delete_range_wf ix ks lo hi : wf_dr ix -> wf_dr (index_delete_range ix ks lo hi).
Proof.
  intros [Hwf [Hents Htr]].
  assert (Hsub : forall ix', (forall ik, In ik (ix_keys ix') -> In ik (ix_keys ix)) -> wf_index ix' ->
                 ix_mintime ix' = ix_mintime ix -> ix_maxtime ix' = ix_maxtime ix -> wf_dr ix').
  { intros ix' Hin Hw E1 E2. split; [exact Hw|]. split.
    - apply Forall_forall. intros ik Hik. rewrite Forall_forall in Hents. apply Hents, Hin, Hik.
    - intros ik e Hik He. rewrite E1, E2. exact (Htr ik e (Hin ik Hik) He). }
  assert (Hdel : forall ks', wf_dr (index_delete ix ks')).
  { intro ks'. destruct (index_delete_static ix ks') as [_ [_ [C [D _]]]].
    apply Hsub; auto; [|apply index_delete_wf; exact Hwf].
    intros ik Hik. rewrite index_delete_keys in Hik by exact Hwf. apply filter_In in Hik. tauto. }
  assert (Hid : wf_dr ix) by (split; [exact Hwf|split; assumption]).
  unfold index_delete_range. destruct ks as [|k0 ks0]; [exact Hid|].
  destruct (_ && _); [apply Hdel|]. destruct (_ || _); [exact Hid|].
  destruct (dr_walk _ _ _ _ _ _ _) as [full upd].
  destruct (full_delete_keys ix full Hwf) as [Q1 [Q2 [Q3 [_ [_ [Q6 Q7]]]]]]. cbv zeta in *.
  apply Hsub; cbn [set_tombs ix_keys ix_mintime ix_maxtime]; auto.
  intros ik Hik. rewrite Q1 in Hik. apply filter_In in Hik. tauto.
Qed.

Lemma index_of_wf_dr all : ksorted all -> Forall wf_ents all -> wf_dr (index_of all).
Proof.
  intros Hs Hents. split; [apply index_of_wf; exact Hs|]. split; [exact Hents|].
  intros ik e Hik He. cbn [index_of ix_keys ix_mintime ix_maxtime] in *.
  rewrite Forall_forall in Hents. destruct (Hents ik Hik) as [_ Hb]. specialize (Hb e He).
  destruct (fold_min_spec first_min all MaxInt64) as [_ [A _]].
  destruct (fold_max_spec last_max all MinInt64) as [_ [B _]]. cbv zeta in *.
  specialize (A ik Hik). specialize (B ik Hik). lia.
Qed.
