(** C38 — Shard backup and restore preserve data.  Property theorems only.

    Statement: "Backing up a shard and restoring the archive into an empty shard yields the
    same readable points and series; an incremental backup taken since time t contains
    every file changed after t; an export of a time range contains exactly the points in
    that range."

    FULL statements that the faithful model REFUTES (and the real code fails, see
    findings.d/C38.json):
      (1) forall reachable quiescent s, abs (restore (full backup s)) = abs s
          — false as soon as a TSM file carries a tombstone that hides a point: Restore
          skips every archive member that is not a .tsm   [C38_restore_full_backup_refuted]
      (3) forall files lo hi, the export holds exactly the source points of [lo,hi]
          — false: whole BLOCKS that overlap the range are kept [C38_export_exact_refuted];
          and Export fails outright for a shard with a tombstoned file
          [C38_export_tombstoned_shard_fails] or when a file overlaps the range but none of
          its blocks does [C38_export_no_values_refuted]. *)
From Verif Require Import Base.Prelude Model.C01 Proofs.C01 Model.C38 Proofs.C38.

(** ** (1) backup + restore *)

(** Partial (the hypothesis the code needs is visible: no tombstone hides a point). *)
Theorem C38_restore_full_backup_partial : forall s since mts,
  quiescent s -> Forall tomb_inert (files s) ->
  length mts = length (files (snapshot_now s)) -> Forall (fun m => (m > since)%Z) mts ->
  forall k t,
    abs (restore_state (backup_sel since (combine mts (files (snapshot_now s))))) k t = abs s k t.
Proof. exact restore_full_backup. Qed.
Print Assumptions C38_restore_full_backup_partial.

(** Every history without deletes (writes, snapshots incl. failed ones, compactions), ending
    quiescent: the restored shard reads exactly the last-write-wins content of the history. *)
Theorem C38_restore_full_backup_no_delete : forall h since mts,
  no_delete h -> quiescent (run h init) ->
  length mts = length (files (snapshot_now (run h init))) -> Forall (fun m => (m > since)%Z) mts ->
  forall k t,
    abs (restore_state (backup_sel since (combine mts (files (snapshot_now (run h init)))))) k t
    = log_get (spec_log h []) k t.
Proof. exact restore_full_backup_no_delete. Qed.
Print Assumptions C38_restore_full_backup_no_delete.

(** What the restored shard reads in general: the source's files with every tombstone forgotten. *)
Theorem C38_restore_forgets_tombstones : forall s since mts,
  quiescent s -> length mts = length (files (snapshot_now s)) -> Forall (fun m => (m > since)%Z) mts ->
  forall k t,
    abs (restore_state (backup_sel since (combine mts (files (snapshot_now s))))) k t
    = files_get (map strip (files (snapshot_now s))) k t.
Proof. exact restore_full_backup_char. Qed.
Print Assumptions C38_restore_forgets_tombstones.

Theorem C38_restore_full_backup_refuted :
  exists h, let s := run h init in
    quiescent s /\ exists k t,
      abs (restore_state (backup_sel 0 (combine [1%Z] (files (snapshot_now s))))) k t <> abs s k t.
Proof.
  exists c38_witness. destruct restore_resurrects_witness as (Q & A & B).
  split; [exact Q|]. exists 0%N, 5%Z. rewrite A, B. discriminate.
Qed.
Print Assumptions C38_restore_full_backup_refuted.

(** ** (2) incremental backup: the archive holds a file (.tsm, resp. its tombstone file)
    exactly when its modification time is after [since] — in particular every file
    changed after t is in the backup since t. *)
Theorem C38_incremental_contains_changed_tsm : forall since fs i,
  In (i, 0%N) (backup_members since fs) <-> exists o, nth_error fs i = Some o /\ (o_mt o > since)%Z.
Proof. exact backup_members_tsm. Qed.
Print Assumptions C38_incremental_contains_changed_tsm.

Theorem C38_incremental_contains_changed_tombstone : forall since fs i,
  In (i, 1%N) (backup_members since fs) <->
  exists o m, nth_error fs i = Some o /\ o_tomb o = Some m /\ (m > since)%Z.
Proof. exact backup_members_tombstone. Qed.
Print Assumptions C38_incremental_contains_changed_tombstone.

(** ** (3) export of a time range *)

(** Nothing in the range is lost (per file, physical points). *)
Theorem C38_export_nothing_lost_partial : forall lo hi f ms k t v,
  export_file lo hi f = Some ms -> In (k, t, v) (bfile_log f) -> (lo <= t <= hi)%Z ->
  exists m, In m ms /\ In (k, t, v) (bfile_log m).
Proof. exact export_file_nothing_lost. Qed.
Print Assumptions C38_export_nothing_lost_partial.

(** Every exported block is a source block that overlaps the range. *)
Theorem C38_export_only_overlapping_blocks_partial : forall lo hi f ms m b,
  Forall (fun b => snd b <> []) f ->
  export_file lo hi f = Some ms -> In m ms -> In b m -> In b f /\ block_keep lo hi b = true.
Proof. exact export_file_only_overlapping. Qed.
Print Assumptions C38_export_only_overlapping_blocks_partial.

(** Exactness when block boundaries align with the range. *)
Theorem C38_export_exact_when_aligned_partial : forall lo hi f ms,
  Forall (fun b => snd b <> []) f ->
  Forall (fun b => block_keep lo hi b = true -> (lo <= bmin b /\ bmax b <= hi)%Z) f ->
  export_file lo hi f = Some ms ->
  forall m k t v, In m ms -> In (k, t, v) (bfile_log m) -> (lo <= t <= hi)%Z.
Proof. exact export_file_exact_when_aligned. Qed.
Print Assumptions C38_export_exact_when_aligned_partial.

(** Read level: a flushed tombstone-free engine, its files' block layout [bs]; if the export
    succeeds, the imported export reads like the source everywhere inside the range. *)
Theorem C38_export_import_in_range_partial : forall lo hi s bs ms,
  hot s = [] -> snap s = [] ->
  Forall2 same_points (files s) bs -> Forall (fun f => ftomb f = []) (files s) ->
  export lo hi 0 (map (pair false) bs) = (0%N, ms) ->
  forall k t, (lo <= t <= hi)%Z -> abs (import_state (map snd ms)) k t = abs s k t.
Proof. exact export_import_state. Qed.
Print Assumptions C38_export_import_in_range_partial.

Theorem C38_export_exact_refuted :
  exists fs lo hi ms, export lo hi 0 fs = (0%N, ms) /\
    exists k t v, abs (import_state (map snd ms)) k t = Some v /\ ~ (lo <= t <= hi)%Z.
Proof.
  exists [(false, c38_export_witness)], 1%Z, 1%Z. eexists. destruct export_not_exact_witness as [E A].
  split; [exact E|]. exists 0%N, 0%Z, 10%Z. split; [exact A|lia].
Qed.
Print Assumptions C38_export_exact_refuted.

(** Export fails (ErrNoValues) exactly when a file's range meets the request but no block does. *)
Theorem C38_export_no_values_iff : forall lo hi f,
  export_file lo hi f = None <->
  overlaps3 (fmin f) (fmax f) lo hi = true /\ (forall b, In b f -> block_keep lo hi b = false).
Proof. exact export_file_error_iff. Qed.
Print Assumptions C38_export_no_values_iff.

Theorem C38_export_no_values_refuted :
  exists fs lo hi, existsb fst fs = false /\ fst (export lo hi 0 fs) <> 0%N.
Proof.
  exists [(false, [(0%N, [(0, 1); (1, 2)]%Z); (2%N, [(10, 3)]%Z)])], 4%Z, 5%Z.
  split; [reflexivity|]. rewrite export_no_values_witness. discriminate.
Qed.
Print Assumptions C38_export_no_values_refuted.

(** A shard with a tombstoned TSM file cannot be exported, whatever the range. *)
Theorem C38_export_tombstoned_shard_fails : forall lo hi fs i,
  existsb fst fs = true -> fst (export lo hi i fs) <> 0%N.
Proof. exact export_tombstoned_fails. Qed.
Print Assumptions C38_export_tombstoned_shard_fails.

(** Non-vacuity: a two-file engine with data in the cache meets the hypotheses of the
    restore theorem, and an aligned export of a two-block file is exact. *)
Example C38_nonvacuous :
  let h := [Write [(0%N, 5%Z, 10%Z); (3%N, 3%Z, 30%Z)]; SnapBegin; SnapCommit;
            Write [(0%N, 5%Z, 11%Z)]; SnapBegin; SnapCommit; Write [(2%N, 2%Z, 12%Z)]] in
  let s := run h init in
  no_delete h /\ quiescent s /\ length (files (snapshot_now s)) = 3%nat /\
  abs (restore_state (backup_sel 0 (combine [2; 4; 1000]%Z (files (snapshot_now s))))) 0%N 5%Z = Some 11%Z /\
  export 3 5 0 [(false, c38_export_witness)] = (0%N, [(0%nat, [(0%N, [(3, 13); (4, 14); (5, 15)]%Z)])]).
Proof.
  cbv zeta. split; [repeat constructor|]. vm_compute. repeat split; reflexivity.
Qed.
