(** C18 — proofs about the shard-group model of [Model/C18.v]. *)
From Verif Require Import Base.Prelude Model.C18.
From Coq Require Import ZifyBool.
Local Open Scope Z_scope.

(** ---------- truncation ---------- *)

Lemma truncate_bounds t d : 0 < d -> truncate t d <= t < truncate t d + d.
Proof.
  intro Hd. unfold truncate. destruct (d <=? 0) eqn:E; [lia|].
  pose proof (Z.mod_pos_bound (t + OFF) d Hd). lia.
Qed.

(** ---------- the clipping loop ---------- *)

Lemma clip_step_mono t s e g :
  fst (clip_step t (s, e) g) >= s /\ snd (clip_step t (s, e) g) <= e.
Proof.
  unfold clip_step. destruct (g_del g); cbn; [lia|].
  destruct ((g_end g <=? t) && (s <? g_end g)) eqn:A;
  destruct ((t <? g_start g) && (g_start g <? e)) eqn:B; cbn; lia.
Qed.

Lemma clip_step_contains t s e g :
  s <= t < e -> fst (clip_step t (s, e) g) <= t < snd (clip_step t (s, e) g).
Proof.
  intro H. unfold clip_step. destruct (g_del g); cbn; [lia|].
  destruct ((g_end g <=? t) && (s <? g_end g)) eqn:A;
  destruct ((t <? g_start g) && (g_start g <? e)) eqn:B; cbn; lia.
Qed.

Lemma clip_fold_mono t gs : forall s e,
  fst (fold_left (clip_step t) gs (s, e)) >= s /\ snd (fold_left (clip_step t) gs (s, e)) <= e.
Proof.
  induction gs as [|g gs IH]; intros s e; cbn [fold_left]; [cbn; lia|].
  destruct (clip_step t (s, e) g) as [s1 e1] eqn:E.
  pose proof (clip_step_mono t s e g) as M. rewrite E in M. cbn in M.
  specialize (IH s1 e1). lia.
Qed.

Lemma clip_fold_contains t gs : forall s e, s <= t < e ->
  fst (fold_left (clip_step t) gs (s, e)) <= t < snd (fold_left (clip_step t) gs (s, e)).
Proof.
  induction gs as [|g gs IH]; intros s e H; cbn [fold_left]; [cbn; lia|].
  destruct (clip_step t (s, e) g) as [s1 e1] eqn:E.
  pose proof (clip_step_contains t s e g H) as M. rewrite E in M. cbn in M.
  apply IH. lia.
Qed.

(** every live group that does not contain [t] ends before the clipped start or
    starts after the clipped end *)
Lemma clip_fold_sep t gs : forall s e h,
  In h gs -> g_del h = false -> contains h t = false ->
  g_end h <= fst (fold_left (clip_step t) gs (s, e)) \/
  snd (fold_left (clip_step t) gs (s, e)) <= g_start h.
Proof.
  induction gs as [|g gs IH]; intros s e h Hin Hl Hc; [destruct Hin|].
  cbn [fold_left]. destruct (clip_step t (s, e) g) as [s1 e1] eqn:E.
  destruct Hin as [-> | Hin]; [|apply IH; assumption].
  pose proof (clip_fold_mono t gs s1 e1) as M.
  unfold clip_step in E. rewrite Hl in E. cbn in E.
  unfold contains in Hc.
  destruct ((g_end h <=? t) && (s <? g_end h)) eqn:A;
  destruct ((t <? g_start h) && (g_start h <? e)) eqn:B; inversion E; subst; lia.
Qed.

Lemma init_bounds_spec d t :
  0 < d -> MinNano <= t <= MaxNano ->
  MinNano <= fst (init_bounds d t) <= t /\ t < snd (init_bounds d t) <= MaxInt64.
Proof.
  intros Hd Ht. unfold init_bounds. cbn [fst snd]. pose proof (truncate_bounds t d Hd).
  destruct (truncate t d <? MinNano) eqn:A; destruct (MaxNano <? truncate t d + d) eqn:B;
    unfold MaxNano, MaxInt64 in *; lia.
Qed.

Lemma new_bounds_contains gs d t :
  0 < d -> MinNano <= t <= MaxNano ->
  fst (new_bounds gs d t) <= t < snd (new_bounds gs d t).
Proof.
  intros Hd Ht. unfold new_bounds. pose proof (init_bounds_spec d t Hd Ht) as B.
  destruct (init_bounds d t) as [s e]. cbn [fst snd] in B. apply clip_fold_contains. lia.
Qed.

(** whatever groups exist, the new bounds are int64 instants: the start stays in
    [MinNanoTime, t], the end in (t, MaxInt64] *)
Lemma new_bounds_range gs d t :
  0 < d -> MinNano <= t <= MaxNano ->
  MinNano <= fst (new_bounds gs d t) /\ snd (new_bounds gs d t) <= MaxInt64.
Proof.
  intros Hd Ht. unfold new_bounds. pose proof (init_bounds_spec d t Hd Ht) as B.
  destruct (init_bounds d t) as [s e]. cbn [fst snd] in B.
  pose proof (clip_fold_mono t gs s e) as M. lia.
Qed.

(** ---------- lookup ---------- *)

Lemma find_app_last {A} (f : A -> bool) l x :
  find f (l ++ [x]) = match find f l with Some y => Some y | None => if f x then Some x else None end.
Proof. induction l as [|a l IH]; cbn; [reflexivity|]. destruct (f a); [reflexivity|exact IH]. Qed.

Lemma by_timestamp_some gs t g :
  by_timestamp gs t = Some g -> In g gs /\ contains g t = true /\ live g = true.
Proof.
  unfold by_timestamp. intro H. apply find_some in H as [Hin H].
  apply andb_true_iff in H. tauto.
Qed.

Lemma by_timestamp_none gs t h :
  by_timestamp gs t = None -> In h gs -> g_del h = false -> contains h t = false.
Proof.
  unfold by_timestamp. intros H Hin Hl. pose proof (find_none _ _ H h Hin) as F.
  unfold live in F. rewrite Hl in F. cbn in F. rewrite andb_true_r in F. exact F.
Qed.

(** ---------- routing: the group created/selected for a timestamp contains it ---------- *)

Definition in_range (t : Z) : Prop := MinNano <= t <= MaxNano.

Lemma client_create_spec st t :
  0 < st_d st -> in_range t ->
  exists g, snd (client_create st t) = Some g /\ contains g t = true /\ live g = true /\
            In g (st_gs (fst (client_create st t))) /\
            (st_gs (fst (client_create st t)) = st_gs st \/
             (by_timestamp (st_gs st) t = None /\
              g = {| g_id := st_next st; g_start := fst (new_bounds (st_gs st) (st_d st) t);
                     g_end := snd (new_bounds (st_gs st) (st_d st) t); g_del := false |} /\
              st_gs (fst (client_create st t)) = st_gs st ++ [g])) /\
            st_d (fst (client_create st t)) = st_d st.
Proof.
  intros Hd Ht. unfold client_create. destruct (by_timestamp (st_gs st) t) as [g|] eqn:E.
  - exists g. cbn. apply by_timestamp_some in E as (Hin & Hc & Hl). repeat split; auto.
  - unfold data_create. rewrite E. cbn.
    set (g := {| g_id := st_next st; g_start := fst (new_bounds (st_gs st) (st_d st) t);
                 g_end := snd (new_bounds (st_gs st) (st_d st) t); g_del := false |}).
    assert (Hc : contains g t = true).
    { unfold contains, g; cbn. pose proof (new_bounds_contains (st_gs st) (st_d st) t Hd Ht). lia. }
    exists g. unfold by_timestamp in *. rewrite find_app_last, E, Hc. cbn.
    repeat split; auto.
    + apply in_or_app; right; left; reflexivity.
Qed.

(** ---------- disjointness invariant ---------- *)

Definition sepP (g h : group) : Prop :=
  g_del g = true \/ g_del h = true \/ g_end g <= g_start h \/ g_end h <= g_start g.

Fixpoint DisjL (l : list group) : Prop :=
  match l with
  | [] => True
  | x :: r => Forall (sepP x) r /\ DisjL r
  end.

Lemma sepP_sym g h : sepP g h -> sepP h g.
Proof. unfold sepP; tauto. Qed.

Lemma DisjL_app_last l x : DisjL l -> Forall (fun y => sepP y x) l -> DisjL (l ++ [x]).
Proof.
  induction l as [|a l IH]; intros HD HF; cbn.
  - split; [constructor|exact I].
  - destruct HD as [Ha HD]. inversion HF as [|? ? Hax HF']; subst. split.
    + apply Forall_app; split; [exact Ha|]. constructor; [exact Hax|constructor].
    + apply IH; assumption.
Qed.

Lemma DisjL_map (P : group -> Prop) (f : group -> group) l :
  (forall x y, P x -> P y -> sepP x y -> sepP (f x) (f y)) ->
  Forall P l -> DisjL l -> DisjL (map f l).
Proof.
  intro Hf. induction l as [|a l IH]; intros HP HD; cbn; [exact I|].
  inversion HP as [|? ? Pa HP']; subst. destruct HD as [Ha HD]. split; [|apply IH; assumption].
  apply Forall_map. rewrite Forall_forall in *. intros y Hy. apply Hf; auto.
Qed.

(** semantic reading: no instant lies in two live groups *)
Lemma DisjL_unique gs t :
  DisjL gs -> (length (filter (fun g => contains g t && live g) gs) <= 1)%nat.
Proof.
  induction gs as [|x r IH]; intro HD; cbn; [lia|].
  destruct HD as [Hx HD]. specialize (IH HD).
  destruct (contains x t && live x) eqn:E; [|exact IH].
  assert (F : filter (fun g => contains g t && live g) r = []).
  { clear IH. induction r as [|y r IHr]; [reflexivity|]. cbn.
    inversion Hx as [|? ? Hxy Hx']; subst. destruct HD as [_ HD'].
    destruct (contains y t && live y) eqn:Ey; [|apply IHr; assumption].
    exfalso. unfold sepP in Hxy. unfold contains, live in *. lia. }
  rewrite F. cbn. lia.
Qed.

(** bounds invariant of every group in a reachable state: both bounds are int64
    nanosecond instants (since the start clamp of commit f8af500a39) *)
Definition GInv (g : group) : Prop :=
  MinInt64 <= g_start g <= MaxInt64 /\ MinInt64 <= g_end g <= MaxInt64.

Definition Inv (st : state) : Prop := DisjL (st_gs st) /\ Forall GInv (st_gs st) /\ 0 < st_d st.

Lemma wrap64_id z : MinInt64 <= z <= MaxInt64 -> wrap64 z = z.
Proof.
  intro H. unfold wrap64. rewrite Z.mod_small; [lia|]. unfold MinInt64, MaxInt64, TwoP64 in *. lia.
Qed.

Lemma wrap64_range z : MinInt64 <= wrap64 z <= MaxInt64.
Proof.
  unfold wrap64. assert (0 < TwoP64) by (unfold TwoP64; lia).
  pose proof (Z.mod_pos_bound (z - MinInt64) TwoP64 H). unfold MinInt64, MaxInt64, TwoP64 in *. lia.
Qed.

Lemma wrap64_ge z : z <= MaxInt64 -> z <= wrap64 z.
Proof.
  intro H. destruct (Z_le_gt_dec MinInt64 z) as [L|G].
  - rewrite wrap64_id; lia.
  - pose proof (wrap64_range z). lia.
Qed.

Lemma marshal_id z : MinInt64 <= z <= MaxInt64 -> marshal_time z = z.
Proof.
  intro H. unfold marshal_time. destruct (z =? ZEROT) eqn:E.
  - exfalso. unfold ZEROT, OFF, MinInt64 in *. lia.
  - apply wrap64_id; exact H.
Qed.

Lemma marshal_ge z : z <= MaxInt64 -> z <= marshal_time z <= MaxInt64.
Proof.
  intro H. unfold marshal_time. destruct (z =? ZEROT) eqn:E.
  - unfold ZEROT, OFF, MaxInt64 in *. lia.
  - pose proof (wrap64_ge z H). pose proof (wrap64_range z). lia.
Qed.

Lemma reload_group_id g : GInv g -> reload_group g = g.
Proof.
  intros [Hs He]. unfold reload_group, unmarshal_bound.
  rewrite (marshal_id _ Hs), (marshal_id _ He). destruct g; reflexivity.
Qed.

Lemma reload_all_id gs : Forall GInv gs -> map reload_group gs = gs.
Proof.
  induction gs as [|g gs IH]; intro H; [reflexivity|]. inversion H; subst. cbn.
  rewrite reload_group_id, IH; auto.
Qed.

Lemma create_preserves_inv st t :
  Inv st -> in_range t -> Inv (fst (client_create st t)).
Proof.
  intros (HD & HG & Hd) Ht.
  destruct (client_create_spec st t Hd Ht) as (g & _ & Hc & Hl & _ & Hgs & Hd').
  unfold Inv. rewrite Hd'. destruct Hgs as [E | (Hnone & Hg & E)]; rewrite E; [auto|].
  pose proof (new_bounds_contains (st_gs st) (st_d st) t Hd Ht) as Hb.
  pose proof (new_bounds_range (st_gs st) (st_d st) t Hd Ht) as Hr.
  split; [|split; [|exact Hd]].
  - apply DisjL_app_last; [exact HD|]. rewrite Forall_forall. intros h Hin.
    unfold sepP. destruct (g_del h) eqn:Dh; [left; reflexivity|]. right; right.
    pose proof (by_timestamp_none _ _ h Hnone Hin Dh) as Hnc.
    pose proof (clip_fold_sep t (st_gs st) (fst (init_bounds (st_d st) t)) (snd (init_bounds (st_d st) t))
                  h Hin Dh Hnc) as S.
    rewrite <- surjective_pairing in S. fold (new_bounds (st_gs st) (st_d st) t) in S.
    subst g; cbn. destruct S; [left|right]; lia.
  - apply Forall_app; split; [exact HG|]. constructor; [|constructor].
    subst g; unfold GInv; cbn. unfold in_range, MinNano, MaxNano, MaxInt64, MinInt64 in *. lia.
Qed.

Lemma delete_preserves_inv st id gs' :
  Inv st -> delete_group (st_gs st) id = Some gs' ->
  Inv {| st_gs := gs'; st_next := st_next st; st_d := st_d st |}.
Proof.
  intros (HD & HG & Hd) E. unfold delete_group in E.
  destruct (existsb _ _); [|discriminate]. inversion E; subst; clear E.
  unfold Inv; cbn. split; [|split; [|exact Hd]].
  - apply (DisjL_map (fun _ => True)); auto.
    + intros x y _ _ H. unfold sepP in *.
      destruct (N.eqb (g_id x) id), (N.eqb (g_id y) id); cbn; tauto.
    + rewrite Forall_forall; auto.
  - apply Forall_map. rewrite Forall_forall in *. intros x Hx. specialize (HG x Hx).
    destruct (N.eqb (g_id x) id); exact HG.
Qed.

Lemma reload_preserves_inv st :
  Inv st -> Inv {| st_gs := map reload_group (st_gs st); st_next := st_next st; st_d := st_d st |}.
Proof.
  intros (HD & HG & Hd). unfold Inv; cbn. rewrite (reload_all_id _ HG). auto.
Qed.

(** ---------- MapShards ---------- *)

Definition LstOk (lst : list group) (st : state) : Prop :=
  forall g, In g lst -> In g (st_gs st) /\ live g = true.

Lemma create_keeps_groups st t g :
  0 < st_d st -> in_range t -> In g (st_gs st) -> In g (st_gs (fst (client_create st t))).
Proof.
  intros Hd Ht Hin. destruct (client_create_spec st t Hd Ht) as (g' & _ & _ & _ & _ & Hgs & _).
  destruct Hgs as [E | (_ & _ & E)]; rewrite E; [exact Hin|]. apply in_or_app; left; exact Hin.
Qed.

Lemma ms_collect_spec ts : forall st lst,
  Inv st -> Forall in_range ts -> LstOk lst st ->
  exists st' lst', ms_collect st lst ts = Some (st', lst') /\ Inv st' /\ LstOk lst' st' /\
    (forall g, In g lst -> In g lst') /\
    (forall t, In t ts -> existsb (fun g => contains g t) lst' = true).
Proof.
  induction ts as [|t r IH]; intros st lst HI HT HL.
  - exists st, lst. cbn. split; [reflexivity|]. split; [exact HI|]. split; [exact HL|].
    split; [auto|]. intros t [].
  - inversion HT as [|? ? Ht HT']; subst. cbn [ms_collect].
    destruct (existsb (fun g => contains g t) lst) eqn:Ec.
    + destruct (IH st lst HI HT' HL) as (st' & lst' & E & HI' & HL' & Hsub & Hcov).
      exists st', lst'. split; [exact E|]. split; [exact HI'|]. split; [exact HL'|].
      split; [exact Hsub|]. intros t' [<-|Hin]; [|auto].
      apply existsb_exists in Ec as (g & Hg & Hc). apply existsb_exists. exists g; auto.
    + pose proof HI as (_ & _ & Hd).
      destruct (client_create_spec st t Hd Ht) as (g & Es & Hc & Hl & Hin & _ & _).
      pose proof (create_preserves_inv st t HI Ht) as HI1.
      destruct (client_create st t) as [st1 o] eqn:Ecc. cbn in Es, Hin, HI1. subst o.
      assert (HL1 : LstOk (lst ++ [g]) st1).
      { intros x Hx. apply in_app_or in Hx as [Hx | [<- | []]]; [|auto].
        destruct (HL x Hx) as [Hxin Hxl]. split; [|exact Hxl].
        pose proof (create_keeps_groups st t x Hd Ht Hxin) as K. rewrite Ecc in K. exact K. }
      destruct (IH st1 (lst ++ [g]) HI1 HT' HL1) as (st' & lst' & E & HI' & HL' & Hsub & Hcov).
      exists st', lst'. split; [exact E|]. split; [exact HI'|]. split; [exact HL'|]. split.
      * intros x Hx. apply Hsub, in_or_app; left; exact Hx.
      * intros t' [<-|Hin']; [|auto]. apply existsb_exists. exists g. split; [|exact Hc].
        apply Hsub, in_or_app; right; left; reflexivity.
Qed.

Lemma write_routes_all st ts :
  Inv st -> Forall in_range ts ->
  exists st' lst, ms_collect st [] ts = Some (st', lst) /\ Inv st' /\
    forall t, In t ts -> exists g, sg_at lst t = Some g /\ contains g t = true /\ live g = true /\
                                   In g (st_gs st').
Proof.
  intros HI HT.
  destruct (ms_collect_spec ts st [] HI HT) as (st' & lst & E & HI' & HL & _ & Hcov).
  { intros g []. }
  exists st', lst. split; [exact E|]. split; [exact HI'|]. intros t Hin.
  specialize (Hcov t Hin). unfold sg_at.
  destruct (find (fun g => contains g t) lst) as [g|] eqn:F.
  - apply find_some in F as [Hg Hc]. destruct (HL g Hg). exists g; auto.
  - apply existsb_exists in Hcov as (g & Hg & Hc). pose proof (find_none _ _ F g Hg). congruence.
Qed.

(** ---------- the invariant over arbitrary histories ---------- *)

Definition valid_op (o : op) : Prop :=
  match o with
  | OSetD d => 0 < d
  | OCreate t => in_range t
  | OWrite ts => Forall in_range ts
  | _ => True
  end.

Lemma step_preserves_inv st o : Inv st -> valid_op o -> Inv (fst (step st o)).
Proof.
  intros HI Hv. destruct o as [d|t|t|lo hi|id| |ts| ]; cbn [step].
  - destruct HI as (HD & HG & _). unfold Inv; cbn. auto.
  - pose proof (create_preserves_inv st t HI Hv). destruct (client_create st t); exact H.
  - exact HI.
  - exact HI.
  - destruct (delete_group (st_gs st) id) eqn:E; cbn; [|exact HI].
    eapply delete_preserves_inv; eauto.
  - apply reload_preserves_inv; exact HI.
  - destruct (write_routes_all st ts HI Hv) as (st' & lst & E & HI' & _). rewrite E. exact HI'.
  - exact HI.
Qed.

Lemma final_inv ops : forall st, Inv st -> Forall valid_op ops -> Inv (final st ops).
Proof.
  induction ops as [|o r IH]; intros st HI HV; cbn; [exact HI|].
  inversion HV; subst. apply IH; [apply step_preserves_inv|]; assumption.
Qed.

(** with injected store failures: every step either behaves like [step] or leaves
    the state unchanged (a failed commit is atomic) *)
Lemma step_f_cases st f o :
  fst (fst (step_f (st, f) o)) = fst (step st o) \/ fst (fst (step_f (st, f) o)) = st.
Proof.
  unfold step_f. destruct o as [d|t|t|lo hi|id| |ts| ]; destruct f; cbn [negb];
    try (destruct (step st _) as [st' r]; left; reflexivity); try (right; reflexivity).
  - destruct (by_timestamp (st_gs st) t); [|right; reflexivity].
    destruct (step st (OCreate t)); left; reflexivity.
  - destruct (existsb _ (st_gs st)); right; reflexivity.
  - destruct (forallb _ ts); [|right; reflexivity].
    destruct (step st (OWrite ts)); left; reflexivity.
Qed.

Lemma final_f_inv ops : forall st f, Inv st -> Forall valid_op ops -> Inv (fst (final_f (st, f) ops)).
Proof.
  induction ops as [|o r IH]; intros st f HI HV; cbn [final_f]; [exact HI|].
  inversion HV; subst. destruct (step_f (st, f) o) as [[st' f'] ob] eqn:E. cbn [fst].
  apply IH; [|assumption].
  pose proof (step_f_cases st f o) as C. rewrite E in C. cbn [fst] in C.
  destruct C as [-> | ->]; [apply step_preserves_inv; assumption|exact HI].
Qed.

Lemma init_inv d : 0 < d -> Inv (init d).
Proof. intro H. unfold Inv, init; cbn. auto. Qed.

(** ---------- reload ---------- *)

(** the group created for any representable timestamp, whatever groups exist *)
Lemma created_in_int64 gs d t id :
  0 < d -> in_range t ->
  GInv {| g_id := id; g_start := fst (new_bounds gs d t); g_end := snd (new_bounds gs d t); g_del := false |}.
Proof.
  intros Hd Ht. unfold GInv; cbn.
  pose proof (new_bounds_contains gs d t Hd Ht). pose proof (new_bounds_range gs d t Hd Ht).
  unfold in_range, MinNano, MaxNano, MaxInt64, MinInt64 in *. lia.
Qed.

(** ---------- range queries ---------- *)

Lemma range_finds gs g t lo hi :
  In g gs -> live g = true -> contains g t = true -> lo <= t <= hi ->
  In (g_id g) (range_ids gs lo hi).
Proof.
  intros Hin Hl Hc Ht. unfold range_ids. apply in_map. apply filter_In. split; [exact Hin|].
  unfold contains, overlaps in *. rewrite Hl. lia.
Qed.
