(** C07 — Value encodings round-trip bit-exactly.  Property theorems only.

    Values: int64/uint64 are their 64-bit two's-complement patterns, floats their IEEE-754
    bit patterns (so "bit-identical" is literal), bytes are numbers.  Every theorem is for
    lists of ANY length.  "scalar" = the iterator-style encoders/decoders of int.go,
    timestamp.go, float.go, bool.go, string.go; "batch" = the *ArrayEncodeAll /
    *ArrayDecodeAll of batch_*.go. *)
From Verif Require Import Base.Prelude Model.C07_s8b Model.C07_int Model.C07_float Model.C07_str.
From Verif Require Import Proofs.C07_s8b Proofs.C07_int Proofs.C07_float Proofs.C07_str.
Local Open Scope N_scope.

(** ** simple8b *)

(** in-repo EncodeAll: every list of values < 2^60 is accepted and DecodeAll of the produced
    words returns the list; CountBytes returns its length. *)
Theorem C07_s8b_roundtrip : forall l,
  Forall (fun v => v < 2 ^ 60) l ->
  exists ws, encode_all l = Some ws /\ decode_all ws = l /\ count_words ws = length l.
Proof.
  intros l H. destruct (encode_all_roundtrip l H) as (ws & E & D).
  exists ws. repeat split; auto. rewrite count_words_spec, D. reflexivity.
Qed.
Print Assumptions C07_s8b_roundtrip.

(** a value that does not fit 60 bits anywhere in the input makes EncodeAll fail *)
Theorem C07_s8b_rejects : forall l,
  Exists (fun v => 2 ^ 60 <= v) l -> encode_all l = None.
Proof. exact encode_all_rejects. Qed.
Print Assumptions C07_s8b_rejects.

(** the jwilder EncodeAll (= repeated Encode, used by the scalar integer encoder) *)
Theorem C07_s8b_jw_roundtrip : forall l,
  Forall (fun v => v < 2 ^ 60) l -> exists ws, jw_encode_all l = Some ws /\ decode_all ws = l.
Proof. exact jw_encode_all_roundtrip. Qed.
Print Assumptions C07_s8b_jw_roundtrip.

Theorem C07_s8b_jw_rejects : forall l,
  Exists (fun v => 2 ^ 60 <= v) l -> jw_encode_all l = None.
Proof. exact jw_encode_all_rejects. Qed.
Print Assumptions C07_s8b_jw_rejects.

(** the streaming Encoder (Write*; Bytes), used by the scalar timestamp encoder *)
Theorem C07_s8b_stream_roundtrip : forall l,
  Forall (fun v => v < 2 ^ 60) l -> exists ws, stream_encode l = Some ws /\ decode_all ws = l.
Proof. exact stream_encode_roundtrip. Qed.
Print Assumptions C07_s8b_stream_roundtrip.

Theorem C07_s8b_stream_rejects : forall l,
  Exists (fun v => 2 ^ 60 <= v) l -> stream_encode l = None.
Proof. exact stream_encode_rejects. Qed.
Print Assumptions C07_s8b_stream_rejects.

(** ** integer / unsigned *)

(** Every list of 64-bit patterns (MinInt64 = 2^63, MaxInt64, MaxUint64 included) is
    accepted by the scalar IntegerEncoder and by Integer/UnsignedArrayEncodeAll, and BOTH
    decoders return exactly the input on EITHER encoder's bytes (RLE, simple8b and
    uncompressed formats; the delta and zig-zag arithmetic wraps mod 2^64). *)
Theorem C07_int_roundtrip : forall vs,
  Forall (fun v => v < 2 ^ 64) vs -> N.of_nat (length vs) < 2 ^ 64 ->
  (exists b, int_encode_scalar vs = Some b /\
             int_decode_scalar b = Some vs /\ int_decode_batch b = Some vs) /\
  (exists b, int_encode_batch vs = Some b /\
             int_decode_scalar b = Some vs /\ int_decode_batch b = Some vs).
Proof. exact int_roundtrip. Qed.
Print Assumptions C07_int_roundtrip.

(** the pattern view loses nothing: int64 <-> pattern is a bijection *)
Definition of_int64 (z : Z) : N := Z.to_N (z mod 2 ^ 64)%Z.
Definition to_int64 (n : N) : Z := if n <? 2 ^ 63 then Z.of_N n else (Z.of_N n - 2 ^ 64)%Z.
Theorem C07_int64_pattern_bijective : forall z,
  (- 2 ^ 63 <= z < 2 ^ 63)%Z -> of_int64 z < 2 ^ 64 /\ to_int64 (of_int64 z) = z.
Proof.
  intros z Hz. unfold of_int64, to_int64.
  assert (E : (z mod 2 ^ 64 = if z <? 0 then z + 2 ^ 64 else z)%Z).
  { destruct (Z.ltb_spec z 0).
    - symmetry. apply Z.mod_unique with (-1)%Z; lia.
    - apply Z.mod_small. lia. }
  rewrite E. destruct (Z.ltb_spec z 0) as [Hn|Hn].
  - split; [lia|]. destruct (N.ltb_spec (Z.to_N (z + 2 ^ 64)) (2 ^ 63)); lia.
  - split; [lia|]. destruct (N.ltb_spec (Z.to_N z) (2 ^ 63)); lia.
Qed.
Print Assumptions C07_int64_pattern_bijective.

(** ** timestamps (no sortedness assumption: negative deltas wrap and force the raw format) *)
Theorem C07_time_roundtrip : forall ts,
  Forall (fun v => v < 2 ^ 64) ts -> N.of_nat (length ts) < 2 ^ 64 ->
  (exists b, time_encode_scalar ts = Some b /\
             time_decode_scalar b = Some ts /\ time_decode_batch b = Some ts) /\
  (exists b, time_encode_batch ts = Some b /\
             time_decode_scalar b = Some ts /\ time_decode_batch b = Some ts).
Proof. exact time_roundtrip. Qed.
Print Assumptions C07_time_roundtrip.

(** ** booleans *)
Theorem C07_bool_roundtrip : forall bs,
  N.of_nat (length bs) < 2 ^ 64 ->
  bool_decode (bool_encode bs) = Some bs /\ bool_decode (bool_encode_scalar bs) = Some bs.
Proof. exact bool_roundtrip. Qed.
Print Assumptions C07_bool_roundtrip.

(** ** floats *)

(** Scalar FloatEncoder: every NaN-free list of IEEE-754 patterns (+-0, subnormals, +-Inf
    included) is accepted and both decoders return it bit-identically. *)
Theorem C07_float_roundtrip : forall vs,
  Forall (fun v => v < 2 ^ 64 /\ is_nan v = false) vs ->
  float_encode_scalar vs = Some (float_bytes vs) /\
  float_decode_scalar (float_bytes vs) = Some vs /\
  float_decode_batch (float_bytes vs) = Some vs.
Proof. exact float_roundtrip. Qed.
Print Assumptions C07_float_roundtrip.

(** NaN is the end-of-stream sentinel: any NaN payload anywhere is rejected *)
Theorem C07_float_rejects_nan : forall vs,
  Exists (fun v => is_nan v = true) vs -> float_encode_scalar vs = None.
Proof. exact float_rejects_nan. Qed.
Print Assumptions C07_float_rejects_nan.

(** Batch FloatArrayEncodeAll: every NaN-free list is accepted, its bytes are those of the
    scalar encoder, and both decoders return the list bit-identically. *)
Theorem C07_float_batch_roundtrip : forall vs,
  Forall (fun v => v < 2 ^ 64 /\ is_nan v = false) vs ->
  float_encode_batch vs = Some (float_bytes vs) /\
  float_encode_batch vs = float_encode_scalar vs /\
  float_decode_scalar (float_bytes vs) = Some vs /\
  float_decode_batch (float_bytes vs) = Some vs.
Proof.
  intros vs Hvs. destruct (float_roundtrip vs Hvs) as (Es & Ds & Db).
  assert (Eb : float_encode_batch vs = Some (float_bytes vs)).
  { unfold float_encode_batch. destruct vs as [|first r]; [reflexivity|].
    inversion Hvs as [|? ? [_ Hf] Hr]; subst. rewrite Hf.
    replace (existsb is_nan r) with false; [reflexivity|].
    symmetry. apply not_true_is_false. intro Hex.
    apply existsb_exists in Hex as (x & Hx & Hn).
    rewrite Forall_forall in Hr. destruct (Hr x Hx) as [_ Hn']. congruence. }
  rewrite Es. auto.
Qed.
Print Assumptions C07_float_batch_roundtrip.

(** any NaN payload anywhere is rejected by the batch encoder too *)
Theorem C07_float_batch_rejects_nan : forall vs,
  Exists (fun v => is_nan v = true) vs -> float_encode_batch vs = None.
Proof.
  intros vs He. unfold float_encode_batch. destruct vs as [|first r]; [inversion He|].
  destruct (is_nan first) eqn:Ef; [reflexivity|].
  inversion He as [? ? H|? ? H]; subst; [congruence|].
  replace (existsb is_nan r) with true; [reflexivity|].
  symmetry. apply existsb_exists. apply Exists_exists in H as (x & Hx & Hn). eauto.
Qed.
Print Assumptions C07_float_batch_rejects_nan.

(** ** strings: snappy is a parameter pair with [decompress (compress b) = Some b] *)
Theorem C07_string_roundtrip :
  forall (compress : list N -> list N) (decompress : list N -> option (list N)),
  (forall b, decompress (compress b) = Some b) ->
  forall ss, Forall (fun s => N.of_nat (length s) < 2 ^ 64) ss ->
  str_decode decompress (str_encode compress ss) = Some ss.
Proof. exact str_roundtrip. Qed.
Print Assumptions C07_string_roundtrip.

(** ** block framing: type byte, uvarint length of the timestamp block, both blocks *)
Theorem C07_block_roundtrip : forall typ ts vals,
  N.of_nat (length ts) < 2 ^ 64 -> unpack_block (pack_block typ ts vals) = Some (typ, ts, vals).
Proof. exact block_roundtrip. Qed.
Print Assumptions C07_block_roundtrip.

(** ** Non-vacuity *)

(** a run of 240 ones followed by a value that needs 60 bits: the two EncodeAll variants
    pack it differently and both decode *)
Example C07_nonvacuous_s8b :
  let l := repeat 1 240 ++ [2 ^ 60 - 1; 5] in
  Forall (fun v => v < 2 ^ 60) l /\
  encode_all l = Some [0; 15 * 2 ^ 60 + (2 ^ 60 - 1); 15 * 2 ^ 60 + 5] /\
  jw_encode_all l <> encode_all l.
Proof.
  cbv zeta. split; [|split].
  - apply Forall_forall. intros x Hx. apply in_app_or in Hx as [Hx|Hx].
    + apply repeat_spec in Hx. subst. reflexivity.
    + destruct Hx as [<-|[<-|[]]]; reflexivity.
  - vm_compute. reflexivity.
  - vm_compute. discriminate.
Qed.

(** MinInt64, MaxInt64, -1, 0: uncompressed integer format; scalar and batch bytes differ
    for [2^62; 2^62+1; 2^62+5] (first value too large for the scalar encoder only) *)
Example C07_nonvacuous_int :
  int_encode_scalar [2 ^ 63; 2 ^ 63 - 1; 2 ^ 64 - 1; 0] <> Some [] /\
  int_encode_scalar [2 ^ 62; 2 ^ 62 + 1; 2 ^ 62 + 5] <> int_encode_batch [2 ^ 62; 2 ^ 62 + 1; 2 ^ 62 + 5] /\
  time_encode_scalar [1000; 2000; 3000; 4500] = Some [18; 0; 0; 0; 0; 0; 0; 3; 232; 208; 0; 15; 0; 0; 160; 0; 10].
Proof. repeat split; vm_compute; try discriminate; reflexivity. Qed.

(** floats: -0.0, a subnormal, +Inf, 1.0 round-trip; the stream is not just the raw words *)
Example C07_nonvacuous_float :
  let vs := [2 ^ 63; 1; 0x7FF0000000000000] ++ repeat 0x3FF0000000000000 9 in
  Forall (fun v => v < 2 ^ 64 /\ is_nan v = false) vs /\
  float_decode_batch (float_bytes vs) = Some vs /\ length (float_bytes vs) = 45%nat.
Proof.
  cbv zeta. split; [repeat constructor; vm_compute; reflexivity|].
  split; vm_compute; reflexivity.
Qed.
