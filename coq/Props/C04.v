(** C04 — Compaction preserves the logical content of TSM files.  Property theorems only.

    Model (coq/Model/C04.v): [run_key] = tsmBatchKeyIterator restricted to one key (sort.Stable
    with blocks.Less, the dedup decision of mergeFloat, combineFloat with both paths and [fast],
    chunkFloat, the Next/Read protocol); [run_files] = the key merge over the input files;
    [compact] = + file rolling; [snapshot] = the cache path.  A block payload is its decoded
    point list.  All theorems are for ANY number of files, keys, blocks, points, tombstone
    ranges, any points-per-block [size] > 0, full or fast — no bounds.

    The statements are partial-correctness statements about the mirror: "if the run returns
    [Some …]".  The mirror's loops carry fuel ([key_fuel], [files_fuel]); that the fuel always
    suffices (termination) is NOT proved — the judge reports any case where it does not, and
    [C04_nonvacuous] shows concrete runs. *)
From Coq Require Import Sorted.
From Verif Require Import Base.Prelude Model.C37 Proofs.C37 Model.C04 Proofs.C04 Proofs.C04_keys
     Proofs.C04_size Proofs.C04_blocks Proofs.C04_run Proofs.C04_files.
Local Open Scope Z_scope.

(** ** Content.  [fwf]: index keys of a file strictly increasing; every block non-empty,
    strictly increasing in time, index min/max = first/last timestamp, timestamps int64.
    NOTHING is assumed about order or overlap of the blocks of a key, inside a file or across
    files.  [content_spec k fs] = per file the points of [k] outside the file's tombstone
    ranges; files merged in argument order, a later file (and a later block) overriding an
    earlier one on equal timestamps; sorted by time. *)
(** FULL STATEMENT (not proved): additionally [exists files, compact size fast fs = Some files]
    (the mirror's fuel always suffices).  Proved: the partial-correctness part. *)
Theorem C04_compact_content_partial :
  forall (V : Type) (size : nat) (fast : bool) (fs : list (file V)) (files : list (out_seq V)),
    (0 < size)%nat -> Forall fwf fs -> compact size fast fs = Some files ->
    forall k, out_content k (concat files) = content_spec k fs.
Proof.
  intros V size fast fs files Hs W. unfold compact.
  destruct (run_files (files_fuel fs) size fast fs) as [sq|] eqn:E; [|discriminate].
  intros [= <-] k. rewrite roll_concat. unfold out_content.
  apply (run_files_content size fast Hs _ fs sq W E k).
Qed.
Print Assumptions C04_compact_content_partial.

(** ** Blocks of one key do not overlap in time — at full strength: across all the files
    written, the blocks of a key are well-formed (non-empty, strictly increasing, index range
    = first/last point) and strictly ordered ([max] of a block < [min] of the next), also on
    the pass-through and fast paths and for arbitrarily overlapping inputs: the dedup decision
    of mergeFloat sends every overlapping neighbour pair through the window path, and the
    window never skips an unread point (Proofs/C04_window.v). *)
(** (same missing part as above: that the run returns) *)
Theorem C04_compact_blocks_ordered_partial :
  forall (V : Type) (size : nat) (fast : bool) (fs : list (file V)) (files : list (out_seq V)),
    (0 < size)%nat -> Forall fwf fs -> compact size fast fs = Some files ->
    forall k, let bs := seq_points k (concat files) in
      forallb wf_blk bs = true /\ ordered bs = true.
Proof.
  intros V size fast fs files Hs W. unfold compact.
  destruct (run_files (files_fuel fs) size fast fs) as [sq|] eqn:E; [|discriminate].
  intros [= <-] k. rewrite roll_concat.
  destruct (run_files_content size fast Hs _ fs sq W E k) as [_ [H2 H3]]. split; [|exact H3].
  apply forallb_forall. rewrite Forall_forall in H2. exact H2.
Qed.
Print Assumptions C04_compact_blocks_ordered_partial.

(** The same for one key and an ARBITRARY list of gathered blocks (the heart of the proof):
    content = newest-wins merge of the live points, later blocks winning. *)
Theorem C04_key_content_partial :
  forall (V : Type) (size : nat) (fast : bool) (bs : list (blk V)) fuel out,
    (0 < size)%nat -> Forall bwf bs -> Forall isfresh bs ->
    run_key fuel size fast (mkst bs [] []) = Some out ->
    concat (map b_vals out) = last_wins_sorted (concat (map live0 bs))
    /\ Forall (fun b => wf_blk b = true) out /\ ordered out = true.
Proof. intros V size fast bs fuel out. apply run_key_content. Qed.
Print Assumptions C04_key_content_partial.

(** ** Output files are sorted by key: the (key, block) sequence handed to the TSM writer has
    non-decreasing keys (equal keys contiguous). *)
Theorem C04_compact_sorted_keys : forall (V : Type) (size : nat) (fast : bool) (fs : list (file V)) sq,
  Forall skeys fs -> run_files (files_fuel fs) size fast fs = Some sq ->
  StronglySorted N.le (map fst sq).
Proof.
  intros V size fast fs sq Hs H.
  apply (run_files_sorted size fast (files_fuel fs) fs 0%N sq Hs); [|exact H].
  intros f g _ _. apply N.le_0_l.
Qed.
Print Assumptions C04_compact_sorted_keys.

(** ** Block size, the code's actual guarantee: every block written for a key is either the
    unchanged payload of one of the key's input blocks (pass-through: blocks with >= size
    points, all unread blocks in fast mode, a single remaining block) or has at most [size]
    points.  "No block exceeds points-per-block" is therefore true for blocks produced by
    chunking and NOT for passed-through blocks, which keep their input size (e.g. 1000-point
    blocks survive a compaction with a smaller [size]; see C04_compact_block_size_refuted). *)
Theorem C04_compact_block_size_partial : forall (V : Type) (size : nat) (fast : bool) (bs : list (blk V)) fuel out,
  run_key fuel size fast (mkst bs [] []) = Some out ->
  Forall (fun b => In (b_vals b) (map b_vals bs) \/ (length (b_vals b) <= size)%nat) out.
Proof. intros V. exact run_key_block_size. Qed.
Print Assumptions C04_compact_block_size_partial.

(** the literal reading "no block exceeds the requested points-per-block" is refuted by the
    pass-through: one input block of 3 points, size 2, full compaction -> written unchanged *)
Theorem C04_compact_block_size_refuted :
  exists (size : nat) (bs : list (blk Z)) out,
    run_key 20 size false (mkst bs [] []) = Some out /\
    Forall bwf bs /\ exists b, In b out /\ (size < length (b_vals b))%nat.
Proof.
  exists 2%nat, [fresh 0 2 [(0, 7); (1, 7); (2, 7)] []].
  eexists. split; [vm_compute; reflexivity|]. split.
  - constructor; [|constructor]. split; cbn; try lia; try discriminate.
    + repeat split; repeat constructor; cbn; lia.
    + intros p [<-|[<-|[<-|[]]]]; cbn; unfold MinInt64, MaxInt64; lia.
  - eexists. split; [left; reflexivity|]. cbn. lia.
Qed.
Print Assumptions C04_compact_block_size_refuted.

(** ** Rolling ([Compactor.write] / [writeNewFiles]): the files are a split of the written
    sequence into non-empty pieces — nothing is lost or duplicated at a file boundary. *)
Theorem C04_roll_preserves : forall (A : Type) (limit : nat) (sq : list (N * A)),
  concat (roll limit sq) = sq /\ Forall (fun f => f <> []) (roll limit sq).
Proof. intros. split; [apply roll_concat|apply roll_go_nonempty]. Qed.
Print Assumptions C04_roll_preserves.

(** ** Cache snapshots (Snapshot; Deduplicate; WriteSnapshot): per key the written content is
    the newest-wins, time-sorted content of the cache entry; blocks are well-formed, ordered,
    disjoint and have at most [size] points. *)
Theorem C04_snapshot_content : forall (V : Type) (size : nat) (cache : list (N * arr V)) k,
  (0 < size)%nat -> NoDup (map fst cache) ->
  out_content k (concat (snapshot size cache))
  = last_wins_sorted (concat (map (fun e => if (fst e =? k)%N then snd e else []) cache)).
Proof. intros. rewrite snapshot_is_cache_seq. apply cache_seq_content; assumption. Qed.
Print Assumptions C04_snapshot_content.

Theorem C04_snapshot_blocks : forall (V : Type) (size : nat) (vs : arr V),
  (0 < size)%nat ->
  let bs := chunks size (vals_dedup vs) in
  forallb wf_blk bs = true /\ ordered bs = true /\
  (forall b, In b bs -> (length (b_vals b) <= size)%nat).
Proof.
  intros V size vs Hs bs. subst bs. split; [|split].
  - apply chunks_fuel_wf; [exact Hs|apply dedup_sorted].
  - apply chunks_ordered; [exact Hs|apply dedup_sorted].
  - intros b. apply chunks_fuel_size.
Qed.
Print Assumptions C04_snapshot_blocks.

(** Non-vacuity: three files whose blocks of key 1 overlap in a chain ([10,20], [5,12] with a
    tombstone, [0,7]); both modes return, the later file wins at t = 12 and t = 5, the
    tombstoned point is gone. *)
Example C04_nonvacuous :
  let f1 : file Z := [(1%N, [(10, 20, [(10, 1); (12, 1); (20, 1)])], [])] in
  let f2 : file Z := [(1%N, [(5, 12, [(5, 2); (8, 2); (12, 2)])], [(8, 8)]); (2%N, [(1, 1, [(1, 2)])], [])] in
  let f3 : file Z := [(1%N, [(0, 7, [(0, 3); (5, 3); (7, 3)])], [])] in
  (exists files, compact 2 false [f1; f2; f3] = Some files /\
     out_content 1%N (concat files) = [(0, 3); (5, 3); (7, 3); (10, 1); (12, 2); (20, 1)]) /\
  (exists files, compact 2 true [f1; f2; f3] = Some files /\
     out_content 2%N (concat files) = [(1, 2)]).
Proof. split; eexists; split; vm_compute; reflexivity. Qed.
