(** C34 — Configuration sizes and durations round-trip exactly.  Property theorems only.

    Strings are byte lists; [dec n] is the decimal text of n (strconv.AppendUint), [B "kib"]
    the bytes of a literal.  [marshal t z] is what the configuration layer writes for the
    value z of type t, [unmarshal t text] is t's UnmarshalText ([None] = error);
    TV1/TSV1 = toml.SizeV1/SSizeV1, TV2/TSV2 = toml.SizeV2/SSizeV2 (= toml.Size/SSize on
    this branch), TDur = toml.Duration. *)
From Verif Require Import Base.Prelude Model.C34
  Proofs.C34_dec Proofs.C34_float Proofs.C34_size Proofs.C34_v2 Proofs.C34_dur.
From Coq Require Import String.
Local Open Scope N_scope.
Local Open Scope list_scope.

(** SizeV1: every uint64 round-trips through MarshalText / UnmarshalText. *)
Theorem C34_sizev1_roundtrip :
  forall n, n < 2 ^ 64 -> unmarshal TV1 (marshal TV1 (Z.of_N n)) = Some (Z.of_N n).
Proof. exact sizev1_roundtrip. Qed.
Print Assumptions C34_sizev1_roundtrip.

(** SSizeV1: every int64 (including MinInt64) round-trips. *)
Theorem C34_ssizev1_roundtrip :
  forall z, (- 2 ^ 63 <= z < 2 ^ 63)%Z -> unmarshal TSV1 (marshal TSV1 z) = Some z.
Proof. exact ssizev1_roundtrip. Qed.
Print Assumptions C34_ssizev1_roundtrip.

(** Duration: every int64 nanosecond count (negative ones and MinInt64 included)
    round-trips through time.Duration.String / time.ParseDuration. *)
Theorem C34_duration_roundtrip :
  forall z, (- 2 ^ 63 <= z < 2 ^ 63)%Z -> unmarshal TDur (marshal TDur z) = Some z.
Proof. exact duration_roundtrip. Qed.
Print Assumptions C34_duration_roundtrip.

(** 1.x suffix meaning and overflow on SizeV1, for ALL uint64 mantissas, any run of
    whitespace [ws] between digits and suffix, suffix k/K/m/M/g/G or none: the result is
    exactly n * 2^10/20/30, and a product that does not fit uint64 is REJECTED, never wrapped. *)
Theorem C34_v1_suffix_meaning_and_overflow :
  forall n ws sfx, n < 2 ^ 64 -> tail_ok ws sfx ->
    unmarshal TV1 (dec n ++ ws ++ sfx_bytes sfx) =
    if n * sfx_mult sfx <? 2 ^ 64 then Some (Z.of_N (n * sfx_mult sfx)) else None.
Proof. exact unmarshal_v1_unsigned. Qed.
Print Assumptions C34_v1_suffix_meaning_and_overflow.

(** The same for SSizeV1 and all int64 mantissas (sign included). *)
Theorem C34_sv1_suffix_meaning_and_overflow :
  forall z ws sfx, (- 2 ^ 63 <= z < 2 ^ 63)%Z -> tail_ok ws sfx ->
    unmarshal TSV1 (dec_z z ++ ws ++ sfx_bytes sfx) =
    let r := (z * Z.of_N (sfx_mult sfx))%Z in
    if ((- 2 ^ 63 <=? r) && (r <? 2 ^ 63))%Z then Some r else None.
Proof. exact unmarshal_v1_signed. Qed.
Print Assumptions C34_sv1_suffix_meaning_and_overflow.

(** The multipliers really are the documented ones. *)
Theorem C34_bare_suffix_values :
  sfx_mult None = 1 /\
  sfx_mult (Some 107) = 2 ^ 10 /\ sfx_mult (Some 75) = 2 ^ 10 /\
  sfx_mult (Some 109) = 2 ^ 20 /\ sfx_mult (Some 77) = 2 ^ 20 /\
  sfx_mult (Some 103) = 2 ^ 30 /\ sfx_mult (Some 71) = 2 ^ 30.
Proof. repeat split. Qed.
Print Assumptions C34_bare_suffix_values.

(** FULL STATEMENT "1.x bare k/m/g are binary on SizeV1/SSizeV1 wherever whitespace is
    allowed" is refuted by the mirror: after a leading newline SSizeV1 reads "1k" as 1000
    (bareIECSuffixRe's [.] does not cross '\n', so the text reaches humanize unrewritten),
    while after a leading space it reads 1024.  Confirmed on the real code (known finding
    ssizev1-bare-suffix-after-newline-is-decimal). *)
Theorem C34_v1_suffix_meaning_refuted :
  unmarshal TSV1 [10; 49; 107] = Some 1000%Z /\ unmarshal TSV1 [32; 49; 107] = Some 1024%Z.
Proof. exact ssizev1_newline_witness. Qed.
Print Assumptions C34_v1_suffix_meaning_refuted.

(** Explicit units as named (every entry of humanize's table: kb = 10^3, kib = 2^10, ...,
    bare k/m/g/t/p/e = SI on SizeV2): exact while the product stays below 2^53. *)
Theorem C34_named_units_partial :
  forall n name m, In (name, m) size_table -> n * m < 2 ^ 53 ->
    unmarshal TV2 (dec n ++ name) = Some (Z.of_N (n * m)).
Proof.
  intros n name m Hin Hlt. cbn [unmarshal]. unfold unmarshal_v2.
  rewrite (named_units_exact n name m Hin Hlt). reflexivity.
Qed.
Print Assumptions C34_named_units_partial.

(** FULL STATEMENT (SizeV2 = toml.Size, the active type on this branch):
      forall n < 2^64, unmarshal TV2 (marshal TV2 n) = Some n.
    REFUTED by the mirror (humanize parses through float64): 2^53+1 is written as
    "9007199254740993" and read back as 9007199254740992; SSize(MaxInt64) is written and
    then rejected.  Confirmed on the real code (known finding
    size-above-2p53-not-representable). *)
Theorem C34_sizev2_roundtrip_refuted :
  (exists n, n < 2 ^ 64 /\ unmarshal TV2 (marshal TV2 (Z.of_N n)) <> Some (Z.of_N n)) /\
  (exists z, (- 2 ^ 63 <= z < 2 ^ 63)%Z /\ unmarshal TSV2 (marshal TSV2 z) <> Some z).
Proof.
  split.
  - exists 9007199254740993. split; [reflexivity|].
    change (Z.of_N 9007199254740993) with 9007199254740993%Z.
    rewrite sizev2_witness. discriminate.
  - exists 9223372036854775807%Z. split; [split; [discriminate|reflexivity]|].
    rewrite ssizev2_witness. discriminate.
Qed.
Print Assumptions C34_sizev2_roundtrip_refuted.

(** Strongest true weakening: every value whose magnitude fits a 53-bit significand
    ([repr53]: all values up to 2^53, and beyond them the multiples of 2^(log2 n - 52), e.g.
    every whole number of KiB up to 8 EiB) round-trips on SizeV2 and SSizeV2. *)
Theorem C34_sizev2_roundtrip_partial :
  (forall n, n < 2 ^ 64 -> repr53 n = true ->
     unmarshal TV2 (marshal TV2 (Z.of_N n)) = Some (Z.of_N n)) /\
  (forall z, (- 2 ^ 63 <= z < 2 ^ 63)%Z -> repr53 (Z.to_N (Z.abs z)) = true ->
     unmarshal TSV2 (marshal TSV2 z) = Some z) /\
  (forall n, n < 2 ^ 53 -> repr53 n = true).
Proof.
  split; [|split].
  - intros n Hn Hr. cbn [marshal unmarshal]. unfold dec_z.
    destruct (Z.of_N n <? 0)%Z eqn:E; [lia|]. rewrite N2Z.id. apply sizev2_roundtrip_repr; assumption.
  - intros z Hz Hr. apply ssizev2_roundtrip_repr; assumption.
  - exact repr53_small.
Qed.
Print Assumptions C34_sizev2_roundtrip_partial.

(** Overflow on the float path, bare numbers: every decimal number at or above 2^64 (any
    length) is REJECTED by SizeV2 — rounding to float64 never brings it back into range, so
    nothing wraps.  (Partial: with a unit the product is rounded twice; not proved there.) *)
Theorem C34_sizev2_overflow_rejected_partial :
  forall n, 2 ^ 64 <= n -> unmarshal TV2 (dec n) = None.
Proof. exact sizev2_overflow_rejected. Qed.
Print Assumptions C34_sizev2_overflow_rejected_partial.

(** Through a TOML document a SizeV2 of 2^63 or more cannot be read back at all although it
    is exactly representable: the encoder writes a bare integer beyond TOML's int64.
    Confirmed on the real code (known finding sizev2-above-maxint64-unreadable-from-toml). *)
Theorem C34_sizev2_toml_roundtrip_refuted :
  unmarshal_toml TV2 9223372036854775808 (marshal TV2 9223372036854775808) = None
  /\ repr53 9223372036854775808 = true.
Proof. exact sizev2_toml_witness. Qed.
Print Assumptions C34_sizev2_toml_roundtrip_refuted.

(** FULL STATEMENT "a duration text whose exact value overflows int64 is rejected" is
    REFUTED by the mirror of time.ParseDuration: the uint64 accumulator wraps when a running
    sum of exactly 2^63 ns meets a component of exactly 2^63 ns.
    "9223372036854775808ns9223372036854775808ns" (exact value 2^64 ns) parses to 0.
    Confirmed on the real code (known finding duration-sum-wraps-at-2p64).  The round-trip
    theorem above is unaffected (Duration.String never produces such texts). *)
Theorem C34_duration_overflow_rejected_refuted :
  let s := dec 9223372036854775808 ++ B "ns" ++ dec 9223372036854775808 ++ B "ns" in
  unmarshal TDur s = Some 0%Z /\ dur_exact s = Some (false, 2 ^ 64, 2 ^ 64, 2).
Proof. exact duration_wrap_witness. Qed.
Print Assumptions C34_duration_overflow_rejected_refuted.

(** The overflowing SSize text "-9223372036854775809" is accepted as MinInt64 (same float
    path; carries the 2^53 finding's signature). *)
Theorem C34_ssizev2_overflow_accepted_refuted :
  unmarshal TSV2 (45 :: dec 9223372036854775809) = Some (- 9223372036854775808)%Z.
Proof. exact ssizev2_overflow_accepted_witness. Qed.
Print Assumptions C34_ssizev2_overflow_accepted_refuted.

(** Non-vacuity: concrete texts and values. *)
Example C34_nonvacuous :
  marshal TV1 3221225472 = B "3g" /\ unmarshal TV1 (B "3g") = Some 3221225472%Z /\
  marshal TSV1 (- 1536)%Z = 45 :: B "1536" /\
  unmarshal TV1 (B "1 K ") = Some 1024%Z /\ unmarshal TV2 (B "1k") = Some 1000%Z /\
  unmarshal TV1 (B "17179869184g") = None /\
  marshal TDur 5400000000001 = B "1h30m0.000000001s" /\
  marshal TDur (- 9223372036854775808)%Z = 45 :: B "2562047h47m16.854775808s" /\
  tail_ok [32; 9] (Some 75) /\ repr53 (2 ^ 60 + 2 ^ 10) = true /\ repr53 (2 ^ 53 + 1) = false.
Proof. repeat split; vm_compute; reflexivity. Qed.
