(** C44 — sessions over histories: the index and the records stay consistent, hence
    ExpireSession(key) makes the key unusable after ANY history. *)
From Verif Require Import Base.Prelude Model.C44 Proofs.C44_base Proofs.C44_auth.

Section Sess.
  Variable C : crypto.
  Hypothesis HC : crypto_ok C.
  Notation Str := (str C).
  Let sspec := ok_eqb C HC.

  (** every index entry points to an id already handed out, and a record stored under that id
      carries the index entry's key *)
  Definition sinv (st : sstate C) : Prop :=
    (forall k id e, aget (str_eqb C) k (sidx C st) = Some (id, e) ->
        (id < nexts C st)%N /\
        forall s e', aget N.eqb id (sdat C st) = Some (s, e') -> s_key C s = k) /\
    (forall id s e, aget N.eqb id (sdat C st) = Some (s, e) -> (id < nexts C st)%N).

  Lemma put_sess_sinv st id s :
    sinv st -> (id < nexts C st)%N ->
    (forall k' e, aget (str_eqb C) k' (sidx C st) = Some (id, e) -> k' = s_key C s) ->
    sinv (put_sess C st id s).
  Proof.
    intros [I1 I2] Hid P. unfold put_sess.
    destruct (Z.ltb (s_exp C s) (now C st)); [split; auto|].
    destruct (Z.eqb (s_exp C s) (now C st)).
    - (* set then immediately expired: both entries removed *)
      split; cbn [sset sidx sdat nexts].
      + intros k id' e A.
        destruct (str_eqb C k (s_key C s)) eqn:EK.
        * apply sspec in EK. subst k. rewrite (aget_adel_same (str_eqb C)) in A. discriminate.
        * assert (k <> s_key C s) as NK by (intro Y; subst k; rewrite (seqb_refl C HC) in EK; discriminate).
          rewrite (aget_adel_other (str_eqb C) sspec) in A by auto.
          destruct (I1 _ _ _ A) as [B D]. split; auto. intros s0 e' A2.
          destruct (N.eq_dec id' id) as [->|NI].
          -- rewrite (aget_adel_same N.eqb) in A2. discriminate.
          -- rewrite (aget_adel_other N.eqb Neqb_spec) in A2 by auto. eauto.
      + intros id' s0 e A. destruct (N.eq_dec id' id) as [->|NI]; auto.
        rewrite (aget_adel_other N.eqb Neqb_spec) in A by auto. eauto.
    - split; cbn [sset sidx sdat nexts].
      + intros k id' e A.
        destruct (str_eqb C k (s_key C s)) eqn:EK.
        * apply sspec in EK. subst k. rewrite (aget_aput_same (str_eqb C) sspec) in A.
          inversion A; subst. split; auto. intros s0 e' A2.
          rewrite (aget_aput_same N.eqb Neqb_spec) in A2. inversion A2; subst. reflexivity.
        * assert (k <> s_key C s) as NK by (intro Y; subst k; rewrite (seqb_refl C HC) in EK; discriminate).
          rewrite (aget_aput_other (str_eqb C) sspec) in A by auto.
          destruct (I1 _ _ _ A) as [B D]. split; auto. intros s0 e' A2.
          destruct (N.eq_dec id' id) as [->|NI].
          -- exfalso. apply NK. eapply P; eauto.
          -- rewrite (aget_aput_other N.eqb Neqb_spec) in A2 by auto. eauto.
      + intros id' s0 e A. destruct (N.eq_dec id' id) as [->|NI]; auto.
        rewrite (aget_aput_other N.eqb Neqb_spec) in A by auto. eauto.
  Qed.

  Lemma refresh_sinv st id e st' : sinv st -> refresh C st id e = Some st' -> sinv st'.
  Proof.
    intros I. unfold refresh, get_dat.
    destruct (aget N.eqb id (sdat C st)) as [[s e0]|] eqn:A; [|discriminate].
    destruct (live C st e0); [|discriminate].
    destruct (Z.ltb e (s_exp C s)); intro H; inversion H; subst; auto.
    pose proof I as [I1 I2].
    apply put_sess_sinv; auto.
    - eapply I2; eauto.
    - intros k' e' B. cbn [s_key]. destruct (I1 _ _ _ B) as [_ D]. symmetry. eapply D; eauto.
  Qed.

  Lemma nexts_put st id s : nexts C (put_sess C st id s) = nexts C st.
  Proof.
    unfold put_sess. destruct (Z.ltb (s_exp C s) (now C st)); auto.
    destruct (Z.eqb (s_exp C s) (now C st)); reflexivity.
  Qed.

  Lemma sinv_bump st t' :
    sinv st -> sinv {| sdat := sdat C st; sidx := sidx C st; nexts := N.succ (nexts C st); now := t' |}.
  Proof.
    intros [I1 I2]. split; cbn [sdat sidx nexts].
    - intros k id e A. destruct (I1 _ _ _ A) as [B D]. split; [lia|auto].
    - intros id s e A. specialize (I2 _ _ _ A). lia.
  Qed.

  Lemma sstep_sinv st o : sinv st -> sinv (fst (sstep C st o)).
  Proof.
    intro I. pose proof I as [I1 I2]. destruct o; cbn [sstep].
    - (* CreateSess: a fresh id *)
      cbn [fst].
      unfold put_sess. cbn [s_exp s_key].
      destruct (Z.ltb (now C st + off) (now C st)).
      { apply sinv_bump; auto. }
      destruct (Z.eqb (now C st + off) (now C st)).
      + split; cbn [sset sidx sdat nexts].
        * intros k' id' e A. destruct (str_eqb C k' k) eqn:EK.
          -- apply sspec in EK. subst. rewrite (aget_adel_same (str_eqb C)) in A. discriminate.
          -- assert (k' <> k) as NK by (intro Y; subst; rewrite (seqb_refl C HC) in EK; discriminate).
             rewrite (aget_adel_other (str_eqb C) sspec) in A by auto.
             destruct (I1 _ _ _ A) as [B D]. split; [lia|]. intros s0 e' A2.
             destruct (N.eq_dec id' (nexts C st)) as [->|NI]; [lia|].
             rewrite (aget_adel_other N.eqb Neqb_spec) in A2 by auto. eauto.
        * intros id' s0 e A. destruct (N.eq_dec id' (nexts C st)) as [->|NI]; [lia|].
          rewrite (aget_adel_other N.eqb Neqb_spec) in A by auto. specialize (I2 _ _ _ A). lia.
      + split; cbn [sset sidx sdat nexts].
        * intros k' id' e A. destruct (str_eqb C k' k) eqn:EK.
          -- apply sspec in EK. subst. rewrite (aget_aput_same (str_eqb C) sspec) in A.
             inversion A; subst. split; [lia|]. intros s0 e' A2.
             rewrite (aget_aput_same N.eqb Neqb_spec) in A2. inversion A2; subst. reflexivity.
          -- assert (k' <> k) as NK by (intro Y; subst; rewrite (seqb_refl C HC) in EK; discriminate).
             rewrite (aget_aput_other (str_eqb C) sspec) in A by auto.
             destruct (I1 _ _ _ A) as [B D]. split; [lia|]. intros s0 e' A2.
             destruct (N.eq_dec id' (nexts C st)) as [->|NI]; [lia|].
             rewrite (aget_aput_other N.eqb Neqb_spec) in A2 by auto. eauto.
        * intros id' s0 e A. destruct (N.eq_dec id' (nexts C st)) as [->|NI]; [lia|].
          rewrite (aget_aput_other N.eqb Neqb_spec) in A by auto. specialize (I2 _ _ _ A). lia.
    - (* ExpireSess *)
      destruct (find_by_key C st k) as [[id s]|] eqn:EF; cbn [fst]; auto.
      split; cbn [sset sidx sdat nexts].
      + intros k' id' e A. destruct (str_eqb C k' (s_key C s)) eqn:EK.
        * apply sspec in EK. subst. rewrite (aget_adel_same (str_eqb C)) in A. discriminate.
        * assert (k' <> s_key C s) as NK by (intro Y; subst; rewrite (seqb_refl C HC) in EK; discriminate).
          rewrite (aget_adel_other (str_eqb C) sspec) in A by auto.
          destruct (I1 _ _ _ A) as [B D]. split; auto. intros s0 e' A2.
          destruct (N.eq_dec id' id) as [->|NI].
          -- rewrite (aget_adel_same N.eqb) in A2. discriminate.
          -- rewrite (aget_adel_other N.eqb Neqb_spec) in A2 by auto. eauto.
      + intros id' s0 e A. destruct (N.eq_dec id' id) as [->|NI].
        * rewrite (aget_adel_same N.eqb) in A. discriminate.
        * rewrite (aget_adel_other N.eqb Neqb_spec) in A by auto. eauto.
    - (* RenewSess *)
      destruct (find_by_key C st k) as [[id s]|] eqn:EF; cbn [fst]; auto.
      destruct (refresh C st id (now C st + off)) as [st'|] eqn:ER; cbn [fst]; auto.
      eapply refresh_sinv; eauto.
    - (* FindSess *)
      destruct (find_by_key C st k) as [[id s]|]; cbn [fst]; auto.
    - (* RenewById *)
      destruct (refresh C st id (now C st + off)) as [st'|] eqn:ER; cbn [fst]; auto.
      eapply refresh_sinv; eauto.
    - (* Wait *)
      cbn [fst]. split; cbn [sdat sidx nexts]; auto.
  Qed.

  (** the middleware only touches sessions through RefreshSession *)
  Lemma authenticate_sinv st h ck renew :
    sinv (ss C st) -> sinv (ss C (snd (authenticate C st h ck renew))).
  Proof.
    intro I. unfold authenticate.
    destruct h as [| |t jwt].
    1: { destruct ck as [k|]; [|exact I];
         destruct (find_by_key C (ss C st) k) as [[id s]|]; [|exact I];
         destruct renew;
         [ destruct (refresh C (ss C st) id (now C (ss C st) + RenewSessionTime)) as [x|] eqn:ER; [|exact I] | ];
         cbn [p_user];
         match goal with |- context [aget N.eqb ?u ?l] => destruct (aget N.eqb u l) as [[|]|] end;
         cbn [snd ss]; auto; eapply refresh_sinv; eauto. }
    1: { destruct ck as [k|]; [|exact I];
         destruct (find_by_key C (ss C st) k) as [[id s]|]; [|exact I];
         destruct renew;
         [ destruct (refresh C (ss C st) id (now C (ss C st) + RenewSessionTime)) as [x|] eqn:ER; [|exact I] | ];
         cbn [p_user];
         match goal with |- context [aget N.eqb ?u ?l] => destruct (aget N.eqb u l) as [[|]|] end;
         cbn [snd ss]; auto; eapply refresh_sinv; eauto. }
    destruct jwt; [exact I|].
    destruct (find_token C (ts C st) t) as [[id a]|]; [|exact I].
    destruct (a_active C a); cbn [negb]; [|exact I].
    cbn [p_user].
    match goal with |- context [aget N.eqb ?u ?l] => destruct (aget N.eqb u l) as [[|]|] end; exact I.
  Qed.

  Lemma step_sinv st o : sinv (ss C st) -> sinv (ss C (fst (step C st o))).
  Proof.
    intro I. destruct o; cbn [step].
    - destruct (pstep C (ps C st) o); exact I.
    - destruct (tstep C (users C (ps C st)) (ts C st) o); exact I.
    - pose proof (sstep_sinv (ss C st) o I) as X. destruct (sstep C (ss C st) o); exact X.
    - pose proof (authenticate_sinv st h ck renew I) as X.
      destruct (authenticate C st h ck renew) as [[c p] st']. exact X.
    - (* ProbeRace: a sign-out, then a (failing) refresh *)
      destruct (find_by_key C (ss C st) k) as [[id s]|]; [|exact I].
      pose proof (sstep_sinv (ss C st) (ExpireSess C k) I) as J.
      destruct (refresh C (fst (sstep C (ss C st) (ExpireSess C k))) id
                  (now C (fst (sstep C (ss C st) (ExpireSess C k))) + RenewSessionTime)) as [x|] eqn:ER.
      + pose proof (refresh_sinv _ _ _ _ J ER) as X.
        destruct (aget N.eqb (s_user C s) (users C (ps C st))) as [[|]|]; exact X.
      + exact J.
  Qed.

  Lemma run_sinv ops : forall st, sinv (ss C st) -> sinv (ss C (run C st ops)).
  Proof.
    induction ops as [|o ops IH]; intros st I; cbn [run fold_left]; auto.
    apply IH. apply step_sinv; auto.
  Qed.

  Lemma init_sinv sp uh hv : sinv (ss C (init C sp uh hv)).
  Proof. split; cbn; intros; discriminate. Qed.

  (** after ANY history, expiring a session key makes that key unusable *)
  Theorem expired_session_never_authenticates sp uh hv ops k h renew p x :
    (forall t j, h <> HTok C t j) ->
    let st := run C (init C sp uh hv) ops in
    authenticate C (fst (step C st (OS C (ExpireSess C k)))) h (Some k) renew <> (200%N, Some p, x).
  Proof.
    intros NT st H.
    pose proof (run_sinv ops _ (init_sinv sp uh hv)) as I. fold st in I.
    apply (authenticated_only_if C HC) in H as [_ [[t [id [a [E _]]]] | [k' [id [s [e1 [e2 [Ek [_ [_ [_ [A [B [D E]]]]]]]]]]]]]].
    - eapply NT; eauto.
    - inversion Ek; subst k'. clear Ek. cbn [step] in A, B, D, E.
      destruct (sstep C (ss C st) (ExpireSess C k)) as [q r] eqn:EP. cbn [fst ss] in A, B, D, E.
      cbn [sstep] in EP. destruct (find_by_key C (ss C st) k) as [[id0 s0]|] eqn:EF.
      + inversion EP; subst q. cbn [sset sidx] in A.
        pose proof (find_by_key_sound C _ _ _ _ EF) as [f1 [f2 [F1 [_ [F2 _]]]]].
        destruct I as [I1 _]. destruct (I1 _ _ _ F1) as [_ DD].
        rewrite (DD _ _ F2) in A. rewrite (aget_adel_same (str_eqb C)) in A. discriminate.
      + inversion EP; subst q.
        apply Z.ltb_lt in B, E.
        unfold find_by_key, get_idx, get_dat, live in EF. rewrite A, B, D, E in EF. discriminate.
  Qed.

  (** RenewSession re-reads the session by id: renewing a session that was signed out, or whose
      record has expired, fails and changes nothing - a held session object cannot revive it *)
  Theorem renew_after_signout_fails st k id s off :
    find_by_key C st k = Some (id, s) ->
    let st1 := fst (sstep C st (ExpireSess C k)) in
    sstep C st1 (RenewById C id off) = (st1, 4%N).
  Proof.
    intros EF st1. unfold st1. cbn [sstep]. rewrite EF. cbn [fst].
    unfold refresh, get_dat. cbn [sset sdat]. rewrite (aget_adel_same N.eqb). reflexivity.
  Qed.

  Theorem renew_expired_fails st id s e0 off :
    aget N.eqb id (sdat C st) = Some (s, e0) -> (e0 <= now C st)%Z ->
    sstep C st (RenewById C id off) = (st, 4%N).
  Proof.
    intros A L. cbn [sstep]. unfold refresh, get_dat, live. rewrite A.
    replace (Z.ltb (now C st) e0) with false by (symmetry; apply Z.ltb_ge; lia). reflexivity.
  Qed.

  Theorem renew_unknown_fails st id off :
    aget N.eqb id (sdat C st) = None -> sstep C st (RenewById C id off) = (st, 4%N).
  Proof. intros A. cbn [sstep]. unfold refresh, get_dat. rewrite A. reflexivity. Qed.
End Sess.
