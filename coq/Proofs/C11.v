(** C11 — proofs about the printer / parser mirror of Model/C11.v: escaping round trips,
    series-key round trip, decimal integers. *)
From Verif Require Import Base.Prelude Model.C11.
From Coq Require Import ZifyBool ZifyN DecimalN.
Local Open Scope N_scope.

Lemma list_len_ind {A} (P : list A -> Prop) :
  (forall l, (forall l', (length l' < length l)%nat -> P l') -> P l) -> forall l, P l.
Proof.
  intros H l. assert (G : forall n l, (length l < n)%nat -> P l).
  { induction n; intros l0 Hl; [lia|]. apply H. intros l' Hl'. apply IHn. lia. }
  apply (G (S (length l))). lia.
Qed.

(** * Escaping as one pass over a set of bytes *)
Definition esc_set (S : N -> bool) (l : bytes) : bytes :=
  flat_map (fun c => if S c then [BSL; c] else [c]) l.

Lemma flat_map_flat_map {A B C} (f : A -> list B) (g : B -> list C) l :
  flat_map g (flat_map f l) = flat_map (fun a => flat_map g (f a)) l.
Proof. induction l as [|a l IH]; cbn; [reflexivity|]. rewrite flat_map_app, IH. reflexivity. Qed.

Lemma escape_meas_set l : escape_meas l = esc_set is_meas_stop l.
Proof.
  unfold escape_meas, escape1, esc_set. rewrite flat_map_flat_map. apply flat_map_ext. intro c.
  unfold is_meas_stop. destruct (c =? COMMA) eqn:E1; cbn.
  - apply N.eqb_eq in E1; subst. reflexivity.
  - destruct (c =? SP); cbn; reflexivity.
Qed.

Lemma escape_tag_set l : escape_tag l = esc_set is_tag_stop l.
Proof.
  unfold escape_tag, escape1, esc_set. rewrite !flat_map_flat_map. apply flat_map_ext. intro c.
  unfold is_tag_stop. destruct (c =? COMMA) eqn:E1; cbn.
  - apply N.eqb_eq in E1; subst. reflexivity.
  - destruct (c =? SP) eqn:E2; cbn.
    + apply N.eqb_eq in E2; subst. reflexivity.
    + destruct (c =? EQ); cbn; reflexivity.
Qed.

Lemma escape_string_set l : escape_string l = esc_set is_esc_char l.
Proof. reflexivity. Qed.

Lemma esc_set_none S l : (forall c, S c = false) -> esc_set S l = l.
Proof. intro H. induction l as [|c t IH]; cbn; [reflexivity|]. rewrite H. cbn. f_equal. exact IH. Qed.

Lemma esc_set_ext S S' l : (forall c, S c = S' c) -> esc_set S l = esc_set S' l.
Proof. intro H. unfold esc_set. apply flat_map_ext. intro c. rewrite H. reflexivity. Qed.

Lemma esc_set_cons S c t : esc_set S (c :: t) = (if S c then [BSL; c] else [c]) ++ esc_set S t.
Proof. reflexivity. Qed.

Lemma bsl_safe_mono (S S' : N -> bool) l :
  (forall c, S' c = true -> S c = true) -> bsl_safe S l = true -> bsl_safe S' l = true.
Proof.
  intro H. induction l as [|c t IH]; cbn; [auto|]. intro G. apply andb_true_iff in G as [G1 G2].
  rewrite (IH G2), andb_true_r. destruct (c =? BSL); [|reflexivity].
  destruct t as [|a t']; [discriminate|]. destruct (S' a) eqn:E; [|reflexivity].
  rewrite (H _ E) in G1. discriminate.
Qed.

Lemma bsl_safe_tail S c t : bsl_safe S (c :: t) = true -> bsl_safe S t = true.
Proof. cbn. intro H. apply andb_true_iff in H as [_ H]. exact H. Qed.

(** bytes.Replace with a two-byte pattern, unfolded one step *)
Lemma replace2_cons a b r x l :
  replace2 a b r (x :: l) =
  match l with
  | y :: t => if (x =? a) && (y =? b) then r :: replace2 a b r t else x :: replace2 a b r l
  | [] => [x]
  end.
Proof. destruct l; reflexivity. Qed.

(** un-escaping one byte [k] of an escaped, backslash-safe string *)
Lemma replace2_esc (S : N -> bool) k : S k = true -> S BSL = false ->
  forall n, bsl_safe S n = true ->
  replace2 BSL k k (esc_set S n) = esc_set (fun c => S c && negb (c =? k)) n.
Proof.
  intros Sk Sb. assert (kb : (k =? BSL) = false).
  { destruct (k =? BSL) eqn:E; [|reflexivity]. apply N.eqb_eq in E. subst. congruence. }
  induction n as [|c t IH]; intro H; [reflexivity|].
  pose proof (bsl_safe_tail _ _ _ H) as Ht. specialize (IH Ht).
  rewrite !esc_set_cons. destruct (S c) eqn:Sc; cbn [app andb].
  - (* c is escaped: \ c ... *)
    rewrite replace2_cons. rewrite N.eqb_refl. cbn [andb].
    destruct (c =? k) eqn:Ck; cbn [negb app].
    + apply N.eqb_eq in Ck. subst c. f_equal. exact IH.
    + assert (cb : (c =? BSL) = false).
      { destruct (c =? BSL) eqn:E; [|reflexivity]. apply N.eqb_eq in E. subst. congruence. }
      f_equal. rewrite replace2_cons. destruct (esc_set S t) eqn:Et.
      * rewrite <- IH. reflexivity.
      * rewrite cb. cbn [andb]. f_equal. exact IH.
  - (* c is kept *)
    rewrite replace2_cons. destruct (esc_set S t) as [|y t'] eqn:Et.
    + rewrite <- IH. reflexivity.
    + destruct ((c =? BSL) && (y =? k)) eqn:M.
      * (* impossible: a kept backslash is followed by a non-stop byte *)
        exfalso. apply andb_true_iff in M as [M1 M2]. apply N.eqb_eq in M2. subst y.
        cbn in H. rewrite M1 in H. destruct t as [|a t2]; [discriminate|].
        apply andb_true_iff in H as [H _]. apply negb_true_iff in H.
        rewrite esc_set_cons, H in Et. cbn in Et. inversion Et; subst. congruence.
      * f_equal. exact IH.
Qed.

Lemma unescape_tag_escape n : bsl_safe is_tag_stop n = true -> unescape_tag (escape_tag n) = n.
Proof.
  intro H. unfold unescape_tag. rewrite escape_tag_set.
  rewrite (replace2_esc is_tag_stop COMMA eq_refl eq_refl n H).
  set (S1 := fun c => is_tag_stop c && negb (c =? COMMA)).
  assert (H1 : bsl_safe S1 n = true).
  { eapply bsl_safe_mono; [|exact H]. intros c Hc. apply andb_true_iff in Hc as [Hc _]. exact Hc. }
  rewrite (replace2_esc S1 SP eq_refl eq_refl n H1).
  set (S2 := fun c => S1 c && negb (c =? SP)).
  assert (H2 : bsl_safe S2 n = true).
  { eapply bsl_safe_mono; [|exact H1]. intros c Hc. apply andb_true_iff in Hc as [Hc _]. exact Hc. }
  rewrite (replace2_esc S2 EQ eq_refl eq_refl n H2).
  apply esc_set_none. intro c. unfold S2, S1, is_tag_stop.
  destruct (c =? COMMA), (c =? SP), (c =? EQ); reflexivity.
Qed.

Lemma unescape_meas_escape n : bsl_safe is_meas_stop n = true -> unescape_meas (escape_meas n) = n.
Proof.
  intro H. unfold unescape_meas. rewrite escape_meas_set.
  rewrite (replace2_esc is_meas_stop COMMA eq_refl eq_refl n H).
  set (S1 := fun c => is_meas_stop c && negb (c =? COMMA)).
  assert (H1 : bsl_safe S1 n = true).
  { eapply bsl_safe_mono; [|exact H]. intros c Hc. apply andb_true_iff in Hc as [Hc _]. exact Hc. }
  rewrite (replace2_esc S1 SP eq_refl eq_refl n H1).
  apply esc_set_none. intro c. unfold S1, is_meas_stop.
  destruct (c =? COMMA), (c =? SP); reflexivity.
Qed.

(** a backslash-safe string contains no [\k] pattern: unescaping it is the identity *)
Lemma replace2_safe (S : N -> bool) k : S k = true ->
  forall n, bsl_safe S n = true -> replace2 BSL k k n = n.
Proof.
  intros Sk. induction n as [|c t IH]; intro H; [reflexivity|].
  pose proof (bsl_safe_tail _ _ _ H) as Ht. rewrite replace2_cons. destruct t as [|y t']; [reflexivity|].
  destruct ((c =? BSL) && (y =? k)) eqn:M.
  - exfalso. apply andb_true_iff in M as [M1 M2]. apply N.eqb_eq in M2. subst y.
    cbn in H. rewrite M1, Sk in H. discriminate.
  - f_equal. exact (IH Ht).
Qed.

Lemma unescape_meas_safe n : bsl_safe is_meas_stop n = true -> unescape_meas n = n.
Proof.
  intro H. unfold unescape_meas.
  rewrite (replace2_safe is_meas_stop COMMA eq_refl n H). apply (replace2_safe is_meas_stop SP eq_refl n H).
Qed.

(** * Scanning an escaped token with the "previous byte is a backslash" logic *)
(** every byte of [w] that is in [S] is preceded by a backslash ([prev] precedes [w]) *)
Fixpoint pclean (S : N -> bool) (prev : N) (w : bytes) : bool :=
  match w with
  | [] => true
  | c :: t => (negb (S c) || (prev =? BSL)) && pclean S c t
  end.

Lemma pclean_mono (S S' : N -> bool) : (forall c, S' c = true -> S c = true) ->
  forall w prev, pclean S prev w = true -> pclean S' prev w = true.
Proof.
  intro H. induction w as [|c t IH]; intros prev G; cbn in *; [auto|].
  apply andb_true_iff in G as [G1 G2]. rewrite (IH _ G2), andb_true_r.
  destruct (prev =? BSL); [apply orb_true_r|]. rewrite orb_false_r in *.
  destruct (S' c) eqn:E; [|reflexivity]. rewrite (H _ E) in G1. discriminate.
Qed.

Lemma pclean_esc S : S BSL = false -> forall n prev, pclean S prev (esc_set S n) = true.
Proof.
  intro Sb. induction n as [|c t IH]; intro prev; [reflexivity|].
  rewrite esc_set_cons. destruct (S c) eqn:Sc; cbn [app pclean].
  - rewrite Sb, N.eqb_refl. cbn. rewrite orb_true_r. cbn. apply IH.
  - rewrite Sc. cbn. apply IH.
Qed.

Lemma last_indep {A} (l : list A) d d' : l <> [] -> last l d = last l d'.
Proof.
  induction l as [|x l IH]; [congruence|]. intros _. destruct l as [|y l']; [reflexivity|].
  change (last (x :: y :: l') d) with (last (y :: l') d). change (last (x :: y :: l') d') with (last (y :: l') d').
  apply IH. discriminate.
Qed.

Lemma last_cons {A} (c : A) t d : last (c :: t) d = last t c.
Proof. destruct t as [|x t']; [reflexivity|]. change (last (c :: x :: t') d) with (last (x :: t') d). apply last_indep. discriminate. Qed.

Lemma last_app_ne {A} (a b : list A) d : b <> [] -> last (a ++ b) d = last b d.
Proof.
  intro H. induction a as [|x a IH]; [reflexivity|]. cbn [app]. rewrite last_cons.
  rewrite <- IH. apply last_indep. destruct a; cbn; [exact H|discriminate].
Qed.

Lemma esc_set_nonempty S n : n <> [] -> esc_set S n <> [].
Proof. destruct n as [|c t]; [congruence|]. intros _. rewrite esc_set_cons. destruct (S c); discriminate. Qed.

Lemma last_esc S : S BSL = false -> forall n d, bsl_safe S n = true -> n <> [] ->
  (last (esc_set S n) d =? BSL) = false.
Proof.
  intro Sb. induction n as [|c t IH]; intros d H NE; [congruence|].
  rewrite esc_set_cons. destruct t as [|c' t'].
  - cbn [esc_set flat_map]. rewrite List.app_nil_r. destruct (S c) eqn:Sc.
    + cbn. destruct (c =? BSL) eqn:E; [|reflexivity]. apply N.eqb_eq in E. subst. congruence.
    + cbn. cbn in H. destruct (c =? BSL); [discriminate|reflexivity].
  - rewrite last_app_ne; [|apply esc_set_nonempty; discriminate].
    apply IH; [eapply bsl_safe_tail; eauto|discriminate].
Qed.

(** scanMeasurement *)
Lemma scan_meas_loop_tok : forall w prev rest,
  pclean is_meas_stop prev w = true -> (last w prev =? BSL) = false ->
  scan_meas_loop prev (w ++ COMMA :: rest) = MTag w rest /\
  scan_meas_loop prev (w ++ SP :: rest) = MFld w (SP :: rest) /\
  scan_meas_loop prev w = MNoFields.
Proof.
  induction w as [|c t IH]; intros prev rest P L.
  - cbn [last] in L. cbn. rewrite L. auto.
  - cbn [pclean] in P. apply andb_true_iff in P as [P1 P2]. rewrite last_cons in L.
    destruct (IH c rest P2 L) as [I1 [I2 I3]]. cbn [app scan_meas_loop].
    destruct (prev =? BSL); [rewrite I1, I2, I3; auto|].
    rewrite orb_false_r in P1. apply negb_true_iff in P1. unfold is_meas_stop in P1.
    apply orb_false_iff in P1 as [C1 C2]. rewrite C1, C2, I1, I2, I3. auto.
Qed.

Lemma esc_head_not_comma S n : S COMMA = true -> n <> [] ->
  exists c0 w', esc_set S n = c0 :: w' /\ (c0 =? COMMA) = false.
Proof.
  intros Sc NE. destruct n as [|c t]; [congruence|]. rewrite esc_set_cons.
  destruct (S c) eqn:E; cbn; eexists _, _; (split; [reflexivity|]); [reflexivity|].
  destruct (c =? COMMA) eqn:C; [|reflexivity]. apply N.eqb_eq in C. subst. congruence.
Qed.

Lemma scan_meas_tok n rest : key_name_ok n = true ->
  scan_meas (escape_meas n ++ COMMA :: rest) = MTag (escape_meas n) rest /\
  scan_meas (escape_meas n ++ SP :: rest) = MFld (escape_meas n) (SP :: rest) /\
  scan_meas (escape_meas n) = MNoFields.
Proof.
  unfold key_name_ok. intro H. apply andb_true_iff in H as [NE H].
  assert (NE' : n <> []) by (destruct n; [discriminate|discriminate]).
  rewrite escape_meas_set.
  destruct (esc_head_not_comma is_meas_stop n eq_refl NE') as [c0 [w' [E C0]]].
  pose proof (pclean_esc is_meas_stop eq_refl n 0) as P. rewrite E in P. cbn in P.
  apply andb_true_iff in P as [_ P].
  pose proof (last_esc is_meas_stop eq_refl n 0 H NE') as L. rewrite E, last_cons in L.
  destruct (scan_meas_loop_tok w' c0 rest P L) as [I1 [I2 I3]].
  rewrite E. cbn [app scan_meas]. rewrite C0, I1, I2, I3. auto.
Qed.

(** scanTo *)
Lemma scan_to_loop_tok stop : forall w prev rest,
  pclean (N.eqb stop) prev w = true -> (last w prev =? BSL) = false ->
  scan_to_loop stop false prev (w ++ stop :: rest) = (w, stop :: rest) /\
  scan_to_loop stop false prev w = (w, []).
Proof.
  induction w as [|c t IH]; intros prev rest P L.
  - cbn [last] in L. cbn. rewrite N.eqb_refl, L. auto.
  - cbn [pclean] in P. apply andb_true_iff in P as [P1 P2]. rewrite last_cons in L.
    destruct (IH c rest P2 L) as [I1 I2]. cbn [app scan_to_loop]. cbn [orb].
    assert (X : (c =? stop) && negb (prev =? BSL) = false).
    { destruct (prev =? BSL); [apply andb_false_r|]. rewrite orb_false_r in P1.
      apply negb_true_iff in P1. rewrite N.eqb_sym, P1. reflexivity. }
    rewrite X, I1, I2. auto.
Qed.

Lemma scan_to_first stop c0 w' : (c0 =? stop) = false ->
  scan_to stop (c0 :: w') = pcons c0 (scan_to_loop stop false c0 w').
Proof. intro H. unfold scan_to. cbn [scan_to_loop]. rewrite H. reflexivity. Qed.

(** walkTags over an escaped tag list *)
Lemma frev_rev l : frev l = rev l.
Proof. unfold frev. rewrite rev_append_rev. apply List.app_nil_r. Qed.

Lemma walk_tags_tk : forall wk prev rk l,
  pclean (N.eqb EQ) prev wk = true -> (last wk prev =? BSL) = false ->
  walk_tags_st (TK false prev rk) (wk ++ EQ :: l) = walk_tags_st (TV EQ (rev rk ++ wk) []) l.
Proof.
  induction wk as [|c t IH]; intros prev rk l P L.
  - cbn [last] in L. cbn [app walk_tags_st]. rewrite N.eqb_refl, L. cbn. rewrite frev_rev, List.app_nil_r. reflexivity.
  - cbn [pclean] in P. apply andb_true_iff in P as [P1 P2]. rewrite last_cons in L.
    cbn [app walk_tags_st]. cbn [orb].
    assert (X : (c =? EQ) && negb (prev =? BSL) = false).
    { destruct (prev =? BSL); [apply andb_false_r|]. rewrite orb_false_r in P1.
      apply negb_true_iff in P1. rewrite N.eqb_sym, P1. reflexivity. }
    rewrite X. rewrite (IH c (c :: rk) l P2 L). cbn [rev]. rewrite <- List.app_assoc. reflexivity.
Qed.

Lemma walk_tags_tv : forall wv prev k rv,
  pclean (N.eqb COMMA) prev wv = true -> (last wv prev =? BSL) = false ->
  rev rv ++ wv <> [] ->
  (forall l, walk_tags_st (TV prev k rv) (wv ++ COMMA :: l)
             = (unescape_tag k, unescape_tag (rev rv ++ wv)) :: walk_tags_st (TK false COMMA []) l) /\
  walk_tags_st (TV prev k rv) wv = [(unescape_tag k, unescape_tag (rev rv ++ wv))].
Proof.
  induction wv as [|c t IH]; intros prev k rv P L NE.
  - cbn [last] in L. rewrite List.app_nil_r in *. cbn [app walk_tags_st]. rewrite N.eqb_refl, L. cbn [andb negb].
    destruct rv as [|r0 rv']; [cbn in NE; congruence|]. rewrite frev_rev. split; [intro l|]; reflexivity.
  - cbn [pclean] in P. apply andb_true_iff in P as [P1 P2]. rewrite last_cons in L.
    assert (X : (c =? COMMA) && negb (prev =? BSL) = false).
    { destruct (prev =? BSL); [apply andb_false_r|]. rewrite orb_false_r in P1.
      apply negb_true_iff in P1. rewrite N.eqb_sym, P1. reflexivity. }
    assert (NE' : rev (c :: rv) ++ t <> []) by (cbn [rev]; rewrite <- List.app_assoc; cbn; destruct (rev rv); discriminate).
    destruct (IH c k (c :: rv) P2 L NE') as [I1 I2].
    assert (E : rev (c :: rv) ++ t = rev rv ++ c :: t) by (cbn [rev]; rewrite <- List.app_assoc; reflexivity).
    rewrite E in *. cbn [app walk_tags_st]. rewrite X. split; [intro l; apply I1|apply I2].
Qed.

Definition tag_text (kv : bytes * bytes) : bytes := COMMA :: escape_tag (fst kv) ++ EQ :: escape_tag (snd kv).

Lemma hash_key_text ts : key_tags_ok ts = true -> hash_key ts = flat_map tag_text ts.
Proof.
  unfold hash_key. induction ts as [|[k v] r IH]; [reflexivity|]. cbn [key_tags_ok forallb flat_map].
  intro H. apply andb_true_iff in H as [H1 H2]. rewrite (IH H2). f_equal.
  apply andb_true_iff in H1 as [H1 _]. apply andb_true_iff in H1 as [H1 _]. cbn [fst snd] in *.
  assert (NE : escape_tag v <> []).
  { rewrite escape_tag_set. apply esc_set_nonempty. destruct v; [discriminate|discriminate]. }
  unfold tag_text. cbn [fst snd]. destruct (escape_tag v); [congruence|reflexivity].
Qed.

Lemma walk_tags_st_tags ts : key_tags_ok ts = true ->
  match flat_map tag_text ts with
  | [] => ts = []
  | c :: l => c = COMMA /\ walk_tags_st (TK false COMMA []) l = ts
  end.
Proof.
  induction ts as [|[k v] r IH]; [reflexivity|]. intro H. cbn [key_tags_ok forallb] in H.
  apply andb_true_iff in H as [H1 H2]. specialize (IH H2).
  apply andb_true_iff in H1 as [H1 Sv]. apply andb_true_iff in H1 as [NEv Sk]. cbn [fst snd] in *.
  cbn [flat_map]. unfold tag_text at 1. cbn [fst snd app]. split; [reflexivity|].
  rewrite <- !List.app_assoc. cbn [app].
  rewrite escape_tag_set at 1.
  assert (Pk : pclean (N.eqb EQ) COMMA (esc_set is_tag_stop k) = true).
  { eapply pclean_mono; [|apply (pclean_esc is_tag_stop eq_refl)]. intros c Hc. apply N.eqb_eq in Hc. subst. reflexivity. }
  assert (Lk : (last (esc_set is_tag_stop k) COMMA =? BSL) = false).
  { destruct k as [|k0 k']; [reflexivity|]. apply last_esc; auto. discriminate. }
  rewrite (walk_tags_tk _ COMMA [] _ Pk Lk). cbn [rev app].
  rewrite <- escape_tag_set.
  assert (NEv' : v <> []) by (destruct v; [discriminate|discriminate]).
  assert (Pv : pclean (N.eqb COMMA) EQ (escape_tag v) = true).
  { rewrite escape_tag_set. eapply pclean_mono; [|apply (pclean_esc is_tag_stop eq_refl)].
    intros c Hc. apply N.eqb_eq in Hc. subst. reflexivity. }
  assert (Lv : (last (escape_tag v) EQ =? BSL) = false) by (rewrite escape_tag_set; apply last_esc; auto).
  assert (NEe : rev [] ++ escape_tag v <> []) by (cbn; rewrite escape_tag_set; apply esc_set_nonempty; auto).
  destruct (walk_tags_tv (escape_tag v) EQ (escape_tag k) [] Pv Lv NEe) as [I1 I2]. cbn [rev app] in I1, I2.
  destruct (flat_map tag_text r) as [|c l] eqn:E.
  - subst r. rewrite List.app_nil_r, I2. rewrite !unescape_tag_escape; auto.
  - destruct IH as [-> IH]. rewrite I1, IH. rewrite !unescape_tag_escape; auto.
Qed.

(** * Series key round trip *)
Lemma key_roundtrip n ts :
  key_name_ok n = true -> key_tags_ok ts = true -> parse_key (make_key n ts) = (n, ts).
Proof.
  intros Hn Ht. unfold make_key, parse_key.
  pose proof Hn as Hn'. unfold key_name_ok in Hn'. apply andb_true_iff in Hn' as [NE Sn].
  rewrite (unescape_meas_safe n Sn), (hash_key_text ts Ht).
  pose proof (walk_tags_st_tags ts Ht) as W.
  destruct (scan_meas_tok n [] Hn) as [_ [_ M0]].
  destruct (flat_map tag_text ts) as [|c l] eqn:E.
  - subst ts. rewrite List.app_nil_r, M0, unescape_meas_escape; auto.
  - destruct W as [-> W]. destruct (scan_meas_tok n l Hn) as [M1 _]. rewrite M1.
    rewrite unescape_meas_escape; auto. f_equal.
    (* walkTags: the name ends at the first unescaped comma *)
    unfold walk_tags.
    assert (NE' : n <> []) by (destruct n; [discriminate|discriminate]).
    rewrite escape_meas_set.
    destruct (esc_head_not_comma is_meas_stop n eq_refl NE') as [c0 [w' [Ee C0]]].
    rewrite Ee. cbn [app]. rewrite (scan_to_first COMMA c0 _ C0).
    pose proof (pclean_esc is_meas_stop eq_refl n 0) as P. rewrite Ee in P. cbn in P.
    apply andb_true_iff in P as [_ P].
    assert (P' : pclean (N.eqb COMMA) c0 w' = true).
    { eapply pclean_mono; [|exact P]. intros c Hc. apply N.eqb_eq in Hc. subst. reflexivity. }
    pose proof (last_esc is_meas_stop eq_refl n 0 Sn NE') as L. rewrite Ee, last_cons in L.
    destruct (scan_to_loop_tok COMMA w' c0 l P' L) as [I1 _]. rewrite I1. cbn. exact W.
Qed.

(** * Witnesses against the unguarded statements (closed terms, evaluated) *)
Definition no_floats : N -> bytes := fun _ => [].
Definition pt (name : bytes) (tags : list (bytes * bytes)) : apoint :=
  {| a_name := name; a_tags := tags; a_fields := [([102], VInt 1)]; a_time := Some 5%Z |}.
(** the parser's view of the printed point *)
Definition reparse (prec : precision) (dflt : Z) (pf : N -> bytes) (p : apoint) :=
  let r := parse_points prec dflt (print_point pf prec p) in (map view (fst r), map fst (snd r)).
(** what the property demands it to be *)
Definition same_point (prec : precision) (dflt : Z) (p : apoint) (v : pview) : Prop :=
  v_name v = a_name p /\ v_tags v = a_tags p /\ v_fields v = a_fields p /\
  v_time v = expected_time prec dflt p.

(* tag value  a\  : NewPoint accepts, String() = m,t=a\ f=1i 5 is rejected *)
Definition w_bsl_tag := pt [109] [([116], [97; 92])].
(* measurement  m\  *)
Definition w_bsl_name := pt [109; 92] [].
(* tag keys [a space] and [a dquote] are sorted, their escaped forms are not: the parser re-sorts *)
Definition w_resort := pt [109] [([97; 32], [120]); ([97; 34], [121])].
(* measurement #m : the printed line is a comment *)
Definition w_comment := pt [35; 109] [].

Lemma lp_witnesses :
  new_point_ok w_bsl_tag = true /\ reparse P_ns 0 no_floats w_bsl_tag = ([], [print_point no_floats P_ns w_bsl_tag]) /\
  new_point_ok w_bsl_name = true /\ reparse P_ns 0 no_floats w_bsl_name = ([], [print_point no_floats P_ns w_bsl_name]) /\
  new_point_ok w_comment = true /\ reparse P_ns 0 no_floats w_comment = ([], []) /\
  new_point_ok w_resort = true /\
  map v_tags (fst (reparse P_ns 0 no_floats w_resort)) = [[([97; 34], [121]); ([97; 32], [120])]].
Proof. vm_compute. repeat split. Qed.

Lemma key_witness :
  parse_key (make_key [109] [([116], [97; 92]); ([117], [118])])
  = ([109], [([116], [97; 44; 117; 61; 118])]).     (* one tag  t = a,u=v  *)
Proof. vm_compute. reflexivity. Qed.

(** * Line protocol round trip, section by section *)

(** ** The accessors on the printed key: Name() and Tags() *)
Lemma unescape4_esc (S : N -> bool) : (forall c, S c = true -> is_esc_char c = true) ->
  forall n, bsl_safe is_esc_char n = true -> unescape4 (esc_set S n) = n.
Proof.
  intros SS. induction n as [|c t IH]; intro H; [reflexivity|].
  pose proof (bsl_safe_tail _ _ _ H) as Ht. specialize (IH Ht).
  rewrite esc_set_cons. destruct (S c) eqn:Sc; cbn [app].
  - cbn [unescape4]. rewrite N.eqb_refl, (SS _ Sc). f_equal. exact IH.
  - destruct (c =? BSL) eqn:B; cbn [unescape4]; rewrite B; [|f_equal; exact IH].
    cbn [bsl_safe] in H. rewrite B in H. destruct t as [|a t']; [discriminate|].
    apply andb_true_iff in H as [Ha _]. apply negb_true_iff in Ha.
    assert (Sa : S a = false) by (destruct (S a) eqn:E; [rewrite (SS _ E) in Ha; discriminate|reflexivity]).
    rewrite esc_set_cons, Sa in *. cbn [app] in *. rewrite Ha. f_equal. exact IH.
Qed.

Lemma meas_stop_esc c : is_meas_stop c = true -> is_esc_char c = true.
Proof. unfold is_meas_stop, is_esc_char. destruct (c =? COMMA), (c =? SP); cbn; auto; discriminate. Qed.
Lemma tag_stop_not_bsl : is_tag_stop BSL = false. Proof. reflexivity. Qed.

Lemma name_ok_key n : name_ok n = true -> key_name_ok n = true /\ bsl_safe is_esc_char n = true.
Proof.
  unfold name_ok, key_name_ok. intro H. apply andb_true_iff in H as [H S]. apply andb_true_iff in H as [H _].
  split; [|exact S]. apply andb_true_iff. split; [destruct n; [discriminate|reflexivity]|].
  eapply bsl_safe_mono; [|exact S]. apply meas_stop_esc.
Qed.

(** scanTo(key, 0, ',') on a printed key stops exactly after the escaped name *)
Lemma scan_to_comma_make_key n ts : key_name_ok n = true -> key_tags_ok ts = true ->
  scan_to COMMA (make_key n ts) = (escape_meas n, hash_key ts) /\
  (hash_key ts = [] \/ exists l, hash_key ts = COMMA :: l).
Proof.
  intros Hn Ht. unfold make_key.
  pose proof Hn as Hn'. unfold key_name_ok in Hn'. apply andb_true_iff in Hn' as [NE Sn].
  rewrite (unescape_meas_safe n Sn).
  assert (NE' : n <> []) by (destruct n; [discriminate|discriminate]).
  assert (HK : hash_key ts = [] \/ exists l, hash_key ts = COMMA :: l).
  { rewrite (hash_key_text ts Ht). destruct ts as [|[k v] r]; [left; reflexivity|right]. cbn. eauto. }
  split; [|exact HK].
  rewrite escape_meas_set.
  destruct (esc_head_not_comma is_meas_stop n eq_refl NE') as [c0 [w' [Ee C0]]].
  rewrite Ee. cbn [app]. rewrite (scan_to_first COMMA c0 _ C0).
  pose proof (pclean_esc is_meas_stop eq_refl n 0) as P. rewrite Ee in P. cbn [pclean] in P.
  apply andb_true_iff in P as [_ P].
  assert (P' : pclean (N.eqb COMMA) c0 w' = true).
  { eapply pclean_mono; [|exact P]. intros c Hc. apply N.eqb_eq in Hc. subst. reflexivity. }
  pose proof (last_esc is_meas_stop eq_refl n 0 Sn NE') as L. rewrite Ee, last_cons in L.
  destruct HK as [->|[l ->]].
  - rewrite List.app_nil_r. destruct (scan_to_loop_tok COMMA w' c0 [] P' L) as [_ I2]. rewrite I2. reflexivity.
  - destruct (scan_to_loop_tok COMMA w' c0 l P' L) as [I1 _]. rewrite I1. reflexivity.
Qed.

Lemma name_of_make_key n ts : name_ok n = true -> key_tags_ok ts = true -> name_of (make_key n ts) = n.
Proof.
  intros Hn Ht. destruct (name_ok_key n Hn) as [Hk Se].
  unfold name_of. destruct (scan_to_comma_make_key n ts Hk Ht) as [-> _]. cbn [fst].
  rewrite escape_meas_set. apply unescape4_esc; [apply meas_stop_esc|exact Se].
Qed.

Lemma walk_tags_make_key n ts : key_name_ok n = true -> key_tags_ok ts = true -> walk_tags (make_key n ts) = ts.
Proof.
  intros Hn Ht. unfold walk_tags.
  destruct (scan_to_comma_make_key n ts Hn Ht) as [E HK]. rewrite E.
  assert (NEk : make_key n ts <> []).
  { unfold make_key. pose proof Hn as Hn'. unfold key_name_ok in Hn'. apply andb_true_iff in Hn' as [NE Sn].
    rewrite (unescape_meas_safe n Sn), escape_meas_set.
    assert (esc_set is_meas_stop n <> []) by (apply esc_set_nonempty; destruct n; [discriminate|discriminate]).
    destruct (esc_set is_meas_stop n); [congruence|discriminate]. }
  destruct (make_key n ts) as [|k0 kr]; [congruence|].
  assert (NEn : escape_meas n <> []).
  { rewrite escape_meas_set. apply esc_set_nonempty. unfold key_name_ok in Hn. apply andb_true_iff in Hn as [NE _].
    destruct n; [discriminate|discriminate]. }
  destruct (escape_meas n) as [|e0 er]; [congruence|].
  pose proof (walk_tags_st_tags ts Ht) as W. rewrite <- (hash_key_text ts Ht) in W.
  destruct (hash_key ts) as [|c l]; [symmetry; exact W|]. destruct W as [_ W]. exact W.
Qed.

(** ** scanKey on the printed key *)
Fixpoint pushes (w : bytes) (r : tres) : tres :=
  match w with [] => r | c :: t => push c (pushes t r) end.

Lemma pushes_ok w s ss rest : pushes w (Ok (s :: ss, rest)) = Ok ((w ++ s) :: ss, rest).
Proof. induction w as [|c t IH]; [reflexivity|]. cbn [pushes app]. rewrite IH. reflexivity. Qed.

Lemma scan_tags_kloop : forall wk prev l,
  pclean is_tag_stop prev wk = true -> (last wk prev =? BSL) = false ->
  scan_tags KLoop prev (wk ++ EQ :: l) = pushes wk (push EQ (scan_tags VFirst EQ l)).
Proof.
  induction wk as [|c t IH]; intros prev l P L.
  - cbn [last] in L. cbn [app scan_tags pushes]. rewrite L. cbn. reflexivity.
  - cbn [pclean] in P. apply andb_true_iff in P as [P1 P2]. rewrite last_cons in L.
    cbn [app scan_tags pushes]. rewrite <- (IH c l P2 L).
    destruct (prev =? BSL); [cbn [negb andb]; rewrite !andb_false_r; reflexivity|].
    rewrite orb_false_r in P1. apply negb_true_iff in P1. unfold is_tag_stop in P1.
    apply orb_false_iff in P1 as [P1 C3]. apply orb_false_iff in P1 as [C1 C2].
    rewrite C1, C2, C3. reflexivity.
Qed.

Lemma scan_tags_vloop : forall wv prev,
  pclean is_tag_stop prev wv = true -> (last wv prev =? BSL) = false ->
  (forall l, scan_tags VLoop prev (wv ++ COMMA :: l) = pushes wv (newseg (scan_tags KFirst COMMA l))) /\
  (forall l, scan_tags VLoop prev (wv ++ SP :: l) = pushes wv (Ok ([[]], SP :: l))).
Proof.
  induction wv as [|c t IH]; intros prev P L.
  - cbn [last] in L. split; intro l; cbn [app scan_tags pushes]; rewrite L; reflexivity.
  - cbn [pclean] in P. apply andb_true_iff in P as [P1 P2]. rewrite last_cons in L.
    destruct (IH c P2 L) as [I1 I2].
    assert (X : (c =? EQ) && negb (prev =? BSL) = false /\ (c =? COMMA) && negb (prev =? BSL) = false /\
                (c =? SP) && negb (prev =? BSL) = false).
    { destruct (prev =? BSL); [rewrite !andb_false_r; auto|].
      rewrite orb_false_r in P1. apply negb_true_iff in P1. unfold is_tag_stop in P1.
      apply orb_false_iff in P1 as [P1 C3]. apply orb_false_iff in P1 as [C1 C2]. rewrite C1, C2, C3. auto. }
    destruct X as [X1 [X2 X3]].
    split; intro l; cbn [app scan_tags pushes]; rewrite X1, X2, X3; [rewrite I1|rewrite I2]; reflexivity.
Qed.

Definition seg_of (kv : bytes * bytes) : bytes := escape_tag (fst kv) ++ EQ :: escape_tag (snd kv).

Lemma tag_text_seg kv : tag_text kv = COMMA :: seg_of kv.
Proof. reflexivity. Qed.

Lemma esc_tag_head s : s <> [] -> exists c0 w', escape_tag s = c0 :: w' /\ is_tag_stop c0 = false.
Proof.
  intro NE. destruct s as [|c t]; [congruence|]. rewrite escape_tag_set, esc_set_cons.
  destruct (is_tag_stop c) eqn:E; cbn; eexists _, _; (split; [reflexivity|]); [reflexivity|exact E].
Qed.

Definition tagpair_ok (kv : bytes * bytes) : bool :=
  nonempty (fst kv) && nonempty (snd kv) && bsl_safe is_tag_stop (fst kv) && bsl_safe is_tag_stop (snd kv).

(** one tag "k=v" starting in state KFirst, followed by [l] *)
Lemma scan_tags_one kv prev : tagpair_ok kv = true ->
  (forall l, scan_tags KFirst prev (seg_of kv ++ COMMA :: l) = pushes (seg_of kv) (newseg (scan_tags KFirst COMMA l))) /\
  (forall l, scan_tags KFirst prev (seg_of kv ++ SP :: l) = pushes (seg_of kv) (Ok ([[]], SP :: l))).
Proof.
  destruct kv as [k v]. unfold tagpair_ok, seg_of. cbn [fst snd]. intro H.
  apply andb_true_iff in H as [H Sv]. apply andb_true_iff in H as [H Sk]. apply andb_true_iff in H as [NEk NEv].
  assert (NEk' : k <> []) by (destruct k; [discriminate|discriminate]).
  assert (NEv' : v <> []) by (destruct v; [discriminate|discriminate]).
  destruct (esc_tag_head k NEk') as [k0 [kw [Ek Ck]]]. destruct (esc_tag_head v NEv') as [v0 [vw [Ev Cv]]].
  pose proof (pclean_esc is_tag_stop eq_refl k 0) as Pk. rewrite <- escape_tag_set, Ek in Pk.
  cbn [pclean] in Pk. apply andb_true_iff in Pk as [_ Pk].
  pose proof (last_esc is_tag_stop eq_refl k 0 Sk NEk') as Lk. rewrite <- escape_tag_set, Ek, last_cons in Lk.
  pose proof (pclean_esc is_tag_stop eq_refl v 0) as Pv. rewrite <- escape_tag_set, Ev in Pv.
  cbn [pclean] in Pv. apply andb_true_iff in Pv as [_ Pv].
  pose proof (last_esc is_tag_stop eq_refl v 0 Sv NEv') as Lv. rewrite <- escape_tag_set, Ev, last_cons in Lv.
  destruct (scan_tags_vloop vw v0 Pv Lv) as [V1 V2].
  unfold is_tag_stop in Ck, Cv. apply orb_false_iff in Ck as [Ck Ck3]. apply orb_false_iff in Ck as [Ck1 Ck2].
  apply orb_false_iff in Cv as [Cv Cv3]. apply orb_false_iff in Cv as [Cv1 Cv2].
  rewrite Ek, Ev.
  split; intro l; cbn [app scan_tags pushes]; rewrite Ck1, Ck2, Ck3; cbn [orb];
    rewrite <- List.app_assoc; cbn [app]; rewrite (scan_tags_kloop kw k0 _ Pk Lk);
    cbn [scan_tags]; rewrite Cv1, Cv2; cbn [orb]; [rewrite V1|rewrite V2];
    rewrite <- !List.app_assoc; cbn [app];
    (* pushes distributes over the concatenation *)
    clear; induction kw as [|x kw IH]; cbn [app pushes]; [reflexivity|rewrite IH; reflexivity].
Qed.

Fixpoint tags_body (ts : list (bytes * bytes)) : bytes :=   (* k1=v1,k2=v2 *)
  match ts with
  | [] => []
  | [kv] => seg_of kv
  | kv :: r => seg_of kv ++ COMMA :: tags_body r
  end.

Lemma flat_map_tag_text ts : ts <> [] -> flat_map tag_text ts = COMMA :: tags_body ts.
Proof.
  induction ts as [|kv r IH]; [congruence|]. intros _. cbn [flat_map]. rewrite tag_text_seg.
  destruct r as [|kv' r']; [cbn; rewrite List.app_nil_r; reflexivity|].
  rewrite IH; [|discriminate]. cbn [app tags_body]. rewrite <- List.app_assoc. reflexivity.
Qed.

Lemma scan_tags_all ts : ts <> [] -> forallb tagpair_ok ts = true ->
  forall prev rest, scan_tags KFirst prev (tags_body ts ++ SP :: rest) = Ok (map seg_of ts, SP :: rest).
Proof.
  induction ts as [|kv r IH]; [congruence|]. intros _ H prev rest. cbn [forallb] in H.
  apply andb_true_iff in H as [H1 H2]. destruct (scan_tags_one kv prev H1) as [S1 S2].
  destruct r as [|kv' r'].
  - cbn [tags_body map]. rewrite S2, pushes_ok, List.app_nil_r. reflexivity.
  - change (tags_body (kv :: kv' :: r')) with (seg_of kv ++ COMMA :: tags_body (kv' :: r')).
    rewrite <- List.app_assoc. cbn [app]. rewrite S1, (IH ltac:(discriminate) H2 COMMA rest).
    cbn [newseg]. rewrite pushes_ok, List.app_nil_r. reflexivity.
Qed.
