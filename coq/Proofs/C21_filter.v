(** C21 — ReadFilter: which series x field rows are returned, and exactly which points. *)
From Coq Require Import String Ascii Sorting.Sorted Permutation.
From Verif Require Import Base.Prelude Model.C21 Proofs.C21_order.

(** * The two-stage predicate evaluation equals direct evaluation *)
Lemma index_cond_field_indep p s f f' : eval (index_cond p) s f = eval (index_cond p) s f'.
Proof.
  induction p as [|neq k v|op n|a IHa b IHb|a IHa b IHb]; cbn; auto.
  - destruct (String.eqb k K_FIELD) eqn:E; cbn; auto.
    unfold ref_value. rewrite E. reflexivity.
  - rewrite IHa, IHb. reflexivity.
  - rewrite IHa, IHb. reflexivity.
Qed.

(** replacing [_field] comparisons by [true] only weakens the condition (there is no
    negation in the expression language, [!=] is a leaf) *)
Lemma index_cond_weaker p s f : eval p s f = true -> eval (index_cond p) s f = true.
Proof.
  induction p as [|neq k v|op n|a IHa b IHb|a IHa b IHb]; cbn; auto.
  - destruct (String.eqb k K_FIELD); cbn; auto.
  - rewrite !andb_true_iff. intuition.
  - rewrite !orb_true_iff. intuition.
Qed.

Lemma opt_index_weaker p s f : opt_eval p s f = true -> opt_index_eval p s = true.
Proof.
  destruct p as [p|]; cbn; auto. intro H.
  rewrite (index_cond_field_indep p s EmptyString f). apply index_cond_weaker, H.
Qed.

(** index filter followed by the per-row filter = the predicate itself *)
Lemma two_stage_eval p s f :
  opt_index_eval p s && opt_eval p s f = opt_eval p s f.
Proof.
  destruct (opt_eval p s f) eqn:E; [|apply andb_false_r].
  rewrite (opt_index_weaker _ _ _ E). reflexivity.
Qed.

(** * Rows: each matching series x field once, in key order *)
Definition stored_series (shs : list shard) (s : series) : Prop :=
  exists sh, In sh shs /\ In s (shard_series sh).
Definition stored_field (shs : list shard) (name f : string) : Prop :=
  exists sh, In sh shs /\ In f (shard_fields sh name).

Lemma in_series_rows shs p s f :
  In (s, f) (series_rows shs p) <->
  stored_series shs s /\ stored_field shs (s_name s) f /\ opt_eval p s f = true.
Proof.
  unfold series_rows, all_series, fields_of. rewrite in_flat_map. split.
  - intros [s' [Hs Hf]]. apply in_map_iff in Hf as [f' [E Hf]]. inversion E; subst.
    apply filter_In in Hs as [Hs _]. apply filter_In in Hf as [Hf Hp].
    apply (proj1 (to_set_in _ series_cmp_order _ _)) in Hs.
    apply (proj1 (to_set_in _ scmp_order _ _)) in Hf.
    apply in_flat_map in Hs, Hf. repeat split; auto.
  - intros [Hs [Hf Hp]]. exists s. split.
    + apply filter_In. split.
      * apply (proj2 (to_set_in _ series_cmp_order _ _)). apply in_flat_map. exact Hs.
      * eapply opt_index_weaker, Hp.
    + apply in_map. apply filter_In. split; auto.
      apply (proj2 (to_set_in _ scmp_order _ _)). apply in_flat_map. exact Hf.
Qed.

Lemma sorted_app {A} (R : A -> A -> Prop) l1 l2 :
  StronglySorted R l1 -> StronglySorted R l2 ->
  (forall x y, In x l1 -> In y l2 -> R x y) -> StronglySorted R (l1 ++ l2).
Proof.
  induction 1 as [|x l1 S IH F]; cbn; intros S2 H; auto.
  constructor.
  - apply IH; [exact S2|]. intros a b Ha Hb. apply H; [right; exact Ha | exact Hb].
  - rewrite Forall_forall in *. intros y Hy. apply in_app_or in Hy as [Hy|Hy]; [auto|].
    apply H; [left; reflexivity | exact Hy].
Qed.

Lemma sorted_filter_rel {A} (R : A -> A -> Prop) (f : A -> bool) l :
  StronglySorted R l -> StronglySorted R (filter f l).
Proof.
  induction 1 as [|x l S IH F]; cbn; [constructor|].
  destruct (f x); auto. constructor; auto.
  rewrite Forall_forall in *. intros y Hy. apply filter_In in Hy as [Hy _]. auto.
Qed.

Lemma flat_map_pair_sorted {A B} (ca : A -> A -> comparison) (cb : B -> B -> comparison)
      (g : A -> list B) (l : list A) :
  order_ok ca ->
  StronglySorted (clt ca) l -> (forall a, StronglySorted (clt cb) (g a)) ->
  StronglySorted (clt (fun x y : A * B => lex (ca (fst x) (fst y)) (cb (snd x) (snd y))))
                 (flat_map (fun a => map (fun b => (a, b)) (g a)) l).
Proof.
  intros OA S G. induction S as [|a l S IH F]; cbn; [constructor|].
  apply sorted_app; auto.
  - specialize (G a). induction G as [|b bs Sb IHb Fb]; cbn; constructor; auto.
    rewrite Forall_forall in *. intros [a' b'] H. apply in_map_iff in H as [b'' [E H]].
    inversion E; subst. unfold clt; cbn. rewrite (ok_refl _ OA). cbn. apply Fb, H.
  - intros [a1 b1] [a2 b2] H1 H2. apply in_map_iff in H1 as [? [E1 _]]. inversion E1; subst.
    apply in_flat_map in H2 as [a' [Ha' H2]]. apply in_map_iff in H2 as [? [E2 _]].
    inversion E2; subst. rewrite Forall_forall in F. unfold clt; cbn.
    rewrite (F _ Ha'). reflexivity.
Qed.

Lemma series_rows_sorted shs p : StronglySorted (clt sf_cmp) (series_rows shs p).
Proof.
  unfold series_rows.
  apply (flat_map_pair_sorted series_cmp scmp
           (fun s => filter (fun f => opt_eval p s f) (fields_of shs (s_name s)))).
  - exact series_cmp_order.
  - apply sorted_filter, to_set_sorted, series_cmp_order.
  - intro s. apply sorted_filter, to_set_sorted, scmp_order.
Qed.

(** * Points: the multi-shard cursor neither drops nor duplicates *)
Definition pt_lt (a b : point) : Prop := (fst a < fst b)%Z.

Record wf_shard (sh : shard) : Prop := mkWfSh {
  wf_nonempty : (sh_start sh < sh_end sh)%Z;
  (** every stored point lies in the shard's time range (C18) and in the writable range *)
  wf_range : forall s f t v, In (t, v) (shard_points sh s f) ->
             (sh_start sh <= t < sh_end sh)%Z /\ (MinNanoTime <= t <= MaxNanoTime)%Z;
  (** the engine returns the points of a series field in strictly increasing time order *)
  wf_sorted : forall s f, StronglySorted pt_lt (shard_points sh s f)
}.

Definition disjoint (a b : shard) : Prop :=
  (sh_end a <= sh_start b)%Z \/ (sh_end b <= sh_start a)%Z.

Record wf_dataset (shs : list shard) : Prop := mkWfDs {
  wf_shards : forall sh, In sh shs -> wf_shard sh;
  wf_nodup : NoDup shs;
  wf_disjoint : forall a b, In a shs -> In b shs -> a <> b -> disjoint a b
}.

Lemma sg_asym x y : sg_ltb x y = true -> sg_ltb y x = false.
Proof.
  unfold sg_ltb. rewrite (Z.eqb_sym (sh_end y)).
  destruct (Z.eqb_spec (sh_end x) (sh_end y)); lia.
Qed.
Lemma sg_ntrans x y z : sg_ltb y x = false -> sg_ltb z y = false -> sg_ltb z x = false.
Proof.
  unfold sg_ltb.
  destruct (Z.eqb_spec (sh_end y) (sh_end x)), (Z.eqb_spec (sh_end z) (sh_end y)),
    (Z.eqb_spec (sh_end z) (sh_end x)); lia.
Qed.

Definition before (a b : shard) : Prop := (sh_end a <= sh_start b)%Z.

Lemma select_in shs lo hi sh :
  In sh (select_shards shs lo hi) <-> In sh shs /\ overlaps lo hi sh = true.
Proof. unfold select_shards. rewrite isort_in, filter_In. tauto. Qed.

Lemma select_ordered shs lo hi :
  wf_dataset shs -> StronglySorted before (select_shards shs lo hi).
Proof.
  intros W. unfold select_shards.
  pose proof (isort_sorted sg_ltb sg_asym sg_ntrans (filter (overlaps lo hi) shs)) as S.
  assert (ND : NoDup (isort sg_ltb (filter (overlaps lo hi) shs))).
  { eapply Permutation_NoDup; [apply isort_perm|]. apply NoDup_filter, (wf_nodup _ W). }
  assert (IN : forall sh, In sh (isort sg_ltb (filter (overlaps lo hi) shs)) -> In sh shs).
  { intros sh H. apply isort_in, filter_In in H. tauto. }
  induction S as [|a l S IH F]; [constructor|].
  inversion ND as [|? ? Hnot ND']; subst.
  constructor.
  - apply IH; auto. intros; apply IN; right; auto.
  - rewrite Forall_forall in *. intros b Hb.
    assert (a <> b) by (intro; subst; auto).
    pose proof (wf_nonempty _ (wf_shards _ W a (IN a (or_introl eq_refl)))) as Na.
    pose proof (wf_nonempty _ (wf_shards _ W b (IN b (or_intror Hb)))) as Nb.
    destruct (wf_disjoint _ W a b (IN a (or_introl eq_refl)) (IN b (or_intror Hb)) H) as [D|D];
      [exact D|].
    specialize (F b Hb). unfold nlt, sg_ltb in F. unfold before.
    destruct (Z.eqb_spec (sh_end b) (sh_end a)); lia.
Qed.

Lemma in_shard_cursor lo hi s f sh t v :
  In (t, v) (shard_cursor lo hi s f sh) <->
  In (t, v) (shard_points sh s f) /\ (lo <= t <= hi)%Z.
Proof.
  unfold shard_cursor, in_win. rewrite filter_In; cbn. rewrite andb_true_iff, !Z.leb_le. tauto.
Qed.

Lemma multi_cursor_sorted l lo hi s f :
  (forall sh, In sh l -> wf_shard sh) -> StronglySorted before l ->
  StronglySorted pt_lt (multi_cursor l lo hi s f).
Proof.
  intros W S. unfold multi_cursor. induction S as [|a l S IH F]; cbn; [constructor|].
  apply sorted_app.
  - apply sorted_filter_rel. apply (wf_sorted _ (W a (or_introl eq_refl))).
  - apply IH. intros; apply W; right; auto.
  - intros [t v] [t' v'] H1 H2. apply in_shard_cursor in H1 as [H1 _].
    apply in_flat_map in H2 as [b [Hb H2]]. apply in_shard_cursor in H2 as [H2 _].
    rewrite Forall_forall in F. specialize (F b Hb). unfold before in F.
    apply (wf_range _ (W a (or_introl eq_refl))) in H1.
    apply (wf_range _ (W b (or_intror Hb))) in H2. unfold pt_lt; cbn. lia.
Qed.

(** the window [lo, e-1] after clamping = the requested [start, end) on writable times
    below MaxNanoTime *)
Lemma window_equiv start end_ t :
  (MinNanoTime <= t < MaxNanoTime)%Z ->
  ((clamp_start start <= t <= clamp_end end_ - 1)%Z <-> (start <= t < end_)%Z).
Proof.
  unfold clamp_start, clamp_end.
  destruct (Z.leb_spec start MinNanoTime), (Z.geb_spec end_ MaxNanoTime); lia.
Qed.

Definition stored_point (shs : list shard) (s : series) (f : string) (t v : Z) : Prop :=
  exists sh, In sh shs /\ In (t, v) (shard_points sh s f).

Lemma multi_cursor_in shs start end_ s f t v :
  wf_dataset shs -> (t < MaxNanoTime)%Z ->
  let lo := clamp_start start in
  let e := clamp_end end_ in
  In (t, v) (multi_cursor (select_shards shs lo e) lo (e - 1) s f) <->
  stored_point shs s f t v /\ (start <= t < end_)%Z.
Proof.
  intros W Ht lo e. unfold multi_cursor. rewrite in_flat_map. split.
  - intros [sh [Hsh H]]. apply select_in in Hsh as [Hsh _].
    apply in_shard_cursor in H as [H Hw].
    destruct (wf_range _ (wf_shards _ W sh Hsh) _ _ _ _ H) as [_ R].
    split; [exists sh; auto|]. apply window_equiv; [lia|exact Hw].
  - intros [[sh [Hsh H]] Hw].
    destruct (wf_range _ (wf_shards _ W sh Hsh) _ _ _ _ H) as [R1 R2].
    apply (window_equiv start end_ t) in Hw; [|lia]. fold lo e in Hw.
    exists sh. split.
    + apply select_in. split; auto. unfold overlaps.
      rewrite andb_true_iff, Z.leb_le, Z.ltb_lt. lia.
    + apply in_shard_cursor. auto.
Qed.

(** a point written at the last writable instant is never returned: the end of the window is
    clamped to MaxNanoTime and is exclusive *)
Lemma max_time_point_lost shs start end_ s f v :
  let lo := clamp_start start in
  let e := clamp_end end_ in
  ~ In (MaxNanoTime, v) (multi_cursor (select_shards shs lo e) lo (e - 1) s f).
Proof.
  intros lo e H. unfold multi_cursor in H. apply in_flat_map in H as [sh [_ H]].
  apply in_shard_cursor in H as [_ H]. subst e. unfold clamp_end in H.
  destruct (Z.geb_spec end_ MaxNanoTime); lia.
Qed.

(** * Field-value conditions *)
Definition vpass (c : option vexp) (v : Z) : bool :=
  match c with None => true | Some e => veval e v end.

Lemma red_and_eval x y v : veval (red_and x y) v = veval x v && veval y v.
Proof.
  unfold red_and.
  destruct x as [[]| | |], y as [[]| | |]; cbn; rewrite ?andb_true_r, ?andb_false_r; reflexivity.
Qed.
Lemma red_or_eval x y v : veval (red_or x y) v = veval x v || veval y v.
Proof.
  unfold red_or.
  destruct x as [[]| | |], y as [[]| | |]; cbn; rewrite ?orb_true_r, ?orb_false_r; reflexivity.
Qed.

(** the reduced per-row expression decides the full predicate on the row's values *)
Lemma veval_reduce p s f v : veval (reduce p s f) v = eval_v p s f v.
Proof.
  induction p as [|neq k w|op n|a IHa b IHb|a IHa b IHb]; cbn; auto.
  - rewrite red_and_eval, IHa, IHb. reflexivity.
  - rewrite red_or_eval, IHa, IHb. reflexivity.
Qed.

Lemma value_cond_spec p s f v : vpass (value_cond p s f) v = opt_eval_v p s f v.
Proof.
  destruct p as [p|]; cbn; auto.
  destruct (reduce p s f) as [[]| | |] eqn:E; cbn; rewrite <- veval_reduce, E; reflexivity.
Qed.

(** a point can only pass the full predicate if the row condition holds *)
Lemma eval_v_row p s f v : eval_v p s f v = true -> eval p s f = true.
Proof.
  induction p as [|neq k w|op n|a IHa b IHb|a IHa b IHb]; cbn; auto.
  - rewrite !andb_true_iff. intuition.
  - rewrite !orb_true_iff. intuition.
Qed.

Lemma vfilter_app c a b : vfilter c (a ++ b) = vfilter c a ++ vfilter c b.
Proof. destruct c; cbn; auto. apply filter_app. Qed.
Lemma vfilter_flat_map {A} c (g : A -> list point) l :
  vfilter c (flat_map g l) = flat_map (fun x => vfilter c (g x)) l.
Proof.
  induction l as [|x l IH]; cbn; [destruct c; reflexivity|]. rewrite vfilter_app, IH. reflexivity.
Qed.
Lemma in_vfilter c pts t v : In (t, v) (vfilter c pts) <-> In (t, v) pts /\ vpass c v = true.
Proof. destruct c; cbn; [rewrite filter_In; cbn|]; tauto. Qed.
Lemma vfilter_sorted c pts : StronglySorted pt_lt pts -> StronglySorted pt_lt (vfilter c pts).
Proof. destruct c; cbn; auto. apply sorted_filter_rel. Qed.

(** a shard whose measurement lacks the field holds no point of the series field *)
Lemma no_field_no_points sh s f : has_field sh s f = false -> shard_points sh s f = [].
Proof.
  unfold has_field, shard_points, shard_fields. intro H.
  induction (sh_data sh) as [|sd l IH]; cbn in *; auto.
  destruct (series_eqb (sd_series sd) s) eqn:E.
  - apply series_eqb_eq in E. subst s. rewrite String.eqb_refl in H.
    rewrite existsb_app, orb_false_iff in H. destruct H as [H1 H2]. rewrite (IH H2), app_nil_r.
    clear IH H2. induction (sd_fields sd) as [|[g pts] fs IHf]; cbn in *; auto.
    rewrite orb_false_iff in H1. destruct H1 as [H1 H1']. rewrite String.eqb_sym, H1. cbn.
    apply IHf, H1'.
  - apply IH. destruct (String.eqb (s_name (sd_series sd)) (s_name s)); auto.
    rewrite existsb_app, orb_false_iff in H. tauto.
Qed.

Lemma multi_cursor_skip shs lo hi s f :
  multi_cursor (skip_nil shs s f) lo hi s f = multi_cursor shs lo hi s f.
Proof.
  unfold multi_cursor. induction shs as [|sh shs IH]; cbn; auto.
  destruct (has_field sh s f) eqn:E; cbn; auto.
  unfold shard_cursor at 2. rewrite (no_field_no_points _ _ _ E). cbn. exact IH.
Qed.

Lemma st_get_clear st ty : st_get (st_clear st ty) ty = None.
Proof.
  unfold st_clear. induction st as [|[t e] st IH]; cbn; auto.
  destruct (N.eqb t ty) eqn:E; cbn; auto. rewrite E. exact IH.
Qed.

(** The shared cursor returns exactly the row's own points passing the row's own value
    condition, whatever state the earlier rows left behind: [reset] either re-arms the filter
    with the row's condition or clears it. *)
Lemma multi_cursor_v_ok st ty cond shs lo hi s f :
  fst (multi_cursor_v st ty cond shs lo hi s f) = vfilter cond (multi_cursor shs lo hi s f).
Proof.
  rewrite <- multi_cursor_skip. unfold multi_cursor_v.
  destruct (skip_nil shs s f) as [|sh rest]; cbn [fst].
  { destruct cond; reflexivity. }
  unfold multi_cursor. cbn [flat_map]. rewrite vfilter_app, vfilter_flat_map. f_equal.
  destruct cond as [e|].
  - cbn [st_get st_set]. rewrite N.eqb_refl. reflexivity.
  - rewrite st_get_clear. reflexivity.
Qed.

(** every row of a request is exact *)
Definition exact_row (sel : list shard) (lo hi : Z) (r : srow) : row :=
  (srow_tags r, vfilter (r_cond r) (multi_cursor sel lo hi (r_s r) (r_f r))).

Lemma read_rows_exact ty sel lo hi rows : forall st,
  fst (read_rows ty sel lo hi st rows) = map (exact_row sel lo hi) rows.
Proof.
  induction rows as [|r rows IH]; intros st; cbn; auto.
  unfold read_one.
  pose proof (multi_cursor_v_ok st (ty_of ty (r_f r)) (r_cond r) sel lo hi (r_s r) (r_f r)) as E.
  destruct (multi_cursor_v st (ty_of ty (r_f r)) (r_cond r) sel lo hi (r_s r) (r_f r))
    as [pts st1]. cbn [fst] in E.
  specialize (IH st1). destruct (read_rows ty sel lo hi st1 rows) as [xs st2]. cbn [fst] in *.
  unfold exact_row at 1. rewrite E, IH. reflexivity.
Qed.
