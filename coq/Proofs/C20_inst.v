(** C20 — the five accumulator kernels compute the list-level aggregates, and the assembled
    statement: model run = oracle (reference over the flat series). *)
From Coq Require Import ZifyBool Sorting.Sorted.
From Verif Require Import Base.Prelude Model.C20 Proofs.C20 Proofs.C20_ref Proofs.C20_sel.
Open Scope Z_scope.

Notation pt := (Z * val)%type.

Lemma wrap64_idem_l a b : wrap64 (wrap64 a + b) = wrap64 (a + b).
Proof.
  unfold wrap64. f_equal.
  replace ((a + two63) mod two64 - two63 + b + two63) with ((a + two63) mod two64 + b) by lia.
  rewrite Z.add_mod_idemp_l by (unfold two64; lia). f_equal. lia.
Qed.

Lemma kfold_count (g : list pt) : forall ts v n h,
  kfold K_count g (ts, v, wrap64 n) h = (ts, v, wrap64 (n + Z.of_nat (length g))).
Proof.
  induction g as [|p g IH]; intros ts v n h; cbn [kfold length].
  - f_equal. f_equal. lia.
  - cbn [k_step K_count]. rewrite wrap64_idem_l, IH. f_equal. f_equal. lia.
Qed.

Lemma kfold_sum t (g : list pt) : forall ts v n h,
  kfold (K_sum t) g (ts, v, n) h = (ts, fold_left v_add (map snd g) v, n).
Proof.
  induction g as [|p g IH]; intros ts v n h; cbn [kfold map fold_left]; [reflexivity|].
  cbn [k_step K_sum]. apply IH.
Qed.

Lemma kfold_mean t (g : list pt) : forall ts v n h,
  kfold (K_mean t) g (ts, v, wrap64 n) h
  = (ts, fold_left v_add (map snd g) v, wrap64 (n + Z.of_nat (length g))).
Proof.
  induction g as [|p g IH]; intros ts v n h; cbn [kfold map fold_left length].
  - f_equal. f_equal. lia.
  - cbn [k_step K_mean]. rewrite wrap64_idem_l, IH. f_equal. f_equal. lia.
Qed.

Lemma kfold_sel t better (g : list pt) : forall (cur : pt) n,
  kfold (K_sel t better) g (fst cur, snd cur, n) true
  = (fst (best_of better cur g), snd (best_of better cur g), n).
Proof.
  induction g as [|p g IH]; intros cur n; cbn [kfold best_of]; [reflexivity|].
  cbn [k_step K_sel negb orb]. destruct (better (snd p) (snd cur)); apply IH.
Qed.

(** the kernel of each accumulating aggregate *)
Definition kernel_of (t : ty) (k : aggk) : kernel val val kacc :=
  match k with
  | Count => K_count | Sum => K_sum t | Mean => K_mean t | Min => K_min t | _ => K_max t
  end.
Definition is_acc (k : aggk) : bool :=
  match k with Count | Sum | Mean | Min | Max => true | _ => false end.

Lemma kernel_reset t k a p :
  k_step (kernel_of t k) false (k_reset (kernel_of t k) a) p
  = k_step (kernel_of t k) false (k_init (kernel_of t k)) p.
Proof. destruct k; destruct a as [[ts v] n]; reflexivity. Qed.

Lemma kernel_agg t k w (g : list pt) : is_acc k = true -> g <> [] ->
  agg_spec t k w g = [k_emit (kernel_of t k) w (kfold (kernel_of t k) g (k_init (kernel_of t k)) false)].
Proof.
  intros Hk Hg. destruct g as [|p0 g']; [congruence|].
  destruct k; try discriminate; cbn [agg_spec kernel_of].
  - change (k_init K_count) with (0, VI 0, wrap64 0). rewrite kfold_count. reflexivity.
  - cbn [k_init K_sum]. rewrite kfold_sum. reflexivity.
  - unfold K_min. cbn [kfold]. cbn [k_step K_sel k_init negb orb fst snd].
    rewrite (kfold_sel t v_lt g' p0 0). destruct (best_of v_lt p0 g'); reflexivity.
  - unfold K_max. cbn [kfold]. cbn [k_step K_sel k_init negb orb fst snd].
    rewrite (kfold_sel t (fun a b => v_lt b a) g' p0 0).
    destruct (best_of (fun a b => v_lt b a) p0 g'); reflexivity.
  - change (k_init (K_mean t)) with (0, v_zero t, wrap64 0). rewrite kfold_mean. reflexivity.
Qed.

Lemma concat_map_single {X Y} (f : X -> list Y) (g : X -> Y) l :
  (forall x, In x l -> f x = [g x]) -> concat (map f l) = map g l.
Proof.
  induction l as [|x l IH]; intro H; [reflexivity|]. cbn [map concat].
  rewrite (H x (or_introl eq_refl)), IH; [reflexivity|]. intros y Hy. apply H. right; exact Hy.
Qed.

Lemma run_model_acc stop_of zero B t k chunks :
  is_acc k = true ->
  run_model stop_of zero B t k chunks
  = run_acc stop_of zero B (kernel_of t k) (fuel_for chunks) ([], chunks).
Proof. destruct k; try discriminate; reflexivity. Qed.

Lemma fuel_ok {X} (chunks : list (list X)) : (length (concat chunks) < fuel_for chunks)%nat.
Proof. unfold fuel_for. lia. Qed.

Section Assembled.
Variable stop_of : Z -> Z.
Hypothesis H1 : forall t, t < stop_of t.
Hypothesis H2 : forall t u, t <= u < stop_of t -> stop_of u = stop_of t.

(** windowed count / sum / min / max / mean *)
Lemma pushdown_acc B t k (chunks : list (list pt)) :
  is_acc k = true -> Forall nonempty chunks -> time_sorted (concat chunks) ->
  exists arrs, run_model stop_of false B t k chunks = Some arrs
    /\ concat arrs = oracle stop_of false t k (concat chunks)
    /\ Forall nonempty arrs.
Proof.
  intros Hk Hne Hs. rewrite run_model_acc by exact Hk.
  destruct (run_acc_scan stop_of false B (kernel_of t k) (fun _ => H1) (kernel_reset t k)
              (fuel_for chunks) ([], chunks) Hne (fuel_ok chunks)) as (arrs & Er & Ec & Ea).
  exists arrs. split; [exact Er|]. split; [|exact Ea]. rewrite Ec. unfold flat. cbn [fst snd app].
  rewrite (scan_fresh_groups stop_of false (kernel_of t k) (fun _ => H1) (kernel_reset t k) eq_refl).
  rewrite (groups_ref stop_of H1 H2) by exact Hs.
  unfold oracle, reference. symmetry. apply concat_map_single.
  intros wg Hwg. apply kernel_agg; [exact Hk|]. eapply ref_groups_nonempty; exact Hwg.
Qed.

(** windowed first *)
Lemma pushdown_first B t (chunks : list (list pt)) :
  Forall nonempty chunks -> time_sorted (concat chunks) ->
  (forall p, In p (concat chunks) -> MinI64 <= fst p) ->
  exists arrs, run_model stop_of false B t First chunks = Some arrs
    /\ concat arrs = oracle stop_of false t First (concat chunks).
Proof.
  intros Hne Hs Hlo. cbn [run_model].
  destruct (run_first_scan stop_of B (fuel_for chunks) ([], chunks, MinI64) Hne (fuel_ok chunks))
    as (arrs & Er & Ec).
  exists arrs. split; [exact Er|]. rewrite Ec. unfold flat3. cbn [fst snd app].
  rewrite scan_first_groups by exact Hlo.
  rewrite (groups_ref stop_of H1 H2) by exact Hs.
  unfold oracle, reference. reflexivity.
Qed.
End Assembled.

(** whole-series request (zero window): one output at MaxInt64 / the selected point; no
    assumption on the order of the points *)
Lemma pushdown_zero_acc stop_of B t k (chunks : list (list pt)) :
  is_acc k = true -> Forall nonempty chunks ->
  exists arrs, run_model stop_of true B t k chunks = Some arrs
    /\ concat arrs = oracle stop_of true t k (concat chunks).
Proof.
  intros Hk Hne. rewrite run_model_acc by exact Hk.
  destruct (run_acc_scan stop_of true B (kernel_of t k) (fun E => ltac:(discriminate E)) (kernel_reset t k)
              (fuel_for chunks) ([], chunks) Hne (fuel_ok chunks)) as (arrs & Er & Ec & Ea).
  exists arrs. split; [exact Er|]. rewrite Ec. unfold flat. cbn [fst snd app].
  rewrite (scan_fresh_zero stop_of true (kernel_of t k) eq_refl).
  unfold oracle. destruct (concat chunks) as [|p l] eqn:E; [reflexivity|].
  symmetry. apply kernel_agg; [exact Hk|discriminate].
Qed.

Lemma pushdown_zero_first stop_of B t (chunks : list (list pt)) :
  Forall nonempty chunks ->
  exists arrs, run_model stop_of true B t First chunks = Some arrs
    /\ concat arrs = oracle stop_of true t First (concat chunks).
Proof.
  intro Hne. cbn [run_model]. eexists; split; [reflexivity|].
  unfold oracle, run_limit, next_limit, pull.
  destruct chunks as [|c r]; [reflexivity|].
  inversion Hne as [|? ? Hc Hr]; subst. destruct c as [|p c']; [exfalso; apply Hc; reflexivity|].
  reflexivity.
Qed.

(** [last] without a window: limit cursor over the DESCENDING cursor (the mirrored chunking) *)
Lemma pushdown_zero_last stop_of B t (chunks : list (list pt)) :
  Forall nonempty chunks ->
  exists arrs, run_model stop_of true B t Last (rev (map (@rev _) chunks)) = Some arrs
    /\ concat arrs = oracle stop_of true t Last (concat chunks).
Proof.
  intro Hne. cbn [run_model]. eexists; split; [reflexivity|].
  unfold oracle, run_limit, next_limit, pull.
  destruct (rev (map (@rev _) chunks)) as [|c r] eqn:E.
  - assert (chunks = []) as ->.
    { destruct chunks as [|c0 r0]; [reflexivity|]. cbn [map rev] in E.
      apply app_eq_nil in E as [_ E]. discriminate. }
    reflexivity.
  - assert (Ex : exists l0 c0, chunks = l0 ++ [c0] /\ c = rev c0).
    { destruct (exists_last (l := chunks)) as (l0 & c0 & ->).
      { intro X; subst; discriminate. }
      exists l0, c0. split; [reflexivity|]. rewrite map_app, rev_app_distr in E. cbn in E. congruence. }
    destruct Ex as (l0 & c0 & -> & ->).
    apply Forall_app in Hne as [_ Hc0]. inversion Hc0 as [|? ? Hc _]; subst.
    destruct (exists_last Hc) as (c1 & p & ->).
    rewrite rev_app_distr. cbn [rev app concat].
    rewrite concat_app. cbn [concat]. rewrite app_nil_r, app_assoc.
    destruct (concat l0 ++ c1) as [|q l] eqn:El; cbn [app agg_spec].
    + reflexivity.
    + rewrite last_last. reflexivity.
Qed.
