(** C35 — Cardinality sketches merge correctly and stay within their error bound.
    Property theorems only.  Model: Model/C35.v (mirror of pkg/estimator/hll/hll.go and
    compressed.go).  [wf] is the invariant of every sketch reachable through NewPlus / Add /
    Merge / Count / MarshalBinary+UnmarshalBinary ([C35_wf_reachable], [C35_wf_unfold] spells it
    out); hashes are 64-bit ([x < two64]).  [regs s] = the dense registers after normalisation.

    NOT a theorem (and not claimed): "the estimate is within the error bound" — it is a
    probabilistic statement over the hash function; the correspondence driver measures the
    observed relative error of the real Count() against 1.04/sqrt(m) and reports it in the
    evidence (finding: biased for precisions other than 16).  [Count] itself is floating point
    and is not computed in Coq: the theorems are about what it is a function of
    ([count_obs]: precision, mode, sparse count / registers). *)
From Verif Require Import Base.Prelude Model.C35.
From Verif Require Import Proofs.C35_bits Proofs.C35_codec Proofs.C35_regs Proofs.C35.
Local Open Scope N_scope.

(** ** merging = register-wise maximum, whatever the representations of the two sketches *)
Theorem C35_merge_regs_max :
  forall a b, wf a -> wf b -> k_p a = k_p b ->
    exists c, k_merge a b = Some c /\ regs c = zip_max (regs a) (regs b).
Proof. exact regs_merge_max. Qed.
Print Assumptions C35_merge_regs_max.

Theorem C35_merge_precision_mismatch_rejected :
  forall a b, k_p a <> k_p b -> k_merge a b = None.
Proof. exact merge_precision_mismatch. Qed.
Print Assumptions C35_merge_precision_mismatch_rejected.

(** ** commutative, associative, idempotent — ON REGISTERS (hence on every later merge and on
    every dense estimate).  Idempotence of the ESTIMATE across representations is not claimed:
    h.Merge(h) turns a sparse sketch dense and Count() then switches from linear counting at
    p'=25 to the dense estimator (measured by the driver, see checks/C35.json). *)
Theorem C35_merge_commutative_on_registers :
  forall a b, wf a -> wf b -> k_p a = k_p b ->
    exists c1 c2, k_merge a b = Some c1 /\ k_merge b a = Some c2 /\ regs c1 = regs c2.
Proof. exact merge_comm_regs. Qed.
Print Assumptions C35_merge_commutative_on_registers.

Theorem C35_merge_associative_on_registers :
  forall a b c, wf a -> wf b -> wf c -> k_p a = k_p b -> k_p b = k_p c ->
    exists ab abc bc abc',
      k_merge a b = Some ab /\ k_merge ab c = Some abc /\
      k_merge b c = Some bc /\ k_merge a bc = Some abc' /\ regs abc = regs abc'.
Proof. exact merge_assoc_regs. Qed.
Print Assumptions C35_merge_associative_on_registers.

Theorem C35_merge_idempotent_on_registers :
  forall a, wf a -> exists c, k_merge a a = Some c /\ regs c = regs a.
Proof. exact merge_idem_regs. Qed.
Print Assumptions C35_merge_idempotent_on_registers.

(** ** a sketch is the sketch of the multiset added to it: whatever mixture of sparse phases,
    tmp-set merges and the switch to the dense representation happened on the way, the
    registers are, per register, the maximum of [dense_rho] over the hashes with that
    [dense_index] ([spec_regs]: the dense formulas only). *)
Theorem C35_regs_of_list :
  forall p s0 xs, k_new p = Some s0 -> Forall (fun x => x < two64) xs ->
    regs (fold_left k_add xs s0) = spec_regs p xs.
Proof. exact regs_of_list. Qed.
Print Assumptions C35_regs_of_list.

(** the crux: the 32-bit sparse encoding of a hash decodes to exactly the dense (index, rho),
    for every precision 4..18 and every 64-bit hash *)
Theorem C35_sparse_encoding_lossless :
  forall p x, 4 <= p -> p <= 18 -> x < two64 ->
    decode_hash p (encode_hash p x) = (dense_index p x, dense_rho p x).
Proof. exact decode_encode. Qed.
Print Assumptions C35_sparse_encoding_lossless.

(** ** a merged sketch is the sketch of the union *)
Theorem C35_regs_of_union :
  forall p s0 xs ys, k_new p = Some s0 ->
    Forall (fun x => x < two64) xs -> Forall (fun x => x < two64) ys ->
    exists c, k_merge (fold_left k_add xs s0) (fold_left k_add ys s0) = Some c
              /\ regs c = spec_regs p (xs ++ ys)
              /\ regs c = regs (fold_left k_add (xs ++ ys) s0).
Proof. exact regs_of_union. Qed.
Print Assumptions C35_regs_of_union.

(** ** MarshalBinary then UnmarshalBinary: the sketch comes back as the source is after its own
    mergeSparse — same precision, mode, registers and the same [count_obs], i.e. everything
    Count() is a function of.  (The 4-byte length fields cannot wrap on reachable sketches: the
    size bound is part of [wf] and proved to be preserved.) *)
Theorem C35_marshal_roundtrip :
  forall s, wf s -> k_unmarshal (k_marshal s) = Some (count_touch s).
Proof. exact marshal_roundtrip. Qed.
Print Assumptions C35_marshal_roundtrip.

Theorem C35_marshal_roundtrip_preserves_estimate_inputs :
  forall s, wf s ->
    exists s', k_unmarshal (k_marshal s) = Some s' /\ wf s' /\
               k_p s' = k_p s /\ k_sparse s' = k_sparse s /\ regs s' = regs s /\
               count_obs s' = count_obs s.
Proof. exact marshal_roundtrip_obs. Qed.
Print Assumptions C35_marshal_roundtrip_preserves_estimate_inputs.

(** the compressed list: decoding the delta-varint bytes gives back the appended keys *)
Theorem C35_compressed_list_roundtrip :
  forall l, ascending 0 l -> cl_keys (cl_of_keys l) = l.
Proof. exact cl_keys_of_keys. Qed.
Print Assumptions C35_compressed_list_roundtrip.

(** ** reachability of the invariant *)
Theorem C35_wf_reachable :
  forall p s0 xs, k_new p = Some s0 -> Forall (fun x => x < two64) xs -> wf (fold_left k_add xs s0).
Proof. exact wf_reachable. Qed.
Print Assumptions C35_wf_reachable.

Theorem C35_wf_preserved :
  (forall a b c, wf a -> wf b -> k_merge a b = Some c -> wf c)
  /\ (forall s, wf s -> wf (count_touch s))
  /\ (forall s x, wf s -> x < two64 -> wf (k_add s x)).
Proof. split; [exact wf_merge|]. split; [exact wf_touch|exact wf_add]. Qed.
Print Assumptions C35_wf_preserved.

Theorem C35_wf_unfold :
  forall s, wf s <->
    4 <= k_p s /\ k_p s <= 18 /\
    if k_sparse s then
      ascending 0 (k_tmp s) /\
      (exists l, ascending 0 l /\ k_cl s = cl_of_keys l) /\ k_dense s = [] /\
      cl_count (k_cl s) + N.of_nat (length (k_tmp s)) <= 2 * 2 ^ k_p s
    else length (k_dense s) = N.to_nat (2 ^ k_p s) /\ k_tmp s = [] /\ k_cl s = cl_empty.
Proof. exact wf_unfold. Qed.
Print Assumptions C35_wf_unfold.

(** ** every program over sketch variables (NewPlus / Add / bulk Add / Merge incl. self-merge
    and mismatched precisions / Clone / Marshal+Unmarshal / Count / state dump) passes the
    oracle of the correspondence check: every state dump shows the registers of the multiset of
    hashes that flowed into that variable, Merge fails exactly on a precision mismatch, NewPlus
    exactly outside 4..18. *)
Theorem C35_history_oracle :
  forall ops, Forall hashes_ok ops -> o_check (repeat None nvars) ops (k_run sregs0 ops) = true.
Proof. exact history_oracle. Qed.
Print Assumptions C35_history_oracle.

(** Non-vacuity: a p=4 sketch goes dense by Add alone; merging it with a sparse one gives the
    union's registers; the round trip of a sparse sketch is the identity. *)
Example C35_nonvacuous :
  match k_new 4 with
  | Some s0 =>
      let a := fold_left k_add (stream 40 9) s0 in
      let b := fold_left k_add [0; 9223372036854775808; 1311768467294899695] s0 in
      k_sparse a = false /\ k_sparse b = true
      /\ (match k_merge b a with Some c => regs c = spec_regs 4 ([0; 9223372036854775808; 1311768467294899695] ++ stream 40 9) | None => False end)
      /\ k_unmarshal (k_marshal b) = Some (count_touch b)
      /\ nonzero (regs b) 0 = [(0, 61); (1, 3); (8, 61)]
  | None => False
  end.
Proof. vm_compute. repeat split; reflexivity. Qed.
