// C13 driver: histories of CreateSeriesListIfNotExists / DeleteSeriesID / reopen (Close+Open) /
// forced index compaction (SeriesPartitionCompactor.Compact on every partition) / crash images
// (the entry appended by an in-flight create or delete is cut after n bytes, the rest of the
// pre-allocated segment stays zero, the directory is reopened) on a REAL tsdb.SeriesFile in a
// temp dir.  After every step: SeriesID of every key of the domain, IsDeleted and SeriesKey of
// every id seen so far (plus the next candidates), the ids returned by the create; at the end the
// written bytes of the segment of each of the 8 partitions.  The Coq judge replays the history.
package main

import (
	"bytes"
	"fmt"
	"math/big"
	"os"
	"runtime"
	"sort"
	"strings"
	"sync"

	"github.com/influxdata/influxdb/v2/models"
	"github.com/influxdata/influxdb/v2/tsdb"
	"verifh/vh"
)

const findingSig = "series-torn-id-bytes-alias"

type jkey struct {
	Name string      `json:"name"`
	Tags [][2]string `json:"tags,omitempty"`
	Pad  int         `json:"pad_x,omitempty"` // the measurement name is Name followed by Pad 'x' bytes (huge keys)
}
type jrow struct {
	ID  uint64 `json:"id"`
	Del bool   `json:"deleted"`
	Key string `json:"key"` // "", "#i" (= key i of the domain) or hex bytes
}
type jop struct {
	T    string `json:"t"` // create delete reopen compact crash_create crash_delete
	Keys []int  `json:"keys,omitempty"`
	ID   uint64 `json:"id,omitempty"`
	N    int    `json:"n,omitempty"` // crash: bytes of the entry that reached the file
	// observed
	Res  []uint64 `json:"impl_ids,omitempty"`
	IDs  []uint64 `json:"impl_series_id"`
	Tab  []jrow   `json:"impl_table"`
	ELen int      `json:"entry_len,omitempty"`
}
type jcase struct {
	Keys  []jkey   `json:"keys"`
	Parts []int    `json:"impl_key_partition"`
	Ops   []jop    `json:"ops"`
	Final []string `json:"impl_segments,omitempty"`
	Gen   string   `json:"gen,omitempty"`
	// segment roll-over history: the first keys are huge so that partition's segment 0000 (4 MiB)
	// fills up; judged by the trace oracle only (Go side + Coq oracle on the id skeleton).
	Roll     bool `json:"rollover,omitempty"`
	RollTail int  `json:"rollover_tail_bytes,omitempty"` // bytes left free in segment 0000 after the first op
	// set when, in a history with an insert entry cut inside its flag+id bytes and a later index
	// compaction, the compaction changed SeriesID / a live table row of some key:
	// the history stops there (FailAt = index of that compact op).
	FailAt   int    `json:"impl_fail_at,omitempty"`
	FailWhat string `json:"impl_fail_what,omitempty"`
}

func (k jkey) name() []byte { return []byte(k.Name + strings.Repeat("x", k.Pad)) }
func (k jkey) tags() models.Tags {
	m := map[string]string{}
	for _, t := range k.Tags {
		m[t[0]] = t[1]
	}
	return models.NewTags(m)
}
func (k jkey) bytes() []byte { return tsdb.AppendSeriesKey(nil, k.name(), k.tags()) }

type env struct {
	dir string
	sf  *tsdb.SeriesFile
}

func (e *env) open() error {
	e.sf = tsdb.NewSeriesFile(e.dir)
	return e.sf.Open()
}

func activeSeg(p *tsdb.SeriesPartition) *tsdb.SeriesSegment {
	s := p.Segments()
	return s[len(s)-1]
}

// crash: run `do` (which appends at most one entry to partition pid), then close, zero all but
// the first n bytes of the appended entry, reopen.  Returns the entry length.
func (e *env) crash(pid int, n int, do func() error) (int, error) {
	p := e.sf.Partitions()[pid]
	nseg0 := len(p.Segments())
	size0 := activeSeg(p).Size()
	if err := do(); err != nil {
		return 0, err
	}
	s := activeSeg(p)
	path := s.Path()
	size1 := s.Size()
	if len(p.Segments()) > nseg0 { // the entry rolled over into a fresh segment: it starts right after the header
		size0 = tsdb.SeriesSegmentHeaderSize
	}
	if err := e.sf.Close(); err != nil {
		return 0, err
	}
	l := int(size1 - size0)
	if l > 0 && n < l {
		if n < 0 {
			n = 0
		}
		f, err := os.OpenFile(path, os.O_RDWR, 0)
		if err != nil {
			return 0, err
		}
		if _, err := f.WriteAt(make([]byte, l-n), size0+int64(n)); err != nil {
			return 0, err
		}
		if err := f.Close(); err != nil {
			return 0, err
		}
	}
	return l, e.open()
}

// run executes the ops of c on a fresh real series file and fills in the observations.
func run(c *jcase) (err error) {
	base := ""
	if st, e := os.Stat("/dev/shm"); e == nil && st.IsDir() {
		base = "/dev/shm" // tmpfs: fsync is free
	}
	dir, err := os.MkdirTemp(base, "c13-")
	if err != nil {
		return err
	}
	defer os.RemoveAll(dir)
	e := &env{dir: dir}
	if err := e.open(); err != nil {
		return err
	}
	defer func() { e.sf.Close() }()
	keyBytes := make([][]byte, len(c.Keys))
	knames := make([][]byte, len(c.Keys))
	ktags := make([]models.Tags, len(c.Keys))
	c.Parts = make([]int, len(c.Keys))
	for i, k := range c.Keys {
		knames[i], ktags[i] = k.name(), k.tags()
		keyBytes[i] = tsdb.AppendSeriesKey(nil, knames[i], ktags[i])
		c.Parts[i] = e.sf.SeriesKeyPartitionID(keyBytes[i])
	}
	var kbuf []byte
	c.FailAt, c.FailWhat = 0, ""
	tornInsert := false // a crash_create with 1 <= n <= 8 was requested earlier (input-only shape)
	var lastIDs []uint64
	lastTab := map[uint64]jrow{}
	seen := map[uint64]bool{}
	cand := map[uint64]bool{} // ids whose IsDeleted/SeriesKey are observed; only grows
	for oi := range c.Ops {
		o := &c.Ops[oi]
		o.Res, o.IDs, o.Tab, o.ELen = nil, nil, nil, 0
		create := func(idxs []int) ([]uint64, error) {
			names := make([][]byte, len(idxs))
			tags := make([]models.Tags, len(idxs))
			for j, i := range idxs {
				names[j], tags[j] = knames[i], ktags[i]
			}
			return e.sf.CreateSeriesListIfNotExists(names, tags)
		}
		switch o.T {
		case "create":
			if o.Res, err = create(o.Keys); err != nil {
				return err
			}
		case "delete":
			if _, err = e.sf.DeleteSeriesID(o.ID, true); err != nil {
				return err
			}
		case "reopen":
			if err = e.sf.Close(); err != nil {
				return err
			}
			if err = e.open(); err != nil {
				return err
			}
		case "compact":
			for _, p := range e.sf.Partitions() {
				if err = tsdb.NewSeriesPartitionCompactor().Compact(p); err != nil {
					return err
				}
			}
		case "crash_create":
			if o.ELen, err = e.crash(c.Parts[o.Keys[0]], o.N, func() error { _, err := create(o.Keys[:1]); return err }); err != nil {
				return err
			}
		case "crash_delete":
			if o.ELen, err = e.crash(e.sf.SeriesIDPartitionID(o.ID), o.N, func() error { _, err := e.sf.DeleteSeriesID(o.ID, true); return err }); err != nil {
				return err
			}
		default:
			return fmt.Errorf("bad op %q", o.T)
		}
		if o.T == "crash_create" && o.N >= 1 && o.N <= 8 {
			tornInsert = true
		}
		if c.Roll && oi == 0 { // the fill must leave exactly RollTail bytes in segment 0000
			p := e.sf.Partitions()[c.Parts[o.Keys[0]]]
			if len(p.Segments()) != 1 || int64(tsdb.SeriesSegmentSize(0))-activeSeg(p).Size() != int64(c.RollTail) {
				return fmt.Errorf("roll-over fill is off: %d segments, %d bytes free, want %d", len(p.Segments()), int64(tsdb.SeriesSegmentSize(0))-activeSeg(p).Size(), c.RollTail)
			}
		}
		// observations
		o.IDs = make([]uint64, len(c.Keys))
		var max uint64
		for i := range c.Keys {
			if cap(kbuf) < len(keyBytes[i]) {
				kbuf = make([]byte, 0, len(keyBytes[i]))
			}
			o.IDs[i] = e.sf.SeriesID(knames[i], ktags[i], kbuf)
			if o.IDs[i] != 0 {
				seen[o.IDs[i]] = true
			}
		}
		for _, id := range o.Res {
			if id != 0 {
				seen[id] = true
			}
		}
		for id := range seen {
			if id > max {
				max = id
			}
		}
		for id := range seen {
			cand[id] = true
		}
		for d := uint64(1); d <= 8; d++ {
			cand[d] = true
			cand[max+d] = true
		}
		for m := uint64(256); m <= max+16; m += 256 {
			cand[m] = true
		}
		ids := make([]uint64, 0, len(cand))
		for id := range cand {
			ids = append(ids, id)
		}
		sort.Slice(ids, func(a, b int) bool { return ids[a] < ids[b] })
		for _, id := range ids {
			row := jrow{ID: id, Del: e.sf.IsDeleted(id)}
			if kb := e.sf.SeriesKey(id); kb != nil {
				for i := range keyBytes {
					if bytes.Equal(kb, keyBytes[i]) {
						row.Key = fmt.Sprintf("#%d", i)
						break
					}
				}
				if row.Key == "" {
					row.Key = fmt.Sprintf("%x", kb)
				}
			}
			o.Tab = append(o.Tab, row)
		}
		if o.T == "compact" && tornInsert {
			what := ""
			if !eqIDs(o.IDs, lastIDs) {
				what = fmt.Sprintf("SeriesID of the key domain changed from %v to %v", lastIDs, o.IDs)
			} else {
				for _, r := range o.Tab {
					if p, ok := lastTab[r.ID]; ok && !p.Del && p != r {
						what = fmt.Sprintf("id %d changed from %+v to %+v", r.ID, p, r)
						break
					}
				}
			}
			if what != "" {
				c.FailAt, c.FailWhat = oi, "index compaction after a torn insert entry: "+what
				c.Ops = c.Ops[:oi+1]
				break
			}
		}
		lastIDs = o.IDs
		for _, r := range o.Tab {
			lastTab[r.ID] = r
		}
	}
	if c.Roll {
		c.Final = nil
		return nil
	}
	// final segment bytes
	c.Final = make([]string, tsdb.SeriesFilePartitionN)
	for i, p := range e.sf.Partitions() {
		if len(p.Segments()) != 1 {
			return fmt.Errorf("unexpected segment count")
		}
		s := activeSeg(p)
		c.Final[i] = fmt.Sprintf("%x", s.Data()[tsdb.SeriesSegmentHeaderSize:s.Size()])
	}
	return nil
}

func hexBytes(h string) []byte {
	b := make([]byte, len(h)/2)
	fmt.Sscanf(h, "%x", &b)
	return b
}

// pack renders a byte string as [len; 7-byte big-endian chunks...] (see unpack in Model/C13.v).
func pack(b []byte) string {
	xs := []string{vh.N(uint64(len(b)))}
	for i := 0; i < len(b); i += 7 {
		var x uint64
		for j := 0; j < 7; j++ {
			x <<= 8
			if i+j < len(b) {
				x |= uint64(b[i+j])
			}
		}
		xs = append(xs, vh.N(x))
	}
	return vh.List(xs)
}

var hmod = new(big.Int).Sub(new(big.Int).Lsh(big.NewInt(1), 61), big.NewInt(1))

// bhash mirrors bhash of Model/C13.v.
func bhash(b []byte) uint64 {
	h := big.NewInt(int64(len(b)))
	for _, c := range b {
		h.Mul(h, big.NewInt(257))
		h.Add(h, big.NewInt(int64(c)+1))
		h.Mod(h, hmod)
	}
	return h.Uint64()
}

func opTerm(o *jop) string {
	switch o.T {
	case "create":
		xs := make([]uint64, len(o.Keys))
		for j, i := range o.Keys {
			xs[j] = uint64(i)
		}
		return "(CCreate " + vh.Ns(xs) + ")"
	case "delete":
		return fmt.Sprintf("(CDelete %s)", vh.N(o.ID))
	case "reopen":
		return "CReopen"
	case "compact":
		return "CCompact"
	case "crash_create":
		return fmt.Sprintf("(CCrashCreate %s %s)", vh.N(uint64(o.Keys[0])), vh.N(uint64(o.N)))
	case "crash_delete":
		return fmt.Sprintf("(CCrashDelete %s %s)", vh.N(o.ID), vh.N(uint64(o.N)))
	}
	panic("op")
}

func eqIDs(a, b []uint64) bool {
	if len(a) != len(b) {
		return false
	}
	for i := range a {
		if a[i] != b[i] {
			return false
		}
	}
	return true
}

// term renders the case.  The id table of a step is delta-encoded against the previous step; an
// unchanged SeriesID vector is rendered as [].
func term(c *jcase) string {
	var b strings.Builder
	ks := make([]string, len(c.Keys))
	for i, k := range c.Keys {
		if c.Roll { // keys interned by position (number_keys in Model/C13.v): the oracle compares keys only for equality
			ks[i] = fmt.Sprintf("(%s, [])", vh.N(uint64(c.Parts[i])))
			continue
		}
		ks[i] = fmt.Sprintf("(%s, %s)", vh.N(uint64(c.Parts[i])), pack(k.bytes()))
	}
	fmt.Fprintf(&b, "Build_case %s [", vh.List(ks))
	prev := map[uint64]jrow{}
	prevIDs := make([]uint64, len(c.Keys))
	for oi := range c.Ops {
		o := &c.Ops[oi]
		if c.FailWhat != "" && oi >= c.FailAt {
			break
		}
		if oi > 0 {
			b.WriteString("; ")
		}
		var rows []uint64
		var raws []string
		for _, r := range o.Tab {
			if p, ok := prev[r.ID]; ok && p == r {
				continue
			}
			prev[r.ID] = r
			code := uint64(0)
			if strings.HasPrefix(r.Key, "#") {
				var i int
				fmt.Sscanf(r.Key[1:], "%d", &i)
				code = uint64(i + 1)
			} else if r.Key != "" {
				code = uint64(1001 + len(raws))
				rb := hexBytes(r.Key)
				if c.Roll { // a key outside the domain: interned as 'R' + its hash
					rb = []byte(fmt.Sprintf("R%016x", bhash(rb)))
				}
				raws = append(raws, pack(rb))
			}
			d := uint64(0)
			if r.Del {
				d = 1
			}
			rows = append(rows, (r.ID*2+d)*4096+code)
		}
		ids := o.IDs
		if eqIDs(ids, prevIDs) {
			ids = nil
		} else {
			prevIDs = o.IDs
		}
		fmt.Fprintf(&b, "Build_srec %s %s %s %s %s", opTerm(o), vh.Ns(o.Res), vh.Ns(ids), vh.Ns(rows), vh.List(raws))
	}
	fin := make([]uint64, len(c.Final))
	for i, h := range c.Final {
		fin[i] = bhash(hexBytes(h))
	}
	mode := 0
	if c.Roll {
		mode = 1
	}
	fmt.Fprintf(&b, "] %s %s", vh.Ns(fin), vh.N(uint64(mode)))
	return b.String()
}

// shape signature of the known finding, decided from the inputs only: a crash op that cuts the
// entry inside its flag+id bytes (1 <= n <= 8) in a partition that has had >= 32 keys submitted
// for creation before (ids >= 256 are only then possible).
func shapeSig(c *jcase) string {
	reqs := map[int]int{}
	for _, o := range c.Ops {
		switch o.T {
		case "create":
			for _, i := range o.Keys {
				reqs[c.Parts[i]]++
			}
		case "crash_create":
			p := c.Parts[o.Keys[0]]
			if o.N >= 1 && o.N <= 8 && reqs[p] >= 32 {
				return findingSig
			}
			reqs[p]++
		case "crash_delete":
			p := int((o.ID - 1) % 8)
			if o.N >= 1 && o.N <= 8 && reqs[p] >= 32 && o.ID >= 256 {
				return findingSig
			}
		}
	}
	return ""
}

// traceOracle is the Go rendering of steps_ok of coq/Model/C13.v (the property stated on the
// observed trace alone): returns "" or a description of the first breach.
func traceOracle(c *jcase) string {
	prev := make([]uint64, len(c.Keys))
	issued := map[uint64]bool{}
	owner := map[uint64]int{}
	for oi := range c.Ops {
		o := &c.Ops[oi]
		where := fmt.Sprintf("step %d (%s)", oi, o.T)
		inOp := map[int]bool{}
		for _, i := range o.Keys {
			inOp[i] = true
		}
		if o.T == "create" && len(o.Res) == len(o.Keys) {
			for j, i := range o.Keys {
				if prev[i] == 0 && issued[o.Res[j]] {
					return fmt.Sprintf("%s: key #%d (%s...) had no id and the create returned id %d, which had already been issued before (id reuse)", where, i, c.Keys[i].Name, o.Res[j])
				}
			}
		}
		for i := range c.Keys {
			a, b := prev[i], o.IDs[i]
			fresh := b != 0 && !issued[b]
			ok := b == a
			switch o.T {
			case "create":
				if inOp[i] && a == 0 {
					ok = fresh
				}
			case "delete":
				if a == o.ID {
					ok = b == 0
				}
			case "crash_create":
				if inOp[i] && a == 0 {
					ok = b == 0 || fresh
				}
			case "crash_delete":
				if a == o.ID {
					ok = b == 0 || b == a
				}
			}
			if !ok {
				if b != 0 && issued[b] && b != a {
					return fmt.Sprintf("%s: key #%d (%s...) got id %d, which had already been issued before (id reuse); its id before the step was %d", where, i, c.Keys[i].Name, b, a)
				}
				return fmt.Sprintf("%s: SeriesID of key #%d (%s...) changed from %d to %d", where, i, c.Keys[i].Name, a, b)
			}
		}
		if o.T == "create" {
			if len(o.Res) != len(o.Keys) {
				return where + ": wrong number of ids returned"
			}
			for j, i := range o.Keys {
				if o.Res[j] == 0 || o.Res[j] != o.IDs[i] {
					return fmt.Sprintf("%s: create returned id %d for key #%d but SeriesID says %d", where, o.Res[j], i, o.IDs[i])
				}
			}
		}
		live := map[uint64]int{}
		for i, b := range o.IDs {
			if b == 0 {
				continue
			}
			if j, dup := live[b]; dup {
				return fmt.Sprintf("%s: distinct keys #%d and #%d both have id %d", where, j, i, b)
			}
			live[b] = i
			if j, ok := owner[b]; ok && j != i {
				return fmt.Sprintf("%s: id %d of key #%d belonged to key #%d before", where, b, i, j)
			}
			owner[b] = i
		}
		for _, r := range o.Tab {
			i, owned := owner[r.ID]
			if !owned {
				continue
			}
			want := fmt.Sprintf("#%d", i)
			if _, isLive := live[r.ID]; isLive {
				if r.Del || r.Key != want {
					return fmt.Sprintf("%s: live id %d of key #%d reads deleted=%v key=%.40s", where, r.ID, i, r.Del, r.Key)
				}
			} else if !r.Del || (r.Key != "" && r.Key != want) {
				return fmt.Sprintf("%s: former id %d of key #%d reads deleted=%v key=%.40s", where, r.ID, i, r.Del, r.Key)
			}
		}
		for _, b := range o.IDs {
			if b != 0 {
				issued[b] = true
			}
		}
		for _, b := range o.Res {
			issued[b] = true
		}
		prev = o.IDs
	}
	return ""
}

const emptyCase = "Build_case [] [] [0%N; 0%N; 0%N; 0%N; 0%N; 0%N; 0%N; 0%N] 0%N"

func emit(w *vh.W, c *jcase) {
	var rerr error
	if p := vh.Guard(func() { rerr = run(c) }); p != "" {
		idx := w.Add(emptyCase, c, true, shapeSig(c))
		w.Fail(idx, "panic in real series file: "+p, shapeSig(c))
		w.Count("panic", p)
		return
	}
	if rerr != nil {
		idx := w.Add(emptyCase, c, true, shapeSig(c))
		w.Fail(idx, "error from real series file: "+rerr.Error(), shapeSig(c))
		return
	}
	nontrivial := false // some key gets an id and a later step is a delete/reopen/compact/crash
	created := false
	for _, o := range c.Ops {
		if o.T == "create" && len(o.Res) > 0 {
			created = true
		} else if created && o.T != "create" {
			nontrivial = true
		}
		w.Count("op", o.T)
		if o.T == "crash_create" || o.T == "crash_delete" {
			cut := "none(no entry)"
			if o.ELen > 0 {
				switch {
				case o.N == 0:
					cut = "0"
				case o.N <= 8:
					cut = "in flag+id"
				case o.N == 9:
					cut = "after id"
				case o.N < o.ELen:
					cut = "in key"
				default:
					cut = "complete"
				}
			}
			w.Count("crash_cut", cut)
		}
	}
	w.Count("gen", c.Gen)
	w.Count("nops", fmt.Sprint(len(c.Ops)))
	if c.Roll {
		// judged by the trace oracle: here on the Go side (clear message), and, when that passes,
		// once more by the Coq oracle on the id skeleton (mode 1: no model comparison).
		w.Count("rollover_tail_bytes", fmt.Sprint(c.RollTail))
		if what := traceOracle(c); what != "" {
			idx := w.Add(emptyCase, c, true, "")
			w.Fail(idx, "segment roll-over history: "+what, "")
			return
		}
	}
	idx := w.Add(term(c), c, nontrivial, shapeSig(c))
	if c.FailWhat != "" {
		// tolerated only in the shape of the open aliased-id finding (two offsets for one id in the
		// compacted map); for an id-0 torn entry (repaired) this is a VIOLATION again
		w.Fail(idx, c.FailWhat, shapeSig(c))
		w.Count("compaction_after_torn_insert_lost_series", "yes")
	}
}

// ---- generators ----

// keysInPartition returns n distinct keys (name prefix + counter, optional tags) hashing to partition p.
func keysInPartition(probe *tsdb.SeriesFile, p, n int, prefix string, tagged func(i int) [][2]string) []jkey {
	var out []jkey
	for i := 0; len(out) < n; i++ {
		k := jkey{Name: fmt.Sprintf("%s%d", prefix, i)}
		if tagged != nil {
			k.Tags = tagged(i)
		}
		if probe.SeriesKeyPartitionID(k.bytes()) == p {
			out = append(out, k)
		}
	}
	return out
}

func main() {
	w := vh.New("C13", "From Verif Require Import Base.Prelude Model.C13.", "case", "check")
	w.Rule = "one case = one history on a fresh real tsdb.SeriesFile: 4-12 ops drawn from create(batch of 1-3 keys, duplicates allowed)/delete(id of a live key, an old id, an unissued id, 0)/reopen/compact/crash_create/crash_delete(cut after n bytes of the appended entry) over a domain of 6-9 series keys concentrated in 2-3 of the 8 partitions (measurement-only keys ending in a 0 byte, tagged keys, one key > 127 bytes with a 2-byte length varint); hand-picked histories first, incl. sweeps of EVERY cut point n of the last entry and 'big' histories with 33+ series in one partition (ids >= 256) where a cut inside the id bytes aliases another id (known finding). Plus segment roll-over histories (gen=roll-*: 64 keys of ~64 KiB fill segment 0000 of one partition leaving a chosen number of free bytes; tombstone/insert rolls into segment 0001; reopen / crash right after the roll-over / create) judged by the trace oracle only. Plus one concurrent-create stress case (barrier-released goroutines creating the same fresh keys; Go-side assertions only). Non-trivial: a create is followed by a delete/reopen/compact/crash step. Distinct: distinct Gallina terms."
	var rc jcase
	if w.ReplayCase(&rc) {
		emit(w, &rc)
		w.Finish()
		return
	}
	r := w.Rng
	probe := tsdb.NewSeriesFile("/nonexistent")
	tagA := func(i int) [][2]string { return [][2]string{{"host", fmt.Sprintf("h%d", i)}} }

	// ---- hand-picked ----
	k0 := keysInPartition(probe, 0, 3, "cpu", nil)
	k7 := keysInPartition(probe, 7, 3, "m", tagA)
	dom := append(append([]jkey{}, k0...), k7...)
	base := []jop{{T: "create", Keys: []int{0, 3, 0}}, {T: "create", Keys: []int{1, 4}}, {T: "delete", ID: 1}, {T: "create", Keys: []int{0}},
		{T: "reopen"}, {T: "compact"}, {T: "delete", ID: 16}, {T: "reopen"}, {T: "create", Keys: []int{4, 2}}, {T: "compact"}, {T: "create", Keys: []int{5}}}
	emit(w, &jcase{Keys: dom, Ops: append([]jop{}, base...), Gen: "hand"})
	// sweep every cut point of a create and of a delete after the base history
	sweep := func(keys []jkey, prefix []jop, last jop, gen string) {
		c := jcase{Keys: keys, Ops: append(append([]jop{}, prefix...), last), Gen: gen}
		c.Ops[len(c.Ops)-1].N = 0
		emit(w, &c)
		l := c.Ops[len(prefix)].ELen
		for n := 1; n <= l; n++ {
			c2 := jcase{Keys: keys, Ops: append(append([]jop{}, prefix...), last, jop{T: "create", Keys: []int{len(keys) - 1, 0}}, jop{T: "compact"}, jop{T: "reopen"}), Gen: gen}
			c2.Ops[len(prefix)].N = n
			emit(w, &c2)
		}
	}
	sweep(dom, base[:5], jop{T: "crash_create", Keys: []int{2}}, "sweep-create")
	sweep(dom, base[:6], jop{T: "crash_delete", ID: 8}, "sweep-delete")
	// big histories: 33+ series in one partition, cut inside the id bytes
	for _, p := range []int{7, 0, 3} {
		big := keysInPartition(probe, p, 35, "s", nil)
		all := make([]int, 32)
		for i := range all {
			all[i] = i
		}
		pre := []jop{{T: "create", Keys: all}}
		if w.N >= 2000 || p == 7 {
			sweep(big, pre, jop{T: "crash_create", Keys: []int{32}}, "big-sweep-create")
		} else {
			for _, n := range []int{8, 9} {
				emit(w, &jcase{Keys: big, Ops: append(append([]jop{}, pre...), jop{T: "crash_create", Keys: []int{32}, N: n}, jop{T: "create", Keys: []int{33}}), Gen: "big-create"})
			}
		}
		pre2 := []jop{{T: "create", Keys: append(append([]int{}, all...), 32)}}
		for _, n := range []int{8, 9} {
			emit(w, &jcase{Keys: big, Ops: append(append([]jop{}, pre2...), jop{T: "crash_delete", ID: uint64(p + 1 + 8*32), N: n}, jop{T: "reopen"}), Gen: "big-delete"})
		}
	}
	// ---- segment roll-over histories: fill segment 0000 (4 MiB) of one partition with 64 keys of
	// ~64 KiB leaving exactly `tail` free bytes, so that the next tombstone (9 bytes) / insert
	// lands as the FIRST entry of segment 0001 (or just fits), then reopen / crash / create.
	for _, rc := range rollCases(probe, r, w.N) {
		emit(w, rc)
	}
	// ---- concurrent-create stress (runtime assertion on the real code, outside the Coq model)
	stress(w, r)
	w.Extra["handpicked"] = w.Len()

	// ---- random histories ----
	for w.Len() < w.N {
		nparts := 2 + r.IntN(2)
		var keys []jkey
		for j := 0; j < nparts; j++ {
			p := r.IntN(8)
			if j == 0 && r.IntN(3) == 0 {
				p = 7
			}
			var tg func(i int) [][2]string
			prefix := []string{"cpu", "m", "disk_io"}[r.IntN(3)]
			switch r.IntN(3) {
			case 1:
				tg = tagA
			case 2:
				tg = func(i int) [][2]string { return [][2]string{{"a", "1"}, {"b", fmt.Sprint(i)}} }
			}
			keys = append(keys, keysInPartition(probe, p, 2+r.IntN(2), fmt.Sprintf("%s%d_", prefix, j), tg)...)
		}
		if r.IntN(4) == 0 { // a key longer than 127 bytes: 2-byte uvarint length
			keys = append(keys, jkey{Name: strings.Repeat("x", 120+r.IntN(20)), Tags: [][2]string{{"t", fmt.Sprint(r.IntN(100))}}})
		}
		c := jcase{Keys: keys, Gen: "random"}
		// ids that the partitions of the domain will issue first: p+1+8j
		var issued []uint64
		for _, k := range keys {
			p := probe.SeriesKeyPartitionID(k.bytes())
			for j := 0; j < 4; j++ {
				issued = append(issued, uint64(p+1+8*j))
			}
		}
		nops := 4 + r.IntN(9)
		for len(c.Ops) < nops {
			var o jop
			switch x := r.IntN(100); {
			case x < 38 || len(c.Ops) == 0:
				o = jop{T: "create"}
				for j, m := 0, 1+r.IntN(3); j < m; j++ {
					o.Keys = append(o.Keys, r.IntN(len(keys)))
				}
			case x < 58:
				o = jop{T: "delete", ID: pickID(r, issued)}
			case x < 70:
				o = jop{T: "reopen"}
			case x < 80:
				o = jop{T: "compact"}
			case x < 92:
				o = jop{T: "crash_create", Keys: []int{r.IntN(len(keys))}, N: r.IntN(30)}
				if r.IntN(3) == 0 {
					o.N = r.IntN(11)
				}
			default:
				o = jop{T: "crash_delete", ID: pickID(r, issued), N: r.IntN(10)}
			}
			c.Ops = append(c.Ops, o)
		}
		emit(w, &c)
	}
	w.Finish()
}

// rollKeys: 64 huge keys in partition p whose insert entries (9 + key bytes) fill segment 0000
// leaving `tail` bytes, followed by nsmall ordinary keys of the same partition.
func rollKeys(probe *tsdb.SeriesFile, p, tail, nsmall int) []jkey {
	const big = 65525 // name length: key = 3 (uvarint) + 2 + name + 1, entry = name + 15
	lens := make([]int, 64)
	total := int(tsdb.SeriesSegmentSize(0)) - tsdb.SeriesSegmentHeaderSize - tail
	for i := 0; i < 63; i++ {
		lens[i] = big
		total -= big + 15
	}
	lens[63] = total - 15
	var out []jkey
	for i := 0; len(out) < 64; i++ {
		k := jkey{Name: fmt.Sprintf("big%d_", i)}
		k.Pad = lens[len(out)] - len(k.Name)
		if probe.SeriesKeyPartitionID(k.bytes()) == p {
			out = append(out, k)
		}
	}
	return append(out, keysInPartition(probe, p, nsmall, "sm", nil)...)
}

func rollCases(probe *tsdb.SeriesFile, r interface{ IntN(int) int }, n int) []*jcase {
	var out []*jcase
	fill := make([]int, 64)
	for i := range fill {
		fill[i] = i
	}
	mk := func(p, tail int, gen string, ops ...jop) {
		c := &jcase{Keys: rollKeys(probe, p, tail, 4), Roll: true, RollTail: tail, Gen: gen}
		c.Ops = append([]jop{{T: "create", Keys: fill}}, ops...)
		out = append(out, c)
	}
	id := func(p, i int) uint64 { return uint64(p + 1 + 8*i) }
	for ti, tail := range []int{0, 8, 9, 12, 40} {
		p := []int{7, 0, 3, 7, 5}[ti]
		// tombstone is the only entry of segment 0001 (tail < 9) or just fits; clean reopen; creates
		mk(p, tail, "roll-delete", jop{T: "delete", ID: id(p, 0)}, jop{T: "reopen"}, jop{T: "create", Keys: []int{64, 65}},
			jop{T: "compact"}, jop{T: "reopen"}, jop{T: "create", Keys: []int{66, 0}})
		// crash right after the roll-over: segment 0001 exists, its first entry never arrived
		mk(p, tail, "roll-crash-create", jop{T: "crash_create", Keys: []int{64}, N: 0}, jop{T: "create", Keys: []int{65, 66}},
			jop{T: "reopen"}, jop{T: "create", Keys: []int{64}})
		mk(p, tail, "roll-crash-delete", jop{T: "crash_delete", ID: id(p, 3), N: 0}, jop{T: "create", Keys: []int{64}},
			jop{T: "delete", ID: id(p, 3)}, jop{T: "reopen"}, jop{T: "create", Keys: []int{65, 3}})
		// insert rolls over, no crash
		mk(p, tail, "roll-insert", jop{T: "create", Keys: []int{64}}, jop{T: "reopen"}, jop{T: "delete", ID: id(p, 64)},
			jop{T: "reopen"}, jop{T: "create", Keys: []int{64, 65}}, jop{T: "compact"}, jop{T: "create", Keys: []int{66}})
	}
	// a few generated ones
	ngen := 6
	if n >= 2000 {
		ngen = 60
	}
	for g := 0; g < ngen; g++ {
		p, tail := r.IntN(8), r.IntN(30)
		if r.IntN(3) == 0 {
			tail = r.IntN(9)
		}
		var ops []jop
		for j, m := 0, 3+r.IntN(5); j < m; j++ {
			switch x := r.IntN(100); {
			case x < 25:
				ops = append(ops, jop{T: "delete", ID: id(p, r.IntN(68))})
			case x < 50:
				ops = append(ops, jop{T: "create", Keys: []int{64 + r.IntN(4), r.IntN(68)}})
			case x < 72:
				ops = append(ops, jop{T: "reopen"})
			case x < 80:
				ops = append(ops, jop{T: "compact"})
			case x < 90: // cut points 0 or past the id bytes (cuts inside the id bytes are the known findings)
				ops = append(ops, jop{T: "crash_create", Keys: []int{64 + r.IntN(4)}, N: []int{0, 0, 9, 12, 30}[r.IntN(5)]})
			default:
				ops = append(ops, jop{T: "crash_delete", ID: id(p, r.IntN(68)), N: []int{0, 0, 9}[r.IntN(3)]})
			}
		}
		mk(p, tail, "roll-random", ops...)
	}
	return out
}

// stress: R rounds; in each, G goroutines released together by a barrier call
// SeriesFile.CreateSeriesListIfNotExists with overlapping, differently ordered key lists that
// all contain the same FRESH keys.  After each round: every caller got the same id for the
// same key, ids of distinct keys are distinct, SeriesKey(id) = key, SeriesID(key) = id, and the
// number of series in the file equals the number of distinct keys created so far.
type jstress struct {
	Kind    string `json:"kind"`
	Rounds  int    `json:"rounds"`
	Failed  string `json:"impl_failed,omitempty"`
	Round   int    `json:"failed_round,omitempty"`
	Writers int    `json:"failed_round_writers,omitempty"`
	Procs   int    `json:"failed_round_gomaxprocs,omitempty"`
	NKeys   int    `json:"failed_round_fresh_keys,omitempty"`
}

func stress(w *vh.W, r interface{ IntN(int) int }) {
	rounds := 240
	if w.N >= 2000 {
		rounds = 1500
	}
	d := &jstress{Kind: "concurrent-create-stress", Rounds: rounds}
	fail := func(what string) {
		d.Failed = what
		idx := w.Add(emptyCase, d, true, "")
		w.Fail(idx, "concurrent create stress: "+what, "")
	}
	base := ""
	if st, e := os.Stat("/dev/shm"); e == nil && st.IsDir() {
		base = "/dev/shm"
	}
	dir, err := os.MkdirTemp(base, "c13s-")
	if err != nil {
		fail(err.Error())
		return
	}
	defer os.RemoveAll(dir)
	sf := tsdb.NewSeriesFile(dir)
	if err := sf.Open(); err != nil {
		fail(err.Error())
		return
	}
	defer sf.Close()
	oldProcs := runtime.GOMAXPROCS(0)
	defer runtime.GOMAXPROCS(oldProcs)
	total := 0
	owner := map[uint64]string{}
	for round := 0; round < rounds; round++ {
		g := 4 + r.IntN(5)
		procs := []int{2, 4, 8, oldProcs}[r.IntN(4)]
		runtime.GOMAXPROCS(procs)
		nk := 1 + r.IntN(6)
		names := make([]string, nk)
		for j := range names {
			names[j] = fmt.Sprintf("st%d_%d", round, j)
		}
		yield := r.IntN(3) == 0
		lists := make([][]int, g)
		for i := range lists {
			// every writer has all fresh keys (rotated), some twice
			off := r.IntN(nk)
			for j := 0; j < nk; j++ {
				lists[i] = append(lists[i], (off+j)%nk)
			}
			if r.IntN(2) == 0 {
				lists[i] = append(lists[i], r.IntN(nk))
			}
		}
		res := make([][]uint64, g)
		errs := make([]error, g)
		panics := make([]string, g)
		start := make(chan struct{})
		var ready, done sync.WaitGroup
		for i := 0; i < g; i++ {
			ready.Add(1)
			done.Add(1)
			go func(i int) {
				defer done.Done()
				ns := make([][]byte, len(lists[i]))
				ts := make([]models.Tags, len(lists[i]))
				for j, k := range lists[i] {
					ns[j] = []byte(names[k])
				}
				ready.Done()
				<-start
				if yield && i%2 == 0 {
					runtime.Gosched()
				}
				panics[i] = vh.Guard(func() { res[i], errs[i] = sf.CreateSeriesListIfNotExists(ns, ts) })
			}(i)
		}
		ready.Wait()
		close(start)
		done.Wait()
		total += nk
		what := ""
		ids := make([]uint64, nk)
		for i := 0; i < g && what == ""; i++ {
			if panics[i] != "" {
				what = "panic: " + panics[i]
			} else if errs[i] != nil {
				what = "error: " + errs[i].Error()
			}
			for j, k := range lists[i] {
				if what != "" {
					break
				}
				id := res[i][j]
				if id == 0 {
					what = fmt.Sprintf("writer %d got id 0 for key %s", i, names[k])
				} else if ids[k] == 0 {
					ids[k] = id
				} else if ids[k] != id {
					what = fmt.Sprintf("two concurrent callers were told different ids for the same new series %s: %d and %d", names[k], ids[k], id)
				}
			}
		}
		for k := 0; k < nk && what == ""; k++ {
			key := tsdb.AppendSeriesKey(nil, []byte(names[k]), nil)
			if prev, dup := owner[ids[k]]; dup {
				what = fmt.Sprintf("id %d given to %s was already the id of %s", ids[k], names[k], prev)
			} else if got := sf.SeriesID([]byte(names[k]), nil, nil); got != ids[k] {
				what = fmt.Sprintf("SeriesID(%s) = %d but the create returned %d", names[k], got, ids[k])
			} else if kb := sf.SeriesKey(ids[k]); !bytes.Equal(kb, key) {
				what = fmt.Sprintf("SeriesKey(%d) is not the key of %s", ids[k], names[k])
			}
			owner[ids[k]] = names[k]
		}
		if what == "" {
			if n := sf.SeriesCount(); n != uint64(total) {
				what = fmt.Sprintf("the file holds %d series ids but only %d distinct keys were ever created (an id was issued twice for one key)", n, total)
			}
		}
		if what != "" {
			d.Round, d.Writers, d.Procs, d.NKeys = round, g, procs, nk
			fail(fmt.Sprintf("round %d (writers=%d GOMAXPROCS=%d fresh keys=%d gosched=%v): %s", round, g, procs, nk, yield, what))
			return
		}
	}
	w.Count("stress_rounds", fmt.Sprint(rounds))
	w.Add(emptyCase, d, true, "")
}

func pickID(r interface{ IntN(int) int }, issued []uint64) uint64 {
	switch x := r.IntN(10); {
	case x < 7 && len(issued) > 0:
		return issued[r.IntN(len(issued))]
	case x < 8:
		return uint64(r.IntN(4))
	default:
		return uint64(1 + r.IntN(40))
	}
}
