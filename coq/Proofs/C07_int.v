(** C07 (part 2) — proofs about the integer/unsigned, timestamp and boolean codec models
    (Model/C07_int.v). *)
From Coq Require Import ZifyN ZifyNat ZifyBool.
From Verif Require Import Base.Prelude Model.C07_s8b Model.C07_int Proofs.C07_s8b.
Local Open Scope N_scope.

Definition u64 (v : N) : Prop := v < 2 ^ 64.

Lemma W64_eq : W64 = 2 ^ 64.
Proof. reflexivity. Qed.
Lemma MaxValue_eq : MaxValue = 2 ^ 60 - 1.
Proof. reflexivity. Qed.

Local Ltac arith64 :=
  change (2 ^ 64) with 18446744073709551616 in *;
  change (2 ^ 63) with 9223372036854775808 in *;
  change (2 ^ 65) with 36893488147419103232 in *.

(** * A. helpers *)

(** ** 64-bit wrapping arithmetic *)
Lemma add64_lt a b : add64 a b < 2 ^ 64.
Proof. unfold add64. rewrite W64_eq. apply N.mod_lt, pow2_nz. Qed.
Lemma sub64_lt a b : sub64 a b < 2 ^ 64.
Proof. unfold sub64. rewrite W64_eq. apply N.mod_lt, pow2_nz. Qed.
Lemma mul64_lt a b : mul64 a b < 2 ^ 64.
Proof. unfold mul64. rewrite W64_eq. apply N.mod_lt, pow2_nz. Qed.

Lemma add64_sub64 a b : a < 2 ^ 64 -> b < 2 ^ 64 -> add64 b (sub64 a b) = a.
Proof.
  intros Ha Hb. unfold add64, sub64, W64. arith64.
  destruct (N.ltb_spec a b) as [H|H].
  - rewrite (N.mod_small (a + _ - b)) by lia.
    replace (b + (a + 18446744073709551616 - b)) with (a + 1 * 18446744073709551616) by lia.
    rewrite N.mod_add by discriminate. apply N.mod_small; lia.
  - replace (a + 18446744073709551616 - b) with ((a - b) + 1 * 18446744073709551616) by lia.
    rewrite N.mod_add by discriminate. rewrite (N.mod_small (a - b)) by lia.
    replace (b + (a - b)) with a by lia. apply N.mod_small; lia.
Qed.

Lemma sub64_0_r a : a < 2 ^ 64 -> sub64 a 0 = a.
Proof.
  intro Ha. unfold sub64, W64. arith64. rewrite N.sub_0_r.
  replace (a + 18446744073709551616) with (a + 1 * 18446744073709551616) by lia.
  rewrite N.mod_add by discriminate. apply N.mod_small; lia.
Qed.

Lemma add64_0_l a : a < 2 ^ 64 -> add64 0 a = a.
Proof. intro Ha. unfold add64. rewrite W64_eq. apply N.mod_small. exact Ha. Qed.

(** ** zig-zag *)
Lemma lxor_ones_low a n : a < 2 ^ n -> N.lxor a (N.ones n) = N.ones n - a.
Proof.
  intro H. destruct (N.eq_dec a 0) as [->|Hz].
  - rewrite N.lxor_0_l. lia.
  - change (N.lxor a (N.ones n)) with (N.lnot a n).
    apply N.lnot_sub_low. apply N.log2_lt_pow2; [lia|exact H].
Qed.

Lemma W64m1_ones : W64 - 1 = N.ones 64.
Proof. reflexivity. Qed.

Lemma zigzag_closed x : x < 2 ^ 64 ->
  zigzag x = if x <? 2 ^ 63 then 2 * x else 2 ^ 65 - 1 - 2 * x.
Proof.
  intro Hx. unfold zigzag. destruct (N.ltb_spec x (2 ^ 63)) as [H|H].
  - rewrite N.lxor_0_r. apply N.mod_small. rewrite W64_eq. arith64. lia.
  - rewrite W64m1_ones.
    assert (E : (2 * x) mod W64 = 2 * x - 2 ^ 64).
    { rewrite W64_eq. arith64.
      replace (2 * x) with ((2 * x - 18446744073709551616) + 1 * 18446744073709551616) at 1 by lia.
      rewrite N.mod_add by discriminate. apply N.mod_small. lia. }
    rewrite E. rewrite lxor_ones_low by (arith64; lia).
    change (N.ones 64) with (2 ^ 64 - 1). arith64. lia.
Qed.

Lemma zigzag_lt x : x < 2 ^ 64 -> zigzag x < 2 ^ 64.
Proof.
  intro Hx. rewrite zigzag_closed by exact Hx.
  destruct (N.ltb_spec x (2 ^ 63)); arith64; lia.
Qed.

Lemma unzigzag_zigzag x : x < 2 ^ 64 -> unzigzag (zigzag x) = x.
Proof.
  intro Hx. rewrite zigzag_closed by exact Hx. unfold unzigzag.
  destruct (N.ltb_spec x (2 ^ 63)) as [H|H].
  - rewrite N.even_mul. cbn [N.even orb]. rewrite N.lxor_0_r.
    rewrite N.mul_comm. apply N.div_mul. discriminate.
  - replace (2 ^ 65 - 1 - 2 * x) with (1 + 2 * (2 ^ 64 - 1 - x)) by (arith64; lia).
    rewrite N.even_add_mul_2. cbn [N.even].
    replace ((1 + 2 * (2 ^ 64 - 1 - x)) / 2) with (2 ^ 64 - 1 - x).
    2:{ rewrite N.mul_comm, N.div_add by discriminate. cbn [N.div]. change (1 / 2) with 0. lia. }
    rewrite W64m1_ones. rewrite lxor_ones_low by (arith64; lia).
    change (N.ones 64) with (2 ^ 64 - 1). arith64. lia.
Qed.

(** ** uvarint *)
Lemma get_put_uvarint_f fuel : forall i x acc s rest,
  (i + fuel = 9)%nat -> x < 2 * 128 ^ N.of_nat fuel ->
  get_uvarint_f (put_uvarint_f fuel x ++ rest) i acc s = Some (acc + x * 2 ^ s, rest).
Proof.
  induction fuel as [|f IH]; intros i x acc s rest Hi Hx.
  - assert (i = 9%nat) by lia. subst i. change (N.of_nat 0) with 0 in Hx.
    rewrite N.pow_0_r in Hx.
    cbn [put_uvarint_f app get_uvarint_f Nat.leb Nat.eqb andb].
    replace (x <? 128) with true by lia. replace (1 <? x) with false by lia. reflexivity.
  - cbn [put_uvarint_f]. destruct (N.ltb_spec x 128) as [H|H].
    + cbn [app get_uvarint_f].
      replace (10 <=? i)%nat with false by lia. replace (x <? 128) with true by lia.
      replace (i =? 9)%nat with false by lia. reflexivity.
    + cbn [app get_uvarint_f].
      replace (10 <=? i)%nat with false by lia.
      assert (Hm : x mod 128 < 128) by (apply N.mod_lt; discriminate).
      replace (x mod 128 + 128 <? 128) with false by lia.
      replace ((x mod 128 + 128) mod 128) with (x mod 128).
      2:{ replace (x mod 128 + 128) with (x mod 128 + 1 * 128) by lia.
          rewrite N.mod_add by discriminate. symmetry. apply N.mod_small. exact Hm. }
      rewrite IH.
      * f_equal. f_equal. rewrite N.pow_add_r. change (2 ^ 7) with 128.
        rewrite (N.div_mod x 128) at 3 by discriminate. ring.
      * lia.
      * rewrite Nat2N.inj_succ, N.pow_succ_r' in Hx.
        apply N.div_lt_upper_bound; [discriminate|]. lia.
Qed.

Lemma get_put_uvarint x rest :
  x < 2 ^ 64 -> get_uvarint (put_uvarint x ++ rest) = Some (x, rest).
Proof.
  intro Hx. unfold get_uvarint, put_uvarint.
  rewrite get_put_uvarint_f; [|reflexivity|].
  - rewrite N.pow_0_r, N.mul_1_r. reflexivity.
  - change (2 * 128 ^ N.of_nat 9) with (2 ^ 64). exact Hx.
Qed.

(** ** big-endian words *)
Lemma of_be64_be64 w : w < 2 ^ 64 -> of_be64 (be64 w) = w.
Proof.
  intro Hw. unfold of_be64, be64. cbn [map fold_left].
  change 255 with (N.ones 8). rewrite !N.land_ones, !N.shiftr_div_pow2.
  change (8 * N.of_nat 7) with 56. change (8 * N.of_nat 6) with 48.
  change (8 * N.of_nat 5) with 40. change (8 * N.of_nat 4) with 32.
  change (8 * N.of_nat 3) with 24. change (8 * N.of_nat 2) with 16.
  change (8 * N.of_nat 1) with 8. change (8 * N.of_nat 0) with 0.
  change (2 ^ 56) with (256*256*256*256*256*256*256).
  change (2 ^ 48) with (256*256*256*256*256*256).
  change (2 ^ 40) with (256*256*256*256*256). change (2 ^ 32) with (256*256*256*256).
  change (2 ^ 24) with (256*256*256). change (2 ^ 16) with (256*256). change (2 ^ 8) with 256.
  change (2 ^ 0) with 1. rewrite N.div_1_r.
  rewrite <- !N.div_div by lia.
  assert (H8 : w / 256 / 256 / 256 / 256 / 256 / 256 / 256 / 256 = 0).
  { rewrite !N.div_div by lia. apply N.div_small. exact Hw. }
  set (x1 := w / 256) in *. set (x2 := x1 / 256) in *. set (x3 := x2 / 256) in *.
  set (x4 := x3 / 256) in *. set (x5 := x4 / 256) in *. set (x6 := x5 / 256) in *.
  set (x7 := x6 / 256) in *.
  pose proof (N.div_mod w 256 ltac:(discriminate)) as E0. fold x1 in E0.
  pose proof (N.div_mod x1 256 ltac:(discriminate)) as E1. fold x2 in E1.
  pose proof (N.div_mod x2 256 ltac:(discriminate)) as E2. fold x3 in E2.
  pose proof (N.div_mod x3 256 ltac:(discriminate)) as E3. fold x4 in E3.
  pose proof (N.div_mod x4 256 ltac:(discriminate)) as E4. fold x5 in E4.
  pose proof (N.div_mod x5 256 ltac:(discriminate)) as E5. fold x6 in E5.
  pose proof (N.div_mod x6 256 ltac:(discriminate)) as E6. fold x7 in E6.
  pose proof (N.div_mod x7 256 ltac:(discriminate)) as E7. rewrite H8 in E7.
  lia.
Qed.

Lemma be64_length w : length (be64 w) = 8%nat.
Proof. reflexivity. Qed.

Lemma words_bytes_length ws : length (words_bytes ws) = (8 * length ws)%nat.
Proof.
  induction ws as [|w ws IH]; [reflexivity|].
  unfold words_bytes in *. cbn [flat_map]. rewrite app_length, be64_length, IH. cbn [length]. lia.
Qed.

Lemma words_bytes_cons w ws : words_bytes (w :: ws) = be64 w ++ words_bytes ws.
Proof. reflexivity. Qed.

Lemma bytes_words_cons f w b : w < 2 ^ 64 ->
  bytes_words (S f) (be64 w ++ b) = (w :: fst (bytes_words f b), snd (bytes_words f b)).
Proof.
  intro Hw. pose proof (of_be64_be64 w Hw) as E.
  unfold be64 in *. cbn [map app] in *. cbn [bytes_words]. rewrite E.
  destruct (bytes_words f b). reflexivity.
Qed.

Lemma bytes_words_short f b : (length b < 8)%nat -> bytes_words f b = ([], b).
Proof.
  intro H. destruct f; [reflexivity|]. cbn [bytes_words].
  do 8 (destruct b as [|? b]; [reflexivity|]). cbn [length] in H. lia.
Qed.

(** fuel exactly the number of words: the rest is returned whatever its length *)
Lemma bytes_words_exact ws rest : Forall (fun w => w < 2 ^ 64) ws ->
  bytes_words (length ws) (words_bytes ws ++ rest) = (ws, rest).
Proof.
  induction 1 as [|w ws Hw Hws IH]; [reflexivity|].
  cbn [length]. rewrite words_bytes_cons, <- app_assoc, bytes_words_cons by exact Hw.
  rewrite IH. reflexivity.
Qed.

(** enough fuel and a tail shorter than one word *)
Lemma bytes_words_words_bytes ws tl n : Forall (fun w => w < 2 ^ 64) ws ->
  (length tl < 8)%nat -> (length ws <= n)%nat ->
  bytes_words n (words_bytes ws ++ tl) = (ws, tl).
Proof.
  intros Hws Htl. revert n. induction Hws as [|w ws Hw Hws IH]; intros n Hn.
  - apply bytes_words_short. exact Htl.
  - destruct n as [|n]; [cbn [length] in Hn; lia|].
    rewrite words_bytes_cons, <- app_assoc, bytes_words_cons by exact Hw.
    rewrite IH by (cbn [length] in Hn; lia). reflexivity.
Qed.

Lemma bytes_words_all ws : Forall (fun w => w < 2 ^ 64) ws ->
  bytes_words (length (words_bytes ws)) (words_bytes ws) = (ws, []).
Proof.
  intro H. rewrite <- (app_nil_r (words_bytes ws)) at 2.
  apply bytes_words_words_bytes; [exact H|cbn; lia|]. rewrite words_bytes_length. lia.
Qed.

(** * D. booleans *)
Local Ltac bits_cases n l H :=
  lazymatch n with
  | O => destruct l; [vm_compute; reflexivity | exfalso; cbn [length] in H; lia]
  | S ?m => destruct l as [|[] l]; [vm_compute; reflexivity | bits_cases m l H | bits_cases m l H]
  end.

Lemma byte_bits_of_bits l : (length l <= 8)%nat ->
  byte_bits (byte_of_bits l) = firstn 8 (l ++ repeat false 8).
Proof. intro H. bits_cases 8%nat l H. Qed.

Lemma bits_bytes_nil f : bits_bytes f [] = [].
Proof. destruct f; reflexivity. Qed.

Lemma firstn_app_all {A} (l r : list A) : firstn (length l) (l ++ r) = l.
Proof. rewrite firstn_app, Nat.sub_diag, firstn_all. cbn. apply app_nil_r. Qed.

Lemma bits_bytes_spec fuel : forall bs, (length bs <= fuel)%nat ->
  exists k, flat_map byte_bits (bits_bytes fuel bs) = bs ++ repeat false k
            /\ (8 * length (bits_bytes fuel bs) = length bs + k)%nat.
Proof.
  induction fuel as [|f IH]; intros bs Hl.
  - destruct bs; [|cbn [length] in Hl; lia]. exists 0%nat. split; reflexivity.
  - destruct bs as [|b0 bs']; [exists 0%nat; split; reflexivity|].
    remember (b0 :: bs') as bs eqn:Ebs.
    assert (Hne : (0 < length bs)%nat) by (subst bs; cbn [length]; lia).
    replace (bits_bytes (S f) bs) with (byte_of_bits (firstn 8 bs) :: bits_bytes f (skipn 8 bs))
      by (subst bs; reflexivity).
    cbn [flat_map length].
    rewrite byte_bits_of_bits by (rewrite firstn_length; lia).
    destruct (Nat.leb_spec 8 (length bs)) as [H8|H8].
    + destruct (IH (skipn 8 bs)) as (k & E1 & E2); [rewrite skipn_length; lia|].
      exists k. rewrite E1. rewrite skipn_length in E2. split; [|lia].
      assert (Hf : length (firstn 8 bs) = 8%nat) by (rewrite firstn_length; lia).
      rewrite <- Hf at 1. rewrite firstn_app_all.
      rewrite app_assoc, firstn_skipn. reflexivity.
    + rewrite (@firstn_all2 _ 8 bs) by lia. rewrite skipn_all2 by lia. rewrite bits_bytes_nil.
      exists (8 - length bs)%nat. cbn [flat_map length]. rewrite app_nil_r. split; [|lia].
      rewrite firstn_app, (@firstn_all2 _ 8 bs) by lia. f_equal.
      rewrite firstn_repeat by lia. reflexivity.
Qed.

Lemma bool_decode_encode bs : N.of_nat (length bs) < 2 ^ 64 ->
  bool_decode (bool_encode bs) = Some bs.
Proof.
  intro Hl. unfold bool_encode, bool_decode.
  rewrite get_put_uvarint by exact Hl.
  destruct (bits_bytes_spec (length bs) bs (le_n _)) as (k & E1 & E2).
  unfold pack_bits. rewrite E1. f_equal.
  replace (N.to_nat (N.min (N.of_nat (length bs)) (8 * N.of_nat (length (bits_bytes (length bs) bs)))))
    with (length bs) by lia.
  apply firstn_app_all.
Qed.

Theorem bool_roundtrip : forall bs, N.of_nat (length bs) < 2 ^ 64 ->
  bool_decode (bool_encode bs) = Some bs /\ bool_decode (bool_encode_scalar bs) = Some bs.
Proof.
  intros bs Hl. split; [apply bool_decode_encode; exact Hl|].
  destruct bs as [|b bs]; [vm_compute; reflexivity|].
  unfold bool_encode_scalar. apply bool_decode_encode. exact Hl.
Qed.

(** * simple8b words fit 64 bits *)
Lemma pack_word_u64 sel n b src :
  row_ok (sel, n, b) -> (n <= length src)%nat ->
  Forall (fun v => v < 2 ^ b) (firstn n src) ->
  pack_word sel n b src < 2 ^ 64.
Proof.
  intros (Hsel & _ & _ & _ & Hnb & _ & _) Hlen Hall.
  rewrite pack_word_arith by assumption.
  pose proof (pack_val_bound b _ Hall) as Hb. rewrite firstn_length_le in Hb by exact Hlen.
  assert (E : 2 ^ (60 - b * N.of_nat n) * 2 ^ (b * N.of_nat n) = 2 ^ 60).
  { rewrite <- N.pow_add_r. f_equal. lia. }
  rewrite <- N.mul_assoc, E.
  assert (Hle : 2 ^ (b * N.of_nat n) <= 2 ^ 60) by (apply N.pow_le_mono_r; lia).
  change (2 ^ 64) with (16 * 2 ^ 60). remember (2 ^ 60) as K. nia.
Qed.

Definition u64_step (step : list N -> option (N * nat)) : Prop :=
  forall src w n, step src = Some (w, n) -> w < 2 ^ 64.

Lemma first_code_u64 src cs w n :
  Forall row_ok cs -> first_code src cs = Some (w, n) -> w < 2 ^ 64.
Proof.
  induction 1 as [|[[sel n'] b] cs Hrow Hcs IH]; cbn [first_code]; [discriminate|].
  destruct (can_pack src n' b) eqn:E; [|exact IH].
  intro H. inversion H; subst. clear H.
  pose proof Hrow as (_ & _ & _ & Hb0 & _).
  apply can_pack_bits in E as [Hl Hall]; [|exact Hb0].
  apply pack_word_u64; assumption.
Qed.

Lemma codes_step_u64 src cs w n :
  Forall row_ok cs -> codes_step src cs = Some (w, n) -> w < 2 ^ 64.
Proof.
  induction 1 as [|[[sel n'] b] cs Hrow Hcs IH]; cbn [codes_step]; [discriminate|].
  destruct (Nat.ltb_spec (length src) n') as [|Hl]; [exact IH|].
  destruct (forallb _ (firstn n' src)) eqn:E; [|exact IH].
  intro H. inversion H; subst. clear H.
  apply pack_word_u64; [exact Hrow|exact Hl|].
  apply Forall_forall. intros x Hx. rewrite forallb_forall in E. specialize (E x Hx). lia.
Qed.

Lemma encode1_u64 : u64_step encode1.
Proof.
  intros src w n. unfold encode1.
  destruct (can_pack src 240 0); [intro H; inversion H; reflexivity|].
  destruct (can_pack src 120 0); [intro H; inversion H; reflexivity|].
  destruct (first_code src codes) as [[w' n']|] eqn:E2.
  { intro H; inversion H; subst. eapply first_code_u64; [apply codes_ok|exact E2]. }
  destruct src; [intro H; inversion H; reflexivity|discriminate].
Qed.

Lemma repo_step_u64 : u64_step repo_step.
Proof.
  intros src w n. unfold repo_step.
  destruct (120 <=? length src)%nat; [|apply codes_step_u64, codes_ok].
  destruct (_ =? 240)%nat; [intro H; inversion H; reflexivity|].
  destruct (120 <=? _)%nat; [intro H; inversion H; reflexivity|].
  apply codes_step_u64, codes_ok.
Qed.

Lemma loop_u64 step : u64_step step ->
  forall fuel src ws, loop step fuel src = Some ws -> Forall (fun w => w < 2 ^ 64) ws.
Proof.
  intros Hs. induction fuel as [|f IH]; intros src ws.
  - destruct src; cbn [loop]; [|discriminate]. intro H; inversion H. constructor.
  - destruct src as [|v r]; cbn [loop].
    { intro H; inversion H. constructor. }
    destruct (step (v :: r)) as [[w n]|] eqn:Es; [|discriminate].
    destruct (loop step f (skipn n (v :: r))) as [ws'|] eqn:El; [|discriminate].
    intro H; inversion H; subst. clear H.
    constructor; [eapply Hs; exact Es|eapply IH; exact El].
Qed.

Lemma encode_all_u64 l ws : encode_all l = Some ws -> Forall (fun w => w < 2 ^ 64) ws.
Proof. apply loop_u64, repo_step_u64. Qed.

Lemma jw_encode_all_u64 l ws : jw_encode_all l = Some ws -> Forall (fun w => w < 2 ^ 64) ws.
Proof. apply loop_u64, encode1_u64. Qed.

Lemma stream_fold_u64 l : forall out pending out' pending',
  fold_left stream_write l (Some (out, pending)) = Some (out', pending') ->
  Forall (fun w => w < 2 ^ 64) out -> Forall (fun w => w < 2 ^ 64) out'.
Proof.
  induction l as [|v l IH]; intros out pending out' pending'; cbn [fold_left].
  - intro H; inversion H; subst. auto.
  - unfold stream_write at 2.
    destruct (240 <=? length pending)%nat.
    + destruct (encode1 pending) as [[w n]|] eqn:E; [|rewrite fold_stream_none; discriminate].
      intros H Ho. eapply IH; [exact H|]. constructor; [eapply encode1_u64; exact E|exact Ho].
    + intros H Ho. eapply IH; [exact H|exact Ho].
Qed.

Lemma stream_encode_u64 l ws : stream_encode l = Some ws -> Forall (fun w => w < 2 ^ 64) ws.
Proof.
  unfold stream_encode.
  destruct (fold_left stream_write l (Some ([], []))) as [[out pending]|] eqn:Ef; [|discriminate].
  destruct (loop encode1 (length pending) pending) as [ws2|] eqn:El; [|discriminate].
  intro H; inversion H; subst. clear H.
  apply Forall_app. split.
  - apply Forall_rev. eapply stream_fold_u64; [exact Ef|constructor].
  - eapply loop_u64; [apply encode1_u64|exact El].
Qed.

(** * B. integer / unsigned *)

Lemma unzigzag_lt v : v < 2 ^ 64 -> unzigzag v < 2 ^ 64.
Proof.
  intro Hv. unfold unzigzag.
  assert (Hd : v / 2 < 2 ^ 63).
  { apply N.div_lt_upper_bound; [discriminate|]. change (2 * 2 ^ 63) with (2 ^ 64). exact Hv. }
  destruct (N.even v).
  - rewrite N.lxor_0_r. eapply N.lt_trans; [exact Hd|reflexivity].
  - rewrite W64m1_ones, lxor_ones_low.
    + change (N.ones 64) with (2 ^ 64 - 1). pose proof (pow2_pos 64). lia.
    + eapply N.lt_trans; [exact Hd|reflexivity].
Qed.

Lemma zz_deltas_u64 vs : forall prev, Forall (fun w => w < 2 ^ 64) (zz_deltas prev vs).
Proof.
  induction vs as [|v r IH]; intro prev; cbn [zz_deltas]; constructor.
  - apply zigzag_lt, sub64_lt.
  - apply IH.
Qed.

Lemma zz_deltas_length vs : forall prev, length (zz_deltas prev vs) = length vs.
Proof. induction vs as [|v r IH]; intro prev; cbn [zz_deltas length]; [reflexivity|]. rewrite IH. reflexivity. Qed.

Lemma unzz_zz vs : forall prev, prev < 2 ^ 64 -> Forall (fun v => v < 2 ^ 64) vs ->
  unzz_sums prev (zz_deltas prev vs) = vs.
Proof.
  induction vs as [|v r IH]; intros prev Hp H; [reflexivity|].
  inversion H as [|? ? Hv Hr]; subst.
  cbn [zz_deltas unzz_sums]. rewrite unzigzag_zigzag by apply sub64_lt.
  rewrite add64_sub64 by assumption. f_equal. apply IH; assumption.
Qed.

(** ** run-length form *)
Lemma forallb_eqb_repeat d r : forallb (N.eqb d) r = true -> r = repeat d (length r).
Proof.
  induction r as [|v r IH]; cbn [forallb length repeat]; [reflexivity|].
  intro H. apply andb_true_iff in H as [H1 H2]. apply N.eqb_eq in H1. subst.
  f_equal. apply IH. exact H2.
Qed.

Lemma unzz_sums_repeat d k : forall prev,
  unzz_sums prev (repeat d k) = rle_acc k (add64 prev (unzigzag d)) (unzigzag d).
Proof.
  induction k as [|k IH]; intro prev; cbn [repeat unzz_sums rle_acc]; [reflexivity|].
  f_equal. apply IH.
Qed.

Lemma add64_mul64_step a k d :
  add64 (add64 a (mul64 (N.of_nat k) d)) d = add64 a (mul64 (N.of_nat (S k)) d).
Proof.
  unfold add64, mul64. rewrite Nat2N.inj_succ, N.mul_succ_l.
  assert (Hnz : W64 <> 0) by discriminate.
  rewrite N.add_mod_idemp_l by exact Hnz.
  rewrite N.add_mod_idemp_r by exact Hnz.
  rewrite <- N.add_assoc.
  rewrite <- (N.add_mod_idemp_r a (_ + d)) by exact Hnz.
  rewrite (N.add_mod_idemp_l (N.of_nat k * d) d) by exact Hnz.
  rewrite N.add_mod_idemp_r by exact Hnz. reflexivity.
Qed.

Lemma rle_acc_map_from n : forall a k d,
  rle_acc n (add64 a (mul64 (N.of_nat k) d)) d
  = map (fun i => add64 a (mul64 (N.of_nat i) d)) (seq k n).
Proof.
  induction n as [|n IH]; intros a k d; cbn [rle_acc seq map]; [reflexivity|].
  f_equal. rewrite add64_mul64_step. apply IH.
Qed.

Lemma rle_acc_map n a d : a < 2 ^ 64 ->
  rle_acc n a d = map (fun i => add64 a (mul64 (N.of_nat i) d)) (seq 0 n).
Proof.
  intro Ha. rewrite <- rle_acc_map_from. f_equal.
  unfold add64, mul64. change (N.of_nat 0) with 0. rewrite N.mul_0_l.
  change (0 mod W64) with 0. rewrite N.add_0_r. symmetry. apply N.mod_small. exact Ha.
Qed.

(** ** the three block formats, decoded *)
Lemma int_decode_raw ds : ds <> [] -> Forall (fun w => w < 2 ^ 64) ds ->
  int_decode_scalar (int_raw_bytes ds) = Some (unzz_sums 0 ds)
  /\ int_decode_batch (int_raw_bytes ds) = Some (unzz_sums 0 ds).
Proof.
  intros Hne Hds. unfold int_raw_bytes. destruct ds as [|d r]; [contradiction|].
  remember (d :: r) as ds eqn:E. clear E Hne.
  unfold int_decode_scalar, int_decode_batch. cbv zeta.
  change (intUncompressed * 16 / 16 =? intUncompressed) with true. cbv iota.
  rewrite bytes_words_all by exact Hds. split; reflexivity.
Qed.

Lemma int_decode_packed d0 ws : d0 < 2 ^ 64 -> Forall (fun w => w < 2 ^ 64) ws ->
  let b := (intCompressedSimple * 16) :: be64 d0 ++ words_bytes ws in
  int_decode_scalar b = Some (unzz_sums 0 (d0 :: decode_all ws))
  /\ int_decode_batch b = Some (unzz_sums 0 (d0 :: decode_all ws)).
Proof.
  intros Hd Hws b. subst b. rewrite <- words_bytes_cons.
  unfold int_decode_scalar, int_decode_batch. cbv zeta.
  change (intCompressedSimple * 16 / 16 =? intUncompressed) with false.
  change (intCompressedSimple * 16 / 16 =? intCompressedSimple) with true. cbv iota.
  rewrite bytes_words_all by (constructor; assumption).
  rewrite count_words_spec, Nat.eqb_refl. split; reflexivity.
Qed.

Lemma int_decode_rle d0 d1 cnt : d0 < 2 ^ 64 -> d1 < 2 ^ 64 -> cnt < 2 ^ 64 ->
  let b := (intCompressedRLE * 16) :: be64 d0 ++ put_uvarint d1 ++ put_uvarint cnt in
  int_decode_scalar b
    = Some (map (fun i => add64 (unzigzag d0) (mul64 (N.of_nat i) (unzigzag d1)))
                (seq 0 (S (N.to_nat cnt))))
  /\ int_decode_batch b = Some (rle_acc (S (N.to_nat cnt)) (unzigzag d0) (unzigzag d1)).
Proof.
  intros H0 H1 Hc b. subst b.
  assert (Eb : bytes_words 1 (be64 d0 ++ put_uvarint d1 ++ put_uvarint cnt)
               = ([d0], put_uvarint d1 ++ put_uvarint cnt)).
  { apply (bytes_words_exact [d0]). constructor; [exact H0|constructor]. }
  unfold int_decode_scalar, int_decode_batch. cbv zeta.
  change (intCompressedRLE * 16 / 16 =? intUncompressed) with false.
  change (intCompressedRLE * 16 / 16 =? intCompressedSimple) with false.
  change (intCompressedRLE * 16 / 16 =? intCompressedRLE) with true. cbv iota.
  rewrite Eb. rewrite get_put_uvarint by exact H1.
  rewrite <- (app_nil_r (put_uvarint cnt)). rewrite get_put_uvarint by exact Hc.
  split; [|reflexivity].
  remember (be64 d0) as bb. destruct bb as [|x bb]; [discriminate|]. reflexivity.
Qed.

Lemma int_rle_ok ds : Forall (fun w => w < 2 ^ 64) ds -> N.of_nat (length ds) < 2 ^ 64 ->
  (2 <? length ds)%nat && all_same (tl ds) = true ->
  int_decode_scalar (int_rle_bytes ds) = Some (unzz_sums 0 ds)
  /\ int_decode_batch (int_rle_bytes ds) = Some (unzz_sums 0 ds).
Proof.
  intros Hds Hlen Hc. apply andb_true_iff in Hc as [Hl Hs].
  destruct ds as [|d0 [|d1 r]]; [discriminate..|].
  cbn [tl all_same] in Hs. apply forallb_eqb_repeat in Hs.
  inversion Hds as [|? ? H0 Hds']; subst. inversion Hds' as [|? ? H1 _]; subst.
  unfold int_rle_bytes.
  replace (length (d0 :: d1 :: r) - 1)%nat with (S (length r)) by (cbn [length]; lia).
  destruct (int_decode_rle d0 d1 (N.of_nat (S (length r))) H0 H1) as [Es Eb].
  { cbn [length] in Hlen. lia. }
  cbv zeta in Es, Eb. rewrite Es, Eb. rewrite Nat2N.id.
  rewrite <- rle_acc_map by (apply unzigzag_lt; exact H0).
  assert (E : unzz_sums 0 (d0 :: d1 :: r)
              = rle_acc (S (S (length r))) (unzigzag d0) (unzigzag d1)).
  { rewrite Hs at 1. change (d1 :: repeat d1 (length r)) with (repeat d1 (S (length r))).
    cbn [unzz_sums]. rewrite unzz_sums_repeat.
    rewrite add64_0_l by (apply unzigzag_lt; exact H0). reflexivity. }
  rewrite E. split; reflexivity.
Qed.

Lemma existsb_max_good ds : existsb (fun v => MaxValue <? v) ds = false -> Forall good ds.
Proof.
  intro H. apply Forall_forall. intros x Hx. unfold good.
  destruct (N.ltb_spec MaxValue x) as [Hlt|Hle].
  - assert (existsb (fun v => MaxValue <? v) ds = true).
    { apply existsb_exists. exists x. split; [exact Hx|]. apply N.ltb_lt. exact Hlt. }
    congruence.
  - rewrite MaxValue_eq in Hle. pose proof (pow2_pos 60). lia.
Qed.

Lemma fold_max_ge l : forall a, a <= fold_left N.max l a /\ Forall (fun v => v <= fold_left N.max l a) l.
Proof.
  induction l as [|v r IH]; intro a; cbn [fold_left]; [split; [lia|constructor]|].
  destruct (IH (N.max a v)) as [H1 H2]. split; [lia|]. constructor; [lia|exact H2].
Qed.

Lemma fold_max_good l : (MaxValue <? fold_left N.max l 0) = false -> Forall good l.
Proof.
  intro H. apply N.ltb_ge in H. destruct (fold_max_ge l 0) as [_ Hf].
  eapply Forall_impl; [|exact Hf]. cbv beta. intros v Hv. unfold good.
  rewrite MaxValue_eq in H. pose proof (pow2_pos 60). lia.
Qed.

Section IntRoundtrip.
  Variable vs : list N.
  Hypothesis Hvs : Forall (fun v => v < 2 ^ 64) vs.
  Hypothesis Hlen : N.of_nat (length vs) < 2 ^ 64.

  Let ds := zz_deltas 0 vs.

  Lemma int_ds_sums : unzz_sums 0 ds = vs.
  Proof. apply unzz_zz; [reflexivity|exact Hvs]. Qed.

  Lemma int_ds_u64 : Forall (fun w => w < 2 ^ 64) ds.
  Proof. apply zz_deltas_u64. Qed.

  Lemma int_ds_len : N.of_nat (length ds) < 2 ^ 64.
  Proof. unfold ds. rewrite zz_deltas_length. exact Hlen. Qed.

  Lemma int_packed_ok enc :
    (forall l, Forall good l -> exists ws, enc l = Some ws /\ decode_all ws = l) ->
    (forall l ws, enc l = Some ws -> Forall (fun w => w < 2 ^ 64) ws) ->
    Forall good (tl ds) ->
    exists b, int_packed_bytes ds enc = Some b
              /\ int_decode_scalar b = Some vs /\ int_decode_batch b = Some vs.
  Proof.
    intros Hrt Hu Hg. pose proof int_ds_sums as Hs. pose proof int_ds_u64 as Hd.
    destruct ds as [|d0 r] eqn:E.
    - exists []. cbn [unzz_sums] in Hs. subst vs. repeat split; reflexivity.
    - cbn [tl] in Hg. destruct (Hrt r Hg) as (ws & Ee & Ed).
      pose proof (Forall_inv Hd) as H0. cbv beta in H0.
      unfold int_packed_bytes. rewrite Ee. eexists. split; [reflexivity|].
      destruct (int_decode_packed d0 ws H0 (Hu _ _ Ee)) as [E1 E2]. cbv zeta in E1, E2.
      rewrite E1, E2, Ed, Hs. split; reflexivity.
  Qed.

  Lemma int_scalar_roundtrip :
    exists b, int_encode_scalar vs = Some b
              /\ int_decode_scalar b = Some vs /\ int_decode_batch b = Some vs.
  Proof.
    unfold int_encode_scalar. fold ds.
    destruct ((2 <? length ds)%nat && all_same (tl ds)) eqn:Ec.
    { eexists. split; [reflexivity|]. replace (Some vs) with (Some (unzz_sums 0 ds)) by (rewrite int_ds_sums; reflexivity).
      apply int_rle_ok; [apply int_ds_u64|apply int_ds_len|exact Ec]. }
    destruct (existsb (fun v => MaxValue <? v) ds) eqn:Ex.
    { eexists. split; [reflexivity|]. replace (Some vs) with (Some (unzz_sums 0 ds)) by (rewrite int_ds_sums; reflexivity).
      apply int_decode_raw; [|apply int_ds_u64]. intro E. rewrite E in Ex. discriminate. }
    apply int_packed_ok.
    - apply jw_encode_all_roundtrip.
    - apply jw_encode_all_u64.
    - apply existsb_max_good in Ex. destruct ds; [constructor|]. inversion Ex; assumption.
  Qed.

  Lemma int_batch_roundtrip :
    exists b, int_encode_batch vs = Some b
              /\ int_decode_scalar b = Some vs /\ int_decode_batch b = Some vs.
  Proof.
    destruct (list_eq_dec N.eq_dec vs []) as [Evs|Hne].
    { exists []. rewrite Evs. repeat split; reflexivity. }
    assert (Eenc : int_encode_batch vs =
              if (2 <? length ds)%nat && all_same (tl ds) then Some (int_rle_bytes ds)
              else if MaxValue <? fold_left N.max (tl ds) 0 then Some (int_raw_bytes ds)
              else int_packed_bytes ds encode_all).
    { unfold ds. destruct vs; [contradiction|reflexivity]. }
    rewrite Eenc. clear Eenc.
    destruct ((2 <? length ds)%nat && all_same (tl ds)) eqn:Ec.
    { eexists. split; [reflexivity|]. replace (Some vs) with (Some (unzz_sums 0 ds)) by (rewrite int_ds_sums; reflexivity).
      apply int_rle_ok; [apply int_ds_u64|apply int_ds_len|exact Ec]. }
    destruct (MaxValue <? fold_left N.max (tl ds) 0) eqn:Ex.
    { eexists. split; [reflexivity|]. replace (Some vs) with (Some (unzz_sums 0 ds)) by (rewrite int_ds_sums; reflexivity).
      apply int_decode_raw; [|apply int_ds_u64]. unfold ds. destruct vs; [contradiction|discriminate]. }
    apply int_packed_ok.
    - apply encode_all_roundtrip.
    - apply encode_all_u64.
    - apply fold_max_good. exact Ex.
  Qed.
End IntRoundtrip.

Theorem int_roundtrip : forall vs,
  Forall (fun v => v < 2 ^ 64) vs -> N.of_nat (length vs) < 2 ^ 64 ->
  (exists b, int_encode_scalar vs = Some b
             /\ int_decode_scalar b = Some vs /\ int_decode_batch b = Some vs)
  /\ (exists b, int_encode_batch vs = Some b
                /\ int_decode_scalar b = Some vs /\ int_decode_batch b = Some vs).
Proof.
  intros vs Hvs Hlen. split;
    [apply int_scalar_roundtrip | apply int_batch_roundtrip]; assumption.
Qed.

(** * C. timestamps *)

Lemma deltas64_u64 ts : forall prev, Forall (fun w => w < 2 ^ 64) (deltas64 prev ts).
Proof.
  induction ts as [|t r IH]; intro prev; cbn [deltas64]; constructor; [apply sub64_lt|apply IH].
Qed.

Lemma deltas64_length ts : forall prev, length (deltas64 prev ts) = length ts.
Proof. induction ts as [|t r IH]; intro prev; cbn [deltas64 length]; [reflexivity|]. rewrite IH. reflexivity. Qed.

Lemma sums64_deltas64 ts : forall prev, prev < 2 ^ 64 -> Forall (fun v => v < 2 ^ 64) ts ->
  sums64 prev (deltas64 prev ts) = ts.
Proof.
  induction ts as [|t r IH]; intros prev Hp H; [reflexivity|].
  inversion H as [|? ? Ht Hr]; subst.
  cbn [deltas64 sums64]. rewrite add64_sub64 by assumption. f_equal. apply IH; assumption.
Qed.

Lemma sums64_repeat d k : forall prev,
  sums64 prev (repeat d k) = rle_acc k (add64 prev d) d.
Proof.
  induction k as [|k IH]; intro prev; cbn [repeat sums64 rle_acc]; [reflexivity|].
  f_equal. apply IH.
Qed.

(** ** the divisor *)
Lemma pow10_nz e : 10 ^ e <> 0.
Proof. apply N.pow_nonzero. discriminate. Qed.

Lemma pow10_divide e' e : e' <= e -> (10 ^ e' | 10 ^ e).
Proof.
  intro H. exists (10 ^ (e - e')). rewrite <- N.pow_add_r. f_equal. lia.
Qed.

Lemma reduce_div_spec fuel : forall e v, e <= N.of_nat fuel ->
  exists e', reduce_div fuel (10 ^ e) e v = (10 ^ e', e') /\ e' <= e /\ (10 ^ e' | v).
Proof.
  induction fuel as [|f IH]; intros e v He.
  - assert (e = 0) by lia. subst e. exists 0. cbn [reduce_div].
    split; [reflexivity|]. split; [lia|]. rewrite N.pow_0_r. apply N.divide_1_l.
  - cbn [reduce_div]. pose proof (pow10_nz e) as Hnz.
    destruct (N.ltb_spec 1 (10 ^ e)) as [H1|H1]; cbn [andb].
    + destruct (N.eqb_spec (v mod 10 ^ e) 0) as [H2|H2]; cbn [negb].
      * exists e. split; [reflexivity|]. split; [lia|]. apply N.mod_divide; assumption.
      * assert (He0 : e <> 0) by (intros ->; rewrite N.pow_0_r in H1; lia).
        assert (Ed : 10 ^ e / 10 = 10 ^ (e - 1)).
        { replace e with (N.succ (e - 1)) at 1 by lia. rewrite N.pow_succ_r', N.mul_comm.
          apply N.div_mul. discriminate. }
        rewrite Ed. destruct (IH (e - 1) v ltac:(lia)) as (e' & E & Hle & Hd).
        exists e'. split; [exact E|]. split; [lia|exact Hd].
    + exists e. split; [reflexivity|]. split; [lia|].
      replace (10 ^ e) with 1 by lia. apply N.divide_1_l.
Qed.

Lemma div_step_spec e v : e <= 12 ->
  exists e', div_step (10 ^ e, e) v = (10 ^ e', e') /\ e' <= e /\ (10 ^ e' | v).
Proof. intro H. unfold div_step. cbn [fst snd]. apply reduce_div_spec. exact H. Qed.

Lemma Forall_divide_weaken e' e l : e' <= e ->
  Forall (fun v => (10 ^ e | v)) l -> Forall (fun v => (10 ^ e' | v)) l.
Proof.
  intros H Hf. eapply Forall_impl; [|exact Hf]. cbv beta. intros v Hv.
  eapply N.divide_trans; [apply pow10_divide; exact H|exact Hv].
Qed.

Lemma div_fold_right rest :
  exists e, fold_right (fun v acc => div_step acc v) div0 rest = (10 ^ e, e)
            /\ e <= 12 /\ Forall (fun v => (10 ^ e | v)) rest.
Proof.
  induction rest as [|v r (e & E & He & Hf)]; cbn [fold_right].
  - exists 12. split; [reflexivity|]. split; [lia|constructor].
  - rewrite E. destruct (div_step_spec e v He) as (e' & E' & Hle & Hd).
    exists e'. split; [exact E'|]. split; [lia|].
    constructor; [exact Hd|]. eapply Forall_divide_weaken; eassumption.
Qed.

Lemma div_fold_left rest : forall e0, e0 <= 12 ->
  exists e, fold_left div_step rest (10 ^ e0, e0) = (10 ^ e, e)
            /\ e <= e0 /\ Forall (fun v => (10 ^ e | v)) rest.
Proof.
  induction rest as [|v r IH]; intros e0 He0; cbn [fold_left].
  - exists e0. split; [reflexivity|]. split; [lia|constructor].
  - destruct (div_step_spec e0 v He0) as (e1 & E1 & Hle1 & Hd1). rewrite E1.
    destruct (IH e1 ltac:(lia)) as (e & E & Hle & Hf).
    exists e. split; [exact E|]. split; [lia|].
    constructor; [|exact Hf].
    eapply N.divide_trans; [apply pow10_divide; exact Hle|exact Hd1].
Qed.

Lemma mul64_div v dv : dv <> 0 -> (dv | v) -> v < 2 ^ 64 -> mul64 (v / dv) dv = v.
Proof.
  intros Hnz [k ->] Hv. rewrite N.div_mul by exact Hnz. unfold mul64.
  rewrite W64_eq. apply N.mod_small. exact Hv.
Qed.

Lemma map_mul64_div e l :
  Forall (fun v => (10 ^ e | v)) l -> Forall (fun v => v < 2 ^ 64) l ->
  map (fun d => mul64 d (10 ^ e)) (map (fun v => v / 10 ^ e) l) = l.
Proof.
  intros Hd Hu. rewrite map_map. rewrite <- (map_id l) at 2. apply map_ext_in.
  intros v Hv. rewrite Forall_forall in Hd, Hu.
  apply mul64_div; [apply pow10_nz|apply Hd; exact Hv|apply Hu; exact Hv].
Qed.

Lemma Forall_good_div dv l : dv <> 0 -> Forall good l -> Forall good (map (fun v => v / dv) l).
Proof.
  intros Hnz H. apply Forall_forall. intros x Hx. apply in_map_iff in Hx as (v & <- & Hv).
  rewrite Forall_forall in H. specialize (H v Hv). unfold good in *.
  eapply N.le_lt_trans; [|exact H]. apply N.div_le_upper_bound; [exact Hnz|]. nia.
Qed.

(** header byte *)
Lemma hdr_div k e : e < 16 -> (k * 16 + e) / 16 = k.
Proof. intro H. rewrite N.div_add_l by discriminate. rewrite N.div_small by exact H. lia. Qed.
Lemma hdr_mod k e : e < 16 -> (k * 16 + e) mod 16 = e.
Proof. intro H. rewrite N.add_comm, N.mod_add by discriminate. apply N.mod_small. exact H. Qed.

(** ** the three block formats, decoded *)
Lemma time_decode_raw strict ds : Forall (fun w => w < 2 ^ 64) ds ->
  time_decode strict ((timeUncompressed * 16) :: words_bytes ds) = Some (sums64 0 ds).
Proof.
  intro Hds. unfold time_decode. cbv zeta.
  change (timeUncompressed * 16 / 16 =? timeUncompressed) with true. cbv iota.
  rewrite bytes_words_all by exact Hds. reflexivity.
Qed.

Lemma time_decode_packed strict e t0 ws : e <= 12 -> t0 < 2 ^ 64 ->
  Forall (fun w => w < 2 ^ 64) ws ->
  time_decode strict ((timeCompressedPackedSimple * 16 + e) :: be64 t0 ++ words_bytes ws)
  = Some (t0 :: sums64 t0 (map (fun d => mul64 d (10 ^ e)) (decode_all ws))).
Proof.
  intros He Ht Hws. rewrite <- words_bytes_cons.
  unfold time_decode. cbv zeta. rewrite hdr_div, hdr_mod by lia.
  change (timeCompressedPackedSimple =? timeUncompressed) with false.
  change (timeCompressedPackedSimple =? timeCompressedPackedSimple) with true. cbv iota.
  rewrite bytes_words_all by (constructor; assumption). reflexivity.
Qed.

Lemma time_decode_rle strict e t0 v n : e <= 12 -> t0 < 2 ^ 64 -> v < 2 ^ 64 -> n < 2 ^ 64 ->
  time_decode strict ((timeCompressedRLE * 16 + e) :: be64 t0 ++ put_uvarint v ++ put_uvarint n)
  = Some (rle_acc (N.to_nat n) t0 (mul64 v (10 ^ e))).
Proof.
  intros He Ht Hv Hn.
  assert (Eb : bytes_words 1 (be64 t0 ++ put_uvarint v ++ put_uvarint n)
               = ([t0], put_uvarint v ++ put_uvarint n)).
  { apply (bytes_words_exact [t0]). constructor; [exact Ht|constructor]. }
  unfold time_decode. cbv zeta. rewrite hdr_div, hdr_mod by lia.
  change (timeCompressedRLE =? timeUncompressed) with false.
  change (timeCompressedRLE =? timeCompressedPackedSimple) with false.
  change (timeCompressedRLE =? timeCompressedRLE) with true. cbv iota.
  rewrite Eb. rewrite get_put_uvarint by exact Hv.
  rewrite <- (app_nil_r (put_uvarint n)). rewrite get_put_uvarint by exact Hn.
  reflexivity.
Qed.

Section TimeRoundtrip.
  Variables (t0 : N) (r : list N).
  Hypothesis Ht0 : t0 < 2 ^ 64.
  Hypothesis Hr : Forall (fun v => v < 2 ^ 64) r.
  Hypothesis Hlen : N.of_nat (length (t0 :: r)) < 2 ^ 64.

  Let rest := deltas64 t0 r.

  Lemma time_ds : deltas64 0 (t0 :: r) = t0 :: rest.
  Proof. cbn [deltas64]. rewrite sub64_0_r by exact Ht0. reflexivity. Qed.

  Lemma time_rest_sums : sums64 t0 rest = r.
  Proof. apply sums64_deltas64; assumption. Qed.

  Lemma time_rest_u64 : Forall (fun w => w < 2 ^ 64) rest.
  Proof. apply deltas64_u64. Qed.

  Lemma time_raw_ok strict :
    time_decode strict ((timeUncompressed * 16) :: words_bytes (t0 :: rest)) = Some (t0 :: r).
  Proof.
    rewrite time_decode_raw by (constructor; [exact Ht0|apply time_rest_u64]).
    cbn [sums64]. rewrite add64_0_l by exact Ht0. rewrite time_rest_sums. reflexivity.
  Qed.

  Lemma time_rle_ok strict e dv : e <= 12 -> dv = 10 ^ e ->
    Forall (fun v => (dv | v)) rest -> all_same rest = true -> (1 <? length (t0 :: r))%nat = true ->
    time_decode strict (time_rle_bytes e t0 (hd 0 rest) dv (N.of_nat (length (t0 :: r))))
    = Some (t0 :: r).
  Proof.
    intros He -> Hd Hs Hl. pose proof time_rest_sums as Hsum. pose proof time_rest_u64 as Hu.
    assert (Hrl : length rest = length r) by apply deltas64_length.
    destruct rest as [|d1 rs] eqn:Erest.
    { destruct r; [discriminate|discriminate]. }
    cbn [hd]. cbn [all_same] in Hs. apply forallb_eqb_repeat in Hs.
    pose proof (Forall_inv Hd) as Hd1. pose proof (Forall_inv Hu) as Hu1. cbv beta in Hd1, Hu1.
    unfold time_rle_bytes.
    rewrite time_decode_rle; [|exact He|exact Ht0| |exact Hlen].
    2:{ eapply N.le_lt_trans; [|exact Hu1]. apply N.div_le_upper_bound; [apply pow10_nz|].
        pose proof (pow10_nz e). nia. }
    rewrite mul64_div by (try apply pow10_nz; assumption).
    rewrite Nat2N.id. f_equal. cbn [length rle_acc]. f_equal.
    cbn [length] in Hrl. rewrite <- Hrl. symmetry. rewrite <- Hsum. rewrite Hs at 1.
    change (d1 :: repeat d1 (length rs)) with (repeat d1 (S (length rs))).
    apply sums64_repeat.
  Qed.

  Lemma time_packed_ok enc e :
    (forall l, Forall good l -> exists ws, enc l = Some ws /\ decode_all ws = l) ->
    (forall l ws, enc l = Some ws -> Forall (fun w => w < 2 ^ 64) ws) ->
    e <= 12 -> Forall (fun v => (10 ^ e | v)) rest -> Forall good rest ->
    exists b,
      match enc (map (fun v => v / 10 ^ e) rest) with
      | Some ws => Some ((timeCompressedPackedSimple * 16 + e) :: be64 t0 ++ words_bytes ws)
      | None => None
      end = Some b
      /\ time_decode_scalar b = Some (t0 :: r) /\ time_decode_batch b = Some (t0 :: r).
  Proof.
    intros Hrt Hu He Hd Hg.
    destruct (Hrt _ (Forall_good_div (10 ^ e) rest (pow10_nz e) Hg)) as (ws & Ee & Ed).
    rewrite Ee. eexists. split; [reflexivity|].
    unfold time_decode_scalar, time_decode_batch.
    rewrite !time_decode_packed by (try exact He; try exact Ht0; eapply Hu; exact Ee).
    rewrite Ed, map_mul64_div by (try exact Hd; apply time_rest_u64).
    rewrite time_rest_sums. split; reflexivity.
  Qed.

  Lemma time_scalar_roundtrip_cons :
    exists b, time_encode_scalar (t0 :: r) = Some b
              /\ time_decode_scalar b = Some (t0 :: r) /\ time_decode_batch b = Some (t0 :: r).
  Proof.
    unfold time_encode_scalar. rewrite time_ds. cbv zeta. cbn [tl hd].
    destruct (div_fold_right rest) as (e & E & He & Hd). rewrite E.
    destruct (all_same rest && (1 <? length (t0 :: r))%nat) eqn:Ec.
    { apply andb_true_iff in Ec as [Hs Hl]. eexists. split; [reflexivity|].
      unfold time_decode_scalar, time_decode_batch.
      rewrite !time_rle_ok by (try reflexivity; assumption). split; reflexivity. }
    destruct (MaxValue <? fold_left N.max rest 0) eqn:Ex.
    { eexists. split; [reflexivity|].
      unfold time_decode_scalar, time_decode_batch. rewrite !time_raw_ok. split; reflexivity. }
    apply time_packed_ok; try assumption.
    - apply stream_encode_roundtrip.
    - apply stream_encode_u64.
    - apply fold_max_good. exact Ex.
  Qed.

  Lemma time_batch_roundtrip_cons :
    exists b, time_encode_batch (t0 :: r) = Some b
              /\ time_decode_scalar b = Some (t0 :: r) /\ time_decode_batch b = Some (t0 :: r).
  Proof.
    unfold time_encode_batch. rewrite time_ds. cbv zeta. cbn [tl hd].
    destruct ((1 <? length (t0 :: r))%nat && all_same rest) eqn:Ec.
    { apply andb_true_iff in Ec as [Hl Hs].
      unfold div0. destruct (div_step_spec 12 (hd 0 rest) ltac:(lia)) as (e & E & He & Hd).
      rewrite E.
      assert (Hall : Forall (fun v => (10 ^ e | v)) rest).
      { destruct rest as [|d1 rs]; [constructor|]. cbn [hd] in Hd. cbn [all_same] in Hs.
        apply forallb_eqb_repeat in Hs. rewrite Hs.
        change (d1 :: repeat d1 (length rs)) with (repeat d1 (S (length rs))).
        apply Forall_forall. intros x Hx. apply repeat_spec in Hx. subst. exact Hd. }
      eexists. split; [reflexivity|].
      unfold time_decode_scalar, time_decode_batch.
      assert (E10 : 10 ^ e = 10 ^ (if 1 <? 10 ^ e then e else 0)).
      { destruct (N.ltb_spec 1 (10 ^ e)) as [H1|H1]; [reflexivity|].
        pose proof (pow10_nz e). rewrite N.pow_0_r. lia. }
      rewrite !time_rle_ok; try assumption; try (split; reflexivity).
      all: destruct (1 <? 10 ^ e); lia. }
    destruct (MaxValue <? fold_left N.max rest 0) eqn:Ex.
    { eexists. split; [reflexivity|].
      unfold time_decode_scalar, time_decode_batch. rewrite !time_raw_ok. split; reflexivity. }
    unfold div0. destruct (div_fold_left rest 12 ltac:(lia)) as (e & E & He & Hd). rewrite E.
    apply time_packed_ok; try assumption.
    - apply encode_all_roundtrip.
    - apply encode_all_u64.
    - apply fold_max_good. exact Ex.
  Qed.
End TimeRoundtrip.

Theorem time_roundtrip : forall ts,
  Forall (fun v => v < 2 ^ 64) ts -> N.of_nat (length ts) < 2 ^ 64 ->
  (exists b, time_encode_scalar ts = Some b
             /\ time_decode_scalar b = Some ts /\ time_decode_batch b = Some ts)
  /\ (exists b, time_encode_batch ts = Some b
                /\ time_decode_scalar b = Some ts /\ time_decode_batch b = Some ts).
Proof.
  intros ts Hts Hlen. destruct ts as [|t0 r].
  { split; exists []; repeat split; reflexivity. }
  inversion Hts as [|? ? Ht0 Hr]; subst.
  split; [apply time_scalar_roundtrip_cons | apply time_batch_roundtrip_cons]; assumption.
Qed.
