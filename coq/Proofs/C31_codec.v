(** C31 — proofs about the hex codec mirror (ID.Encode / ID.Decode). *)
From Verif Require Import Base.Prelude Model.C31.
From Coq Require Import ZifyBool ZifyNat ZifyN.
Ltac Zify.zify_post_hook ::= Z.div_mod_to_equations.
Local Open Scope N_scope.

(** ** Finite sweep helper: a boolean predicate checked on 0..255 holds below 256. *)
Definition bytes256 : list N := map N.of_nat (seq 0 256).

Lemma below256 (f : N -> bool) :
  forallb f bytes256 = true -> forall c, c < 256 -> f c = true.
Proof.
  intros H c Hc. rewrite forallb_forall in H. apply H.
  unfold bytes256. apply in_map_iff. exists (N.to_nat c). split; [lia|].
  apply in_seq. lia.
Qed.

(** A character at or above 256 is never a digit for ParseUint. *)
Lemma lor32_ge c : 256 <= c -> 256 <= N.lor c 32.
Proof.
  intro H.
  assert (H8 : 8 <= N.log2 c) by (apply (N.log2_le_pow2 c 8); lia).
  assert (Hl : N.log2 (N.lor c 32) = N.max (N.log2 c) (N.log2 32)) by apply N.log2_lor.
  assert (Hm : 8 <= N.log2 (N.lor c 32)) by lia.
  apply (N.log2_le_pow2 (N.lor c 32) 8) in Hm; [exact Hm|].
  destruct (N.eq_dec (N.lor c 32) 0) as [E|E]; [|lia].
  rewrite E in Hm. cbn in Hm. lia.
Qed.

Lemma digit_val_big c : 256 <= c -> digit_val c = None.
Proof.
  intro H. unfold digit_val, lower. pose proof (lor32_ge c H).
  destruct ((48 <=? c) && (c <=? 57)) eqn:E1; [lia|].
  destruct ((97 <=? N.lor c 32) && (N.lor c 32 <=? 122)) eqn:E2; [lia|reflexivity].
Qed.

(** Character-level facts, by sweep below 256 and [digit_val_big] above. *)
Lemma digit_val_char c d :
  digit_val c = Some d -> d < 16 ->
  is_hex c = true /\ hexchar d = to_lower_hex c /\ digit_val (to_lower_hex c) = Some d.
Proof.
  intros H Hd.
  destruct (N.ltb_spec c 256) as [Hc|Hc]; [|rewrite digit_val_big in H by exact Hc; discriminate].
  pose (f := fun c => match digit_val c with
                      | Some d => if d <? 16 then
                                    is_hex c && (hexchar d =? to_lower_hex c)
                                    && optN_eqb (digit_val (to_lower_hex c)) (Some d)
                                  else true
                      | None => true end).
  assert (F : f c = true) by (apply below256; [vm_compute; reflexivity | exact Hc]).
  unfold f in F. rewrite H in F.
  destruct (d <? 16) eqn:E; [|lia].
  apply andb_true_iff in F as [F F3]. apply andb_true_iff in F as [F1 F2].
  apply N.eqb_eq in F2. split; [exact F1|]. split; [exact F2|].
  unfold optN_eqb, option_eqb in F3. destruct (digit_val (to_lower_hex c)); [|discriminate].
  apply N.eqb_eq in F3. congruence.
Qed.

Lemma is_hex_digit_val c :
  is_hex c = true -> exists d, digit_val c = Some d /\ d < 16.
Proof.
  intro H.
  assert (Hc : c < 256).
  { unfold is_hex, is_lower_hex in H. lia. }
  pose (f := fun c => if is_hex c then
                        match digit_val c with Some d => d <? 16 | None => false end
                      else true).
  assert (F : f c = true) by (apply below256; [vm_compute; reflexivity | exact Hc]).
  unfold f in F. rewrite H in F. destruct (digit_val c) as [d|]; [|discriminate].
  exists d. split; [reflexivity | lia].
Qed.

Lemma digit_val_hexchar d : d < 16 -> digit_val (hexchar d) = Some d.
Proof.
  intro H.
  pose (f := fun d => if d <? 16 then optN_eqb (digit_val (hexchar d)) (Some d) else true).
  assert (F : f d = true) by (apply below256; [vm_compute; reflexivity | lia]).
  unfold f in F. destruct (d <? 16) eqn:E; [|lia].
  unfold optN_eqb, option_eqb in F. destruct (digit_val (hexchar d)); [|discriminate].
  apply N.eqb_eq in F. congruence.
Qed.

Lemma hexchar_lower d : d < 16 -> is_lower_hex (hexchar d) = true.
Proof.
  intro H.
  pose (f := fun d => if d <? 16 then is_lower_hex (hexchar d) else true).
  assert (F : f d = true) by (apply below256; [vm_compute; reflexivity | lia]).
  unfold f in F. destruct (d <? 16) eqn:E; [exact F|lia].
Qed.

Lemma lower_hex_fix c : is_lower_hex c = true -> to_lower_hex c = c /\ is_hex c = true.
Proof.
  intro H. unfold is_hex. rewrite H. split; [|reflexivity].
  unfold to_lower_hex, is_lower_hex in *.
  destruct ((65 <=? c) && (c <=? 70)) eqn:E; [lia|reflexivity].
Qed.

(** ** hex_digits *)
Lemma hex_digits_length k n : length (hex_digits k n) = k.
Proof.
  revert n; induction k as [|k IH]; intro n; cbn [hex_digits]; [reflexivity|].
  rewrite app_length, IH. cbn. lia.
Qed.

Lemma hex_digits_lower k n : forallb is_lower_hex (hex_digits k n) = true.
Proof.
  revert n; induction k as [|k IH]; intro n; cbn [hex_digits]; [reflexivity|].
  rewrite forallb_app, IH. cbn. rewrite hexchar_lower; [reflexivity|].
  apply N.mod_lt. lia.
Qed.

(** ** parse_hex *)
Lemma parse_hex_snoc l c acc :
  parse_hex acc (l ++ [c]) =
  match parse_hex acc l with Some a => parse_hex a [c] | None => None end.
Proof.
  revert acc; induction l as [|x l IH]; intro acc; cbn [app parse_hex].
  - destruct (digit_val c); reflexivity.
  - destruct (digit_val x) as [d|]; [|reflexivity].
    destruct (16 <=? d); [reflexivity|].
    destruct (2 ^ 60 <=? acc); [reflexivity|]. apply IH.
Qed.

Lemma pow16_S k : 16 ^ N.of_nat (S k) = 16 * 16 ^ N.of_nat k.
Proof. rewrite Nat2N.inj_succ, N.pow_succ_r'. reflexivity. Qed.

Lemma pow16_mono j k : (j <= k)%nat -> 16 ^ N.of_nat j <= 16 ^ N.of_nat k.
Proof. intro H. apply N.pow_le_mono_r; lia. Qed.

Lemma pow16_15 : 16 ^ N.of_nat 15 = 2 ^ 60.
Proof. reflexivity. Qed.

Lemma parse_hex_digits k n :
  (k <= 16)%nat -> parse_hex 0 (hex_digits k n) = Some (n mod 16 ^ N.of_nat k).
Proof.
  revert n; induction k as [|k IH]; intros n Hk.
  - cbn. rewrite N.mod_1_r. reflexivity.
  - cbn [hex_digits]. rewrite parse_hex_snoc, IH by lia.
    cbn [parse_hex]. rewrite digit_val_hexchar by (apply N.mod_lt; lia).
    assert (Hd : n mod 16 < 16) by (apply N.mod_lt; lia).
    destruct (16 <=? n mod 16) eqn:E1; [lia|].
    assert (Hp : 0 < 16 ^ N.of_nat k) by (apply N.neq_0_lt_0, N.pow_nonzero; lia).
    assert (Hlt : (n / 16) mod 16 ^ N.of_nat k < 16 ^ N.of_nat k) by (apply N.mod_lt; lia).
    assert (Hle : 16 ^ N.of_nat k <= 2 ^ 60)
      by (rewrite <- pow16_15; apply pow16_mono; lia).
    destruct (2 ^ 60 <=? (n / 16) mod 16 ^ N.of_nat k) eqn:E2; [lia|].
    f_equal. rewrite pow16_S.
    rewrite N.mod_mul_r by lia.
    generalize ((n / 16) mod 16 ^ N.of_nat k) (n mod 16). clear. intros x y. lia.
Qed.

Lemma encode_Some n s : encode n = Some s -> (n =? 0) = false /\ hex_digits 16 n = s.
Proof.
  unfold encode. destruct (n =? 0); intro H; [discriminate|].
  split; [reflexivity|]. congruence.
Qed.

(** ** Round trip *)
Lemma id_roundtrip n :
  0 < n -> n < 2 ^ 64 ->
  exists s, encode n = Some s /\ decode_pu s = Some n /\ length s = 16%nat
            /\ forallb is_lower_hex s = true.
Proof.
  intros H0 H64. exists (hex_digits 16 n). unfold encode, decode_pu.
  destruct (n =? 0) eqn:E; [lia|].
  rewrite hex_digits_length. cbn [Nat.eqb negb].
  rewrite parse_hex_digits by lia.
  replace (16 ^ N.of_nat 16) with (2 ^ 64) by reflexivity.
  rewrite N.mod_small by lia. rewrite E.
  repeat split; try reflexivity. apply hex_digits_lower.
Qed.

Lemma encode_zero : encode 0 = None.
Proof. reflexivity. Qed.

(** ** What Decode accepts *)
Lemma parse_hex_inv s : forall v,
  parse_hex 0 s = Some v -> (length s <= 16)%nat ->
  v < 16 ^ N.of_nat (length s) /\ hex_digits (length s) v = map to_lower_hex s
  /\ forallb is_hex s = true.
Proof.
  induction s as [|c l IH] using rev_ind; intros v H Hl.
  - cbn in H. inversion H; subst. cbn. repeat split; lia.
  - rewrite app_length in Hl; cbn in Hl.
    rewrite parse_hex_snoc in H.
    destruct (parse_hex 0 l) as [a|] eqn:Ea; [|discriminate].
    cbn [parse_hex] in H.
    destruct (digit_val c) as [d|] eqn:Ed; [|discriminate].
    destruct (16 <=? d) eqn:E1; [discriminate|].
    destruct (2 ^ 60 <=? a) eqn:E2; [discriminate|].
    inversion H; subst v; clear H.
    destruct (IH a eq_refl ltac:(lia)) as [Ha [Hd Hx]].
    assert (Hd16 : d < 16) by lia.
    destruct (digit_val_char c d Ed Hd16) as [Hc1 [Hc2 _]].
    rewrite app_length. cbn [length]. replace (length l + 1)%nat with (S (length l)) by lia.
    split; [rewrite pow16_S; lia|]. split.
    + cbn [hex_digits]. rewrite map_app. cbn [map].
      replace ((a * 16 + d) / 16) with a by lia.
      replace ((a * 16 + d) mod 16) with d by lia.
      rewrite Hd, Hc2. reflexivity.
    + rewrite forallb_app, Hx. cbn. rewrite Hc1. reflexivity.
Qed.

Lemma decode_sound s n :
  decode_pu s = Some n ->
  n <> 0 /\ n < 2 ^ 64 /\ length s = 16%nat /\ forallb is_hex s = true
  /\ encode n = Some (map to_lower_hex s).
Proof.
  unfold decode_pu. intro H.
  destruct (Nat.eqb (length s) 16) eqn:El; [|discriminate]. cbn [negb] in H.
  apply Nat.eqb_eq in El.
  destruct (parse_hex 0 s) as [v|] eqn:Ev; [|discriminate].
  destruct (v =? 0) eqn:E0; [discriminate|]. inversion H; subst v; clear H.
  destruct (parse_hex_inv s n Ev ltac:(lia)) as [Hn [Hd Hx]].
  rewrite El in Hn, Hd. change (16 ^ N.of_nat 16) with (2 ^ 64) in Hn.
  repeat split; try assumption; try lia.
  unfold encode. rewrite E0, Hd. reflexivity.
Qed.

Lemma parse_hex_lower s : forall acc,
  forallb is_hex s = true -> parse_hex acc (map to_lower_hex s) = parse_hex acc s.
Proof.
  induction s as [|c l IH]; intros acc H; [reflexivity|].
  cbn in H. apply andb_true_iff in H as [Hc Hl].
  cbn [map parse_hex].
  destruct (is_hex_digit_val c Hc) as [d [Ed Hd]].
  destruct (digit_val_char c d Ed Hd) as [_ [_ Hlow]].
  rewrite Ed, Hlow.
  destruct (16 <=? d); [reflexivity|]. destruct (2 ^ 60 <=? acc); [reflexivity|].
  apply IH, Hl.
Qed.

Lemma decode_complete s n :
  n < 2 ^ 64 -> length s = 16%nat -> forallb is_hex s = true ->
  encode n = Some (map to_lower_hex s) -> decode_pu s = Some n.
Proof.
  intros H64 Hl Hx He. apply encode_Some in He as [E0 Hd].
  unfold decode_pu. rewrite Hl. cbn [Nat.eqb negb].
  rewrite <- (parse_hex_lower s 0 Hx), <- Hd, parse_hex_digits by lia.
  change (16 ^ N.of_nat 16) with (2 ^ 64). rewrite N.mod_small by lia.
  rewrite E0. reflexivity.
Qed.

(** Exact characterisation of the accepted strings. *)
Lemma decode_iff s n :
  decode_pu s = Some n <->
  (n < 2 ^ 64 /\ length s = 16%nat /\ forallb is_hex s = true
   /\ encode n = Some (map to_lower_hex s)).
Proof.
  split.
  - intro H. apply decode_sound in H. tauto.
  - intros [H1 [H2 [H3 H4]]]. apply decode_complete; assumption.
Qed.

Lemma map_lower_fix s : forallb is_lower_hex s = true -> map to_lower_hex s = s.
Proof.
  induction s as [|c l IH]; intro H; [reflexivity|].
  cbn in H. apply andb_true_iff in H as [Hc Hl]. cbn [map].
  rewrite (proj1 (lower_hex_fix c Hc)), IH by exact Hl. reflexivity.
Qed.

Lemma lower_is_hex s : forallb is_lower_hex s = true -> forallb is_hex s = true.
Proof.
  induction s as [|c l IH]; intro H; [reflexivity|].
  cbn in H. apply andb_true_iff in H as [Hc Hl]. cbn.
  rewrite (proj2 (lower_hex_fix c Hc)), IH by exact Hl. reflexivity.
Qed.

(** On strings without upper-case letters, Decode accepts exactly the encodings. *)
Lemma decode_lowercase_exact s n :
  forallb (fun c => negb ((65 <=? c) && (c <=? 70))) s = true ->
  (decode_pu s = Some n <-> (n < 2 ^ 64 /\ encode n = Some s)).
Proof.
  intro Hnu.
  assert (Hfix : map to_lower_hex s = s).
  { clear n. induction s as [|c l IH]; [reflexivity|].
    cbn in Hnu. apply andb_true_iff in Hnu as [Hc Hl]. cbn [map].
    rewrite IH by exact Hl. unfold to_lower_hex.
    destruct ((65 <=? c) && (c <=? 70)); [discriminate|reflexivity]. }
  rewrite decode_iff, Hfix. split; [tauto|].
  intros [H1 H2]. repeat split; try assumption.
  - apply encode_Some in H2 as [_ H2]. rewrite <- H2. apply hex_digits_length.
  - apply encode_Some in H2 as [_ H2]. rewrite <- H2.
    apply lower_is_hex, hex_digits_lower.
Qed.

Lemma decode_rejects_length s : length s <> 16%nat -> decode_pu s = None.
Proof.
  intro H. unfold decode_pu. destruct (Nat.eqb (length s) 16) eqn:E; [|reflexivity].
  apply Nat.eqb_eq in E. contradiction.
Qed.

Lemma decode_rejects_nonhex s c : In c s -> is_hex c = false -> decode_pu s = None.
Proof.
  intros Hin Hc. destruct (decode_pu s) as [n|] eqn:E; [|reflexivity].
  apply decode_sound in E. destruct E as [_ [_ [_ [Hx _]]]].
  rewrite forallb_forall in Hx. rewrite (Hx c Hin) in Hc. discriminate.
Qed.

Lemma decode_rejects_zero : decode_pu (repeat 48 16) = None.
Proof. reflexivity. Qed.

(** The full statement "every string that is not the encoding of a valid ID is
    rejected" is false for the mirror: "000000000000000A" decodes to 10, whose
    encoding is "000000000000000a". *)
Lemma decode_uppercase_witness :
  exists s n, decode_pu s = Some n /\ encode n <> Some s.
Proof.
  exists [48;48;48;48;48;48;48;48;48;48;48;48;48;48;48;65], 10.
  split; [reflexivity|]. vm_compute. intro H. discriminate.
Qed.

(** ** The oracle [spec_decode] is "is the encoding of". *)
Lemma index_digit c d :
  index_of c hex_alphabet 0 = Some d <-> (is_lower_hex c = true /\ digit_val c = Some d).
Proof.
  destruct (N.ltb_spec c 256) as [Hc|Hc].
  - pose (f := fun c => match index_of c hex_alphabet 0 with
                        | Some d => is_lower_hex c && optN_eqb (digit_val c) (Some d)
                        | None => negb (is_lower_hex c) end).
    assert (F : f c = true) by (apply below256; [vm_compute; reflexivity | exact Hc]).
    unfold f in F. destruct (index_of c hex_alphabet 0) as [d'|].
    + apply andb_true_iff in F as [F1 F2]. unfold optN_eqb, option_eqb in F2.
      destruct (digit_val c) as [d''|]; [|discriminate]. apply N.eqb_eq in F2. subst d''.
      split; [intro H; inversion H; subst; auto | intros [_ H]; exact H].
    + split; [discriminate|]. intros [H _]. rewrite H in F. discriminate.
  - assert (Hn : is_lower_hex c = false) by (unfold is_lower_hex; lia).
    assert (Hi : index_of c hex_alphabet 0 = None).
    { unfold hex_alphabet. cbn [index_of].
      repeat match goal with |- context [?x =? c] => destruct (N.eqb_spec x c); [lia|] end.
      reflexivity. }
    rewrite Hi, Hn. split; [discriminate | intros [H _]; discriminate].
Qed.

Lemma spec_value_parse s : forall acc v,
  (length s <= 16)%nat -> acc < 16 ^ N.of_nat (16 - length s) ->
  (spec_value acc s = Some v <-> (forallb is_lower_hex s = true /\ parse_hex acc s = Some v)).
Proof.
  induction s as [|c l IH]; intros acc v Hl Hacc.
  - cbn. tauto.
  - cbn [length] in Hl, Hacc. cbn [spec_value parse_hex forallb].
    assert (Hcut : acc < 2 ^ 60).
    { rewrite <- pow16_15. eapply N.lt_le_trans; [exact Hacc|]. apply pow16_mono. lia. }
    destruct (index_of c hex_alphabet 0) as [d|] eqn:Ei.
    + apply index_digit in Ei as [Hlow Hd]. rewrite Hlow, Hd. cbn [andb].
      assert (d < 16).
      { destruct (N.ltb_spec d 16); [assumption|].
        exfalso. unfold is_lower_hex in Hlow. unfold digit_val, lower in Hd.
        destruct ((48 <=? c) && (c <=? 57)) eqn:E; [inversion Hd; lia|].
        assert (c = 97 \/ c = 98 \/ c = 99 \/ c = 100 \/ c = 101 \/ c = 102) as Hc by lia.
        destruct Hc as [->|[->|[->|[->|[->| ->]]]]]; vm_compute in Hd; inversion Hd; lia. }
      destruct (16 <=? d) eqn:E1; [lia|]. destruct (2 ^ 60 <=? acc) eqn:E2; [lia|].
      apply IH; [lia|].
      replace (16 - length l)%nat with (S (16 - S (length l))) by lia.
      rewrite pow16_S. lia.
    + split; [discriminate|]. intros [Hf Hp]. apply andb_true_iff in Hf as [Hlow _].
      destruct (digit_val c) as [d|] eqn:Ed; [|discriminate].
      assert (index_of c hex_alphabet 0 = Some d) by (apply index_digit; auto). congruence.
Qed.

Lemma spec_value16 s v :
  length s = 16%nat ->
  (spec_value 0 s = Some v <-> (forallb is_lower_hex s = true /\ parse_hex 0 s = Some v)).
Proof. intro El. apply spec_value_parse; [lia|]. rewrite El. cbn. lia. Qed.

Lemma spec_decode_iff s n :
  spec_decode s = Some n <-> (n < 2 ^ 64 /\ encode n = Some s).
Proof.
  unfold spec_decode. destruct (Nat.eqb (length s) 16) eqn:El.
  - apply Nat.eqb_eq in El.
    split.
    + intro H. destruct (spec_value 0 s) as [v|] eqn:Ev; [|discriminate].
      destruct (v =? 0) eqn:E0; [discriminate|]. inversion H; subst v; clear H.
      apply (spec_value16 s n El) in Ev as [Hlow Hp].
      assert (Hdec : decode_pu s = Some n).
      { unfold decode_pu. rewrite El. cbn [Nat.eqb negb]. rewrite Hp, E0. reflexivity. }
      apply decode_sound in Hdec as [_ [H64 [_ [_ He]]]].
      rewrite map_lower_fix in He by exact Hlow. auto.
    + intros [H64 He].
      assert (Hlow : forallb is_lower_hex s = true).
      { apply encode_Some in He as [_ He]. rewrite <- He. apply hex_digits_lower. }
      assert (Hdec : decode_pu s = Some n).
      { apply decode_complete; auto using lower_is_hex.
        rewrite map_lower_fix by exact Hlow. exact He. }
      unfold decode_pu in Hdec. rewrite El in Hdec. cbn [Nat.eqb negb] in Hdec.
      destruct (parse_hex 0 s) as [v|] eqn:Ep; [|discriminate].
      destruct (v =? 0) eqn:E0; [discriminate|]. inversion Hdec; subst v.
      assert (Ev : spec_value 0 s = Some n) by (apply (spec_value16 s n El); auto).
      rewrite Ev, E0. reflexivity.
  - split; [discriminate|]. intros [_ He]. apply Nat.eqb_neq in El.
    apply encode_Some in He as [_ Hs].
    rewrite <- Hs, hex_digits_length in El. contradiction.
Qed.

(** ** The repaired Decode (upper-case guard before ParseUint) *)
Lemma no_upper_iff s :
  existsb is_upper_hex s = false <->
  forallb (fun c => negb ((65 <=? c) && (c <=? 70))) s = true.
Proof.
  induction s as [|c l IH]; cbn; [tauto|]. unfold is_upper_hex at 1.
  rewrite orb_false_iff, andb_true_iff, negb_true_iff, IH. tauto.
Qed.

Lemma lower_hex_no_upper s : forallb is_lower_hex s = true -> existsb is_upper_hex s = false.
Proof.
  intro H. apply no_upper_iff. eapply forallb_forall. intros c Hc.
  rewrite forallb_forall in H. specialize (H c Hc). unfold is_lower_hex in H. lia.
Qed.

(** Decode accepts exactly the encodings of valid IDs. *)
Lemma decode_exact s n : decode s = Some n <-> (n < 2 ^ 64 /\ encode n = Some s).
Proof.
  unfold decode. destruct (existsb is_upper_hex s) eqn:E.
  - split; [discriminate|]. intros [_ He]. apply encode_Some in He as [_ He].
    rewrite <- He, lower_hex_no_upper in E by apply hex_digits_lower. discriminate.
  - apply decode_lowercase_exact, no_upper_iff, E.
Qed.

Lemma id_roundtrip_fixed n :
  0 < n -> n < 2 ^ 64 ->
  exists s, encode n = Some s /\ decode s = Some n /\ length s = 16%nat
            /\ forallb is_lower_hex s = true.
Proof.
  intros H0 H64. destruct (id_roundtrip n H0 H64) as [s [He [_ [Hl Hx]]]].
  exists s. repeat split; auto. apply decode_exact. auto.
Qed.

Lemma decode_sub s n : decode s = Some n -> decode_pu s = Some n.
Proof. unfold decode. destruct (existsb is_upper_hex s); [discriminate|auto]. Qed.

Lemma decode_none_of_pu s : decode_pu s = None -> decode s = None.
Proof. unfold decode. intros ->. destruct (existsb is_upper_hex s); reflexivity. Qed.

(** Distinct valid IDs have distinct encodings (Encode is injective on uint64). *)
Lemma encode_injective a b s :
  a < 2 ^ 64 -> b < 2 ^ 64 -> encode a = Some s -> encode b = Some s -> a = b.
Proof.
  intros Ha Hb Ea Eb.
  assert (Da : decode s = Some a) by (apply decode_exact; auto).
  assert (Db : decode s = Some b) by (apply decode_exact; auto).
  rewrite Da in Db. injection Db as ->. reflexivity.
Qed.

(** An ID has exactly one accepted spelling (Decode is injective on accepted strings). *)
Lemma decode_injective s1 s2 n :
  decode s1 = Some n -> decode s2 = Some n -> s1 = s2.
Proof.
  intros D1 D2. apply decode_exact in D1 as [_ E1]. apply decode_exact in D2 as [_ E2].
  rewrite E1 in E2. injection E2 as ->. reflexivity.
Qed.
