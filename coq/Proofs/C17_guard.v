(** C17 — the epoch tracker / delete guard model: invariants of every reachable state,
    "a write waits iff a registered older delete's guard matches it", "a delete waits iff an
    older write is in flight", and absence of deadlock. *)
From Verif Require Import Base.Prelude Model.C16 Model.C17.
Local Open Scope N_scope.

Definition older_writes (ws : list wstate) (g : N) : list wstate :=
  filter (fun w => w_gen w <? g) ws.

Record Inv (tr : tracker) : Prop := {
  inv_wgen : forall w, In w (t_ws tr) -> w_gen w <= t_epoch tr;
  inv_dgen : forall d, In d (t_deletes tr) -> d_gen d <= t_largest tr /\ t_largest tr <= t_epoch tr;
  inv_wnodup : NoDup (map w_gen (t_ws tr));
  inv_dnodup : NoDup (map d_gen (t_deletes tr));
  inv_wd : forall w d, In w (t_ws tr) -> In d (t_deletes tr) -> w_gen w <> d_gen d;
  inv_guard_older : forall w g, In w (t_ws tr) -> In g (w_guards w) -> fst (fst g) < w_gen w;
  inv_guard_has : forall w d, In w (t_ws tr) -> In d (t_deletes tr) -> d_gen d < w_gen w ->
                  In (d_gen d, d_lo d, d_hi d) (w_guards w);
  inv_guard_same : forall w g d, In w (t_ws tr) -> In g (w_guards w) -> In d (t_deletes tr) ->
                   d_gen d = fst (fst g) -> g = (d_gen d, d_lo d, d_hi d);
  inv_pending : forall d, In d (t_deletes tr) ->
                d_pending d = Z.of_nat (length (older_writes (t_ws tr) (d_gen d)));
  inv_writes : t_writes tr = Z.of_nat (length (t_ws tr))
}.

Lemma inv_init : Inv tr_init.
Proof. constructor; simpl; intros; try contradiction; try constructor; auto. Qed.

Lemma find_some_w gen ws w :
  find (fun w => w_gen w =? gen) ws = Some w -> In w ws /\ w_gen w = gen.
Proof. intros H. apply find_some in H as [H1 H2]. apply N.eqb_eq in H2. auto. Qed.

Lemma find_some_d gen ds d :
  find (fun d => d_gen d =? gen) ds = Some d -> In d ds /\ d_gen d = gen.
Proof. intros H. apply find_some in H as [H1 H2]. apply N.eqb_eq in H2. auto. Qed.

Lemma filter_remove_count (P : wstate -> bool) : forall ws w,
  NoDup (map w_gen ws) -> In w ws ->
  length (filter P ws) =
  (length (filter P (filter (fun w' => negb (N.eqb (w_gen w') (w_gen w))) ws)) + (if P w then 1 else 0))%nat.
Proof.
  induction ws as [|x r IH]; intros w Hnd Hin; [contradiction|].
  simpl in Hnd. apply NoDup_cons_iff in Hnd as [Hx Hnd].
  destruct Hin as [->|Hin].
  - simpl. rewrite N.eqb_refl. simpl.
    assert (E : filter (fun w' => negb (w_gen w' =? w_gen w)) r = r).
    { clear IH. induction r as [|y r IH]; [reflexivity|]. simpl.
      destruct (w_gen y =? w_gen w) eqn:Ey.
      - apply N.eqb_eq in Ey. exfalso. apply Hx. simpl. auto.
      - simpl. f_equal. apply IH.
        + intros H. apply Hx. simpl. auto.
        + simpl in Hnd. apply NoDup_cons_iff in Hnd. tauto. }
    rewrite E. destruct (P w); simpl; lia.
  - simpl. destruct (w_gen x =? w_gen w) eqn:Ex.
    + apply N.eqb_eq in Ex. exfalso. apply Hx. rewrite Ex. apply in_map. exact Hin.
    + simpl. destruct (P x); simpl; rewrite (IH w Hnd Hin); lia.
Qed.

Lemma NoDup_map_filter {A} (f : A -> N) (P : A -> bool) l : NoDup (map f l) -> NoDup (map f (filter P l)).
Proof.
  induction l as [|x r IH]; simpl; intros H; [constructor|].
  apply NoDup_cons_iff in H as [Hx Hr]. destruct (P x); simpl; auto.
  constructor; auto. intros Hin. apply Hx. apply in_map_iff in Hin as (y & E & Hy).
  apply filter_In in Hy as [Hy _]. apply in_map_iff. eauto.
Qed.

Lemma step_inv tr e tr' : Inv tr -> tr_step tr e = Some tr' -> Inv tr'.
Proof.
  intros I H. destruct e as [times | gen | lo hi | gen]; simpl in H.
  - (* StartWrite *)
    inversion H; subst; clear H. destruct I. constructor; simpl.
    + intros w [<-|Hw]; simpl; [lia|]. specialize (inv_wgen0 _ Hw). lia.
    + intros d Hd. specialize (inv_dgen0 _ Hd). lia.
    + constructor; auto. intros Hin. apply in_map_iff in Hin as (w & E & Hw).
      specialize (inv_wgen0 _ Hw). lia.
    + auto.
    + intros w d [<-|Hw] Hd; simpl; auto. specialize (inv_dgen0 _ Hd). lia.
    + intros w g [<-|Hw] Hg; simpl in *; eauto.
      apply in_map_iff in Hg as (d & <- & Hd). simpl. specialize (inv_dgen0 _ Hd). lia.
    + intros w d [<-|Hw] Hd Hlt; simpl in *; eauto.
      apply in_map_iff. exists d. auto.
    + intros w g d [<-|Hw] Hg Hd E; simpl in *; eauto.
      apply in_map_iff in Hg as (d' & <- & Hd'). simpl in E.
      assert (d = d').
      { clear - inv_dnodup0 Hd Hd' E. induction (t_deletes tr) as [|x r IH]; [contradiction|].
        simpl in inv_dnodup0. apply NoDup_cons_iff in inv_dnodup0 as [Hx Hr].
        destruct Hd as [->|Hd], Hd' as [->|Hd']; auto.
        - exfalso. apply Hx. rewrite E. apply in_map. auto.
        - exfalso. apply Hx. rewrite <- E. apply in_map. auto. }
      subst. reflexivity.
    + intros d Hd. rewrite (inv_pending0 _ Hd). unfold older_writes. simpl.
      specialize (inv_dgen0 _ Hd).
      destruct (t_epoch tr + 1 <? d_gen d) eqn:E; [apply N.ltb_lt in E; lia | reflexivity].
    + rewrite inv_writes0. lia.
  - (* EndWrite *)
    destruct (find (fun w => w_gen w =? gen) (t_ws tr)) as [w|] eqn:F; [|discriminate].
    apply find_some_w in F as [Hw Eg]. subst gen.
    destruct (w_blocked tr w); [discriminate|]. inversion H; subst; clear H.
    destruct I.
    set (ds' := if w_gen w <=? t_largest tr
                then map (fun d => if w_gen w <=? d_gen d then DS (d_gen d) (d_lo d) (d_hi d) (d_pending d - 1) else d) (t_deletes tr)
                else t_deletes tr).
    assert (Hds : forall d', In d' ds' -> exists d, In d (t_deletes tr) /\ d_gen d' = d_gen d /\
                  d_lo d' = d_lo d /\ d_hi d' = d_hi d /\
                  d_pending d' = (if N.ltb (w_gen w) (d_gen d) then d_pending d - 1 else d_pending d)%Z).
    { intros d' Hd'. unfold ds' in Hd'. destruct (w_gen w <=? t_largest tr) eqn:EL.
      - apply in_map_iff in Hd' as (d & <- & Hd). exists d. split; auto.
        destruct (w_gen w <=? d_gen d) eqn:E1.
        + simpl. repeat split; auto. apply N.leb_le in E1.
          assert (w_gen w <> d_gen d) by (apply inv_wd0; auto).
          destruct (w_gen w <? d_gen d) eqn:E2; auto. apply N.ltb_ge in E2. lia.
        + repeat split; auto. apply N.leb_gt in E1.
          destruct (w_gen w <? d_gen d) eqn:E2; auto. apply N.ltb_lt in E2. lia.
      - exists d'. repeat split; auto. apply N.leb_gt in EL.
        destruct (inv_dgen0 _ Hd') as [H1 _].
        destruct (w_gen w <? d_gen d') eqn:E2; auto. apply N.ltb_lt in E2. lia. }
    assert (Hgens : map d_gen ds' = map d_gen (t_deletes tr)).
    { unfold ds'. destruct (w_gen w <=? t_largest tr); auto.
      rewrite map_map. apply map_ext. intros d. destruct (w_gen w <=? d_gen d); reflexivity. }
    assert (Hback : forall d, In d (t_deletes tr) -> exists d', In d' ds' /\ d_gen d' = d_gen d /\ d_lo d' = d_lo d /\ d_hi d' = d_hi d).
    { intros d Hd. unfold ds'. destruct (w_gen w <=? t_largest tr).
      - eexists. split; [apply in_map; exact Hd|]. destruct (w_gen w <=? d_gen d); simpl; auto.
      - exists d; auto. }
    constructor; simpl; fold ds'.
    + intros w' Hw'. apply filter_In in Hw' as [Hw' _]. auto.
    + intros d' Hd'. destruct (Hds _ Hd') as (d & Hd & -> & _). auto.
    + apply NoDup_map_filter. auto.
    + rewrite Hgens. auto.
    + intros w' d' Hw' Hd'. apply filter_In in Hw' as [Hw' _].
      destruct (Hds _ Hd') as (d & Hd & -> & _). auto.
    + intros w' g Hw' Hg. apply filter_In in Hw' as [Hw' _]. eauto.
    + intros w' d' Hw' Hd' Hlt. apply filter_In in Hw' as [Hw' _].
      destruct (Hds _ Hd') as (d & Hd & E1 & E2 & E3 & _). rewrite E1, E2, E3. rewrite E1 in Hlt. eauto.
    + intros w' g d' Hw' Hg Hd' E. apply filter_In in Hw' as [Hw' _].
      destruct (Hds _ Hd') as (d & Hd & E1 & E2 & E3 & _). rewrite E1, E2, E3. rewrite E1 in E. eauto.
    + intros d' Hd'. destruct (Hds _ Hd') as (d & Hd & E1 & _ & _ & E4).
      rewrite E4, E1. rewrite (inv_pending0 _ Hd). unfold older_writes.
      rewrite (filter_remove_count (fun w0 => w_gen w0 <? d_gen d) (t_ws tr) w inv_wnodup0 Hw).
      destruct (w_gen w <? d_gen d); lia.
    + pose proof (filter_remove_count (fun _ => true) (t_ws tr) w inv_wnodup0 Hw) as C.
      assert (forall l : list wstate, filter (fun _ => true) l = l) as Ft.
      { induction l; simpl; congruence. }
      rewrite !Ft in C. rewrite inv_writes0. lia.
  - (* StartDelete *)
    inversion H; subst; clear H. destruct I. constructor; simpl.
    + intros w Hw. specialize (inv_wgen0 _ Hw). lia.
    + intros d [<-|Hd]; simpl; [lia|]. specialize (inv_dgen0 _ Hd). lia.
    + auto.
    + constructor; auto. intros Hin. apply in_map_iff in Hin as (d & E & Hd).
      specialize (inv_dgen0 _ Hd). lia.
    + intros w d Hw [<-|Hd]; simpl; auto. specialize (inv_wgen0 _ Hw). lia.
    + eauto.
    + intros w d Hw [<-|Hd] Hlt; simpl in *; eauto. specialize (inv_wgen0 _ Hw). lia.
    + intros w g d Hw Hg [<-|Hd] E; simpl in *; eauto.
      specialize (inv_guard_older0 _ _ Hw Hg). specialize (inv_wgen0 _ Hw). lia.
    + intros d [<-|Hd]; simpl.
      * rewrite inv_writes0. f_equal. unfold older_writes.
        assert (E : filter (fun w => w_gen w <? t_epoch tr + 1) (t_ws tr) = t_ws tr).
        { clear - inv_wgen0. induction (t_ws tr) as [|x r IH]; [reflexivity|]. simpl.
          assert (w_gen x <? t_epoch tr + 1 = true) as ->.
          { apply N.ltb_lt. specialize (inv_wgen0 x (or_introl eq_refl)). lia. }
          f_equal. apply IH. intros w Hw. apply inv_wgen0. simpl; auto. }
        rewrite E. reflexivity.
      * auto.
    + auto.
  - (* DoneDelete *)
    destruct (find (fun d => d_gen d =? gen) (t_deletes tr)) as [d|] eqn:F; [|discriminate].
    destruct (d_blocked d); [discriminate|]. inversion H; subst; clear H.
    destruct I. constructor; simpl; auto.
    + intros d' Hd'. apply filter_In in Hd' as [Hd' _]. auto.
    + apply NoDup_map_filter. auto.
    + intros w d' Hw Hd'. apply filter_In in Hd' as [Hd' _]. auto.
    + intros w d' Hw Hd'. apply filter_In in Hd' as [Hd' _]. auto.
    + intros w g d' Hw Hg Hd'. apply filter_In in Hd' as [Hd' _]. eauto.
    + intros d' Hd'. apply filter_In in Hd' as [Hd' _]. auto.
Qed.

Theorem reachable_inv : forall es tr tr', Inv tr -> tr_run tr es = Some tr' -> Inv tr'.
Proof.
  induction es as [|e r IH]; intros tr tr' I H; simpl in H.
  - inversion H; subst; auto.
  - destruct (tr_step tr e) as [tr1|] eqn:S; [|discriminate].
    eapply IH; [eapply step_inv; eauto | exact H].
Qed.

(** A write is blocked iff a registered OLDER delete's guard matches its points. *)
Theorem write_blocked_iff tr w : Inv tr -> In w (t_ws tr) ->
  (w_blocked tr w = true <->
   exists d, In d (t_deletes tr) /\ d_gen d < w_gen w /\
             guard_matches (d_lo d) (d_hi d) (w_times w) = true).
Proof.
  intros I Hw. unfold w_blocked. rewrite existsb_exists. split.
  - intros (g & Hg & Hb). apply andb_true_iff in Hb as [Hr Hm].
    unfold registered in Hr. apply existsb_exists in Hr as (d & Hd & E). apply N.eqb_eq in E.
    pose proof (inv_guard_same tr I w g d Hw Hg Hd E) as Eg.
    exists d. split; auto. split.
    + rewrite E. eapply inv_guard_older; eauto.
    + rewrite Eg in Hm. simpl in Hm. exact Hm.
  - intros (d & Hd & Hlt & Hm). exists (d_gen d, d_lo d, d_hi d). split.
    + eapply inv_guard_has; eauto.
    + simpl. rewrite Hm, andb_true_r. unfold registered. apply existsb_exists.
      exists d. split; auto. apply N.eqb_refl.
Qed.

(** A delete waits iff a write that started before it is still in flight. *)
Theorem delete_blocked_iff tr d : Inv tr -> In d (t_deletes tr) ->
  (d_blocked d = true <-> exists w, In w (t_ws tr) /\ w_gen w < d_gen d).
Proof.
  intros I Hd. unfold d_blocked. rewrite (inv_pending tr I d Hd). unfold older_writes. split.
  - intros H. apply Z.ltb_lt in H.
    destruct (filter (fun w => w_gen w <? d_gen d) (t_ws tr)) as [|w r] eqn:E; [simpl in H; lia|].
    assert (Hin : In w (filter (fun w => w_gen w <? d_gen d) (t_ws tr))) by (rewrite E; simpl; auto).
    apply filter_In in Hin as [H1 H2]. apply N.ltb_lt in H2. eauto.
  - intros (w & Hw & Hlt). apply Z.ltb_lt.
    assert (Hin : In w (filter (fun w => w_gen w <? d_gen d) (t_ws tr))).
    { apply filter_In. split; auto. apply N.ltb_lt. auto. }
    destruct (filter (fun w => w_gen w <? d_gen d) (t_ws tr)); [contradiction | simpl; lia].
Qed.

(** No deadlock: whenever some operation is in flight, one of them can complete. *)
Fixpoint min_gen (l : list N) (m : N) : N :=
  match l with [] => m | x :: r => min_gen r (N.min x m) end.

Lemma min_gen_le l : forall m, min_gen l m <= m /\ forall x, In x l -> min_gen l m <= x.
Proof.
  induction l as [|y r IH]; intros m; simpl.
  - split; [lia | intros x []].
  - destruct (IH (N.min y m)) as [H1 H2]. split; [lia|].
    intros x [<-|Hx]; [lia | auto].
Qed.

Lemma min_gen_in l : forall m, min_gen l m = m \/ In (min_gen l m) l.
Proof.
  induction l as [|y r IH]; intros m; simpl; auto.
  destruct (IH (N.min y m)) as [H|H]; auto.
  rewrite H. destruct (N.min_spec y m) as [[_ ->]|[_ ->]]; auto.
Qed.

Theorem no_deadlock tr : Inv tr -> (t_ws tr <> [] \/ t_deletes tr <> []) ->
  exists e tr', tr_step tr e = Some tr' /\
                (exists g, e = EEndWrite g \/ e = EDoneDelete g).
Proof.
  intros I Hne.
  set (gens := map w_gen (t_ws tr) ++ map d_gen (t_deletes tr)).
  assert (Hg : gens <> []).
  { unfold gens. destruct Hne as [H|H].
    - destruct (t_ws tr); [congruence | discriminate].
    - destruct (t_deletes tr); [congruence|]. destruct (map w_gen (t_ws tr)); discriminate. }
  destruct gens as [|g0 gr] eqn:EG; [congruence|].
  set (m := min_gen gr g0).
  assert (Hmin : forall x, In x gens -> m <= x).
  { intros x Hx. rewrite EG in Hx. destruct (min_gen_le gr g0) as [H1 H2].
    destruct Hx as [<-|Hx]; auto. }
  assert (Hin : In m gens).
  { rewrite EG. destruct (min_gen_in gr g0) as [H|H]; [left; symmetry; exact H | right; exact H]. }
  unfold gens in Hin. apply in_app_or in Hin as [Hin|Hin].
  - (* the oldest operation is a write: no registered delete is older *)
    apply in_map_iff in Hin as (w & Ew & Hw).
    assert (Hb : w_blocked tr w = false).
    { destruct (w_blocked tr w) eqn:B; auto.
      apply (write_blocked_iff tr w I Hw) in B as (d & Hd & Hlt & _).
      assert (m <= d_gen d). { apply Hmin. unfold gens. apply in_or_app. right. apply in_map. auto. }
      lia. }
    assert (F : exists w', find (fun w0 => w_gen w0 =? m) (t_ws tr) = Some w' /\ w' = w).
    { destruct (find (fun w0 => w_gen w0 =? m) (t_ws tr)) as [w'|] eqn:F.
      - exists w'. split; auto. apply find_some_w in F as [H1 H2].
        pose proof (inv_wnodup tr I) as ND. clear - ND H1 H2 Hw Ew.
        induction (t_ws tr) as [|x r IH]; [contradiction|]. simpl in ND.
        apply NoDup_cons_iff in ND as [Hx Hr].
        destruct H1 as [->|H1], Hw as [->|Hw]; auto.
        + exfalso. apply Hx. rewrite H2, <- Ew. apply in_map. auto.
        + exfalso. apply Hx. rewrite Ew, <- H2. apply in_map. auto.
      - exfalso. apply (find_none _ _ F) in Hw. rewrite Ew, N.eqb_refl in Hw. discriminate. }
    destruct F as (w' & F & ->).
    eexists (EEndWrite m), _. split; [|eauto]. simpl. rewrite F, Hb. reflexivity.
  - (* the oldest operation is a delete: no older write is in flight *)
    apply in_map_iff in Hin as (d & Ed & Hd).
    assert (F : exists d', find (fun d0 => d_gen d0 =? m) (t_deletes tr) = Some d' /\ In d' (t_deletes tr) /\ d_gen d' = m).
    { destruct (find (fun d0 => d_gen d0 =? m) (t_deletes tr)) as [d'|] eqn:F.
      - exists d'. split; auto. apply find_some_d in F. exact F.
      - exfalso. apply (find_none _ _ F) in Hd. rewrite Ed, N.eqb_refl in Hd. discriminate. }
    destruct F as (d' & F & Hd' & Ed').
    assert (Hb : d_blocked d' = false).
    { destruct (d_blocked d') eqn:B; auto.
      apply (delete_blocked_iff tr d' I Hd') in B as (w & Hw & Hlt).
      assert (m <= w_gen w). { apply Hmin. unfold gens. apply in_or_app. left. apply in_map. auto. }
      lia. }
    eexists (EDoneDelete m), _. split; [|eauto]. simpl. rewrite F, Hb. reflexivity.
Qed.
