(** C11 — proofs about the printer / parser mirror of Model/C11.v: escaping round trips,
    series-key round trip, decimal integers. *)
From Verif Require Import Base.Prelude Model.C11.
From Coq Require Import ZifyBool ZifyN DecimalN.
Local Open Scope N_scope.

Lemma list_len_ind {A} (P : list A -> Prop) :
  (forall l, (forall l', (length l' < length l)%nat -> P l') -> P l) -> forall l, P l.
Proof.
  intros H l. assert (G : forall n l, (length l < n)%nat -> P l).
  { induction n; intros l0 Hl; [lia|]. apply H. intros l' Hl'. apply IHn. lia. }
  apply (G (S (length l))). lia.
Qed.

(** * Escaping as one pass over a set of bytes *)
Definition esc_set (S : N -> bool) (l : bytes) : bytes :=
  flat_map (fun c => if S c then [BSL; c] else [c]) l.

Lemma flat_map_flat_map {A B C} (f : A -> list B) (g : B -> list C) l :
  flat_map g (flat_map f l) = flat_map (fun a => flat_map g (f a)) l.
Proof. induction l as [|a l IH]; cbn; [reflexivity|]. rewrite flat_map_app, IH. reflexivity. Qed.

Lemma escape_meas_set l : escape_meas l = esc_set is_meas_stop l.
Proof.
  unfold escape_meas, escape1, esc_set. rewrite flat_map_flat_map. apply flat_map_ext. intro c.
  unfold is_meas_stop. destruct (c =? COMMA) eqn:E1; cbn.
  - apply N.eqb_eq in E1; subst. reflexivity.
  - destruct (c =? SP); cbn; reflexivity.
Qed.

Lemma escape_tag_set l : escape_tag l = esc_set is_tag_stop l.
Proof.
  unfold escape_tag, escape1, esc_set. rewrite !flat_map_flat_map. apply flat_map_ext. intro c.
  unfold is_tag_stop. destruct (c =? COMMA) eqn:E1; cbn.
  - apply N.eqb_eq in E1; subst. reflexivity.
  - destruct (c =? SP) eqn:E2; cbn.
    + apply N.eqb_eq in E2; subst. reflexivity.
    + destruct (c =? EQ); cbn; reflexivity.
Qed.

Lemma escape_string_set l : escape_string l = esc_set is_esc_char l.
Proof. reflexivity. Qed.

Lemma esc_set_none S l : (forall c, S c = false) -> esc_set S l = l.
Proof. intro H. induction l as [|c t IH]; cbn; [reflexivity|]. rewrite H. cbn. f_equal. exact IH. Qed.

Lemma esc_set_ext S S' l : (forall c, S c = S' c) -> esc_set S l = esc_set S' l.
Proof. intro H. unfold esc_set. apply flat_map_ext. intro c. rewrite H. reflexivity. Qed.

Lemma esc_set_cons S c t : esc_set S (c :: t) = (if S c then [BSL; c] else [c]) ++ esc_set S t.
Proof. reflexivity. Qed.

Lemma bsl_safe_mono (S S' : N -> bool) l :
  (forall c, S' c = true -> S c = true) -> bsl_safe S l = true -> bsl_safe S' l = true.
Proof.
  intro H. induction l as [|c t IH]; cbn; [auto|]. intro G. apply andb_true_iff in G as [G1 G2].
  rewrite (IH G2), andb_true_r. destruct (c =? BSL); [|reflexivity].
  destruct t as [|a t']; [discriminate|]. destruct (S' a) eqn:E; [|reflexivity].
  rewrite (H _ E) in G1. discriminate.
Qed.

Lemma bsl_safe_tail S c t : bsl_safe S (c :: t) = true -> bsl_safe S t = true.
Proof. cbn. intro H. apply andb_true_iff in H as [_ H]. exact H. Qed.

(** bytes.Replace with a two-byte pattern, unfolded one step *)
Lemma replace2_cons a b r x l :
  replace2 a b r (x :: l) =
  match l with
  | y :: t => if (x =? a) && (y =? b) then r :: replace2 a b r t else x :: replace2 a b r l
  | [] => [x]
  end.
Proof. destruct l; reflexivity. Qed.

(** un-escaping one byte [k] of an escaped, backslash-safe string *)
Lemma replace2_esc (S : N -> bool) k : S k = true -> S BSL = false ->
  forall n, bsl_safe S n = true ->
  replace2 BSL k k (esc_set S n) = esc_set (fun c => S c && negb (c =? k)) n.
Proof.
  intros Sk Sb. assert (kb : (k =? BSL) = false).
  { destruct (k =? BSL) eqn:E; [|reflexivity]. apply N.eqb_eq in E. subst. congruence. }
  induction n as [|c t IH]; intro H; [reflexivity|].
  pose proof (bsl_safe_tail _ _ _ H) as Ht. specialize (IH Ht).
  rewrite !esc_set_cons. destruct (S c) eqn:Sc; cbn [app andb].
  - (* c is escaped: \ c ... *)
    rewrite replace2_cons. rewrite N.eqb_refl. cbn [andb].
    destruct (c =? k) eqn:Ck; cbn [negb app].
    + apply N.eqb_eq in Ck. subst c. f_equal. exact IH.
    + assert (cb : (c =? BSL) = false).
      { destruct (c =? BSL) eqn:E; [|reflexivity]. apply N.eqb_eq in E. subst. congruence. }
      f_equal. rewrite replace2_cons. destruct (esc_set S t) eqn:Et.
      * rewrite <- IH. reflexivity.
      * rewrite cb. cbn [andb]. f_equal. exact IH.
  - (* c is kept *)
    rewrite replace2_cons. destruct (esc_set S t) as [|y t'] eqn:Et.
    + rewrite <- IH. reflexivity.
    + destruct ((c =? BSL) && (y =? k)) eqn:M.
      * (* impossible: a kept backslash is followed by a non-stop byte *)
        exfalso. apply andb_true_iff in M as [M1 M2]. apply N.eqb_eq in M2. subst y.
        cbn in H. rewrite M1 in H. destruct t as [|a t2]; [discriminate|].
        apply andb_true_iff in H as [H _]. apply negb_true_iff in H.
        rewrite esc_set_cons, H in Et. cbn in Et. inversion Et; subst. congruence.
      * f_equal. exact IH.
Qed.

Lemma unescape_tag_escape n : bsl_safe is_tag_stop n = true -> unescape_tag (escape_tag n) = n.
Proof.
  intro H. unfold unescape_tag. rewrite escape_tag_set.
  rewrite (replace2_esc is_tag_stop COMMA eq_refl eq_refl n H).
  set (S1 := fun c => is_tag_stop c && negb (c =? COMMA)).
  assert (H1 : bsl_safe S1 n = true).
  { eapply bsl_safe_mono; [|exact H]. intros c Hc. apply andb_true_iff in Hc as [Hc _]. exact Hc. }
  rewrite (replace2_esc S1 SP eq_refl eq_refl n H1).
  set (S2 := fun c => S1 c && negb (c =? SP)).
  assert (H2 : bsl_safe S2 n = true).
  { eapply bsl_safe_mono; [|exact H1]. intros c Hc. apply andb_true_iff in Hc as [Hc _]. exact Hc. }
  rewrite (replace2_esc S2 EQ eq_refl eq_refl n H2).
  apply esc_set_none. intro c. unfold S2, S1, is_tag_stop.
  destruct (c =? COMMA), (c =? SP), (c =? EQ); reflexivity.
Qed.

Lemma unescape_meas_escape n : bsl_safe is_meas_stop n = true -> unescape_meas (escape_meas n) = n.
Proof.
  intro H. unfold unescape_meas. rewrite escape_meas_set.
  rewrite (replace2_esc is_meas_stop COMMA eq_refl eq_refl n H).
  set (S1 := fun c => is_meas_stop c && negb (c =? COMMA)).
  assert (H1 : bsl_safe S1 n = true).
  { eapply bsl_safe_mono; [|exact H]. intros c Hc. apply andb_true_iff in Hc as [Hc _]. exact Hc. }
  rewrite (replace2_esc S1 SP eq_refl eq_refl n H1).
  apply esc_set_none. intro c. unfold S1, is_meas_stop.
  destruct (c =? COMMA), (c =? SP); reflexivity.
Qed.

(** a backslash-safe string contains no [\k] pattern: unescaping it is the identity *)
Lemma replace2_safe (S : N -> bool) k : S k = true ->
  forall n, bsl_safe S n = true -> replace2 BSL k k n = n.
Proof.
  intros Sk. induction n as [|c t IH]; intro H; [reflexivity|].
  pose proof (bsl_safe_tail _ _ _ H) as Ht. rewrite replace2_cons. destruct t as [|y t']; [reflexivity|].
  destruct ((c =? BSL) && (y =? k)) eqn:M.
  - exfalso. apply andb_true_iff in M as [M1 M2]. apply N.eqb_eq in M2. subst y.
    cbn in H. rewrite M1, Sk in H. discriminate.
  - f_equal. exact (IH Ht).
Qed.

Lemma unescape_meas_safe n : bsl_safe is_meas_stop n = true -> unescape_meas n = n.
Proof.
  intro H. unfold unescape_meas.
  rewrite (replace2_safe is_meas_stop COMMA eq_refl n H). apply (replace2_safe is_meas_stop SP eq_refl n H).
Qed.

(** * Scanning an escaped token with the "previous byte is a backslash" logic *)
(** every byte of [w] that is in [S] is preceded by a backslash ([prev] precedes [w]) *)
Fixpoint pclean (S : N -> bool) (prev : N) (w : bytes) : bool :=
  match w with
  | [] => true
  | c :: t => (negb (S c) || (prev =? BSL)) && pclean S c t
  end.

Lemma pclean_mono (S S' : N -> bool) : (forall c, S' c = true -> S c = true) ->
  forall w prev, pclean S prev w = true -> pclean S' prev w = true.
Proof.
  intro H. induction w as [|c t IH]; intros prev G; cbn in *; [auto|].
  apply andb_true_iff in G as [G1 G2]. rewrite (IH _ G2), andb_true_r.
  destruct (prev =? BSL); [apply orb_true_r|]. rewrite orb_false_r in *.
  destruct (S' c) eqn:E; [|reflexivity]. rewrite (H _ E) in G1. discriminate.
Qed.

Lemma pclean_esc S : S BSL = false -> forall n prev, pclean S prev (esc_set S n) = true.
Proof.
  intro Sb. induction n as [|c t IH]; intro prev; [reflexivity|].
  rewrite esc_set_cons. destruct (S c) eqn:Sc; cbn [app pclean].
  - rewrite Sb, N.eqb_refl. cbn. rewrite orb_true_r. cbn. apply IH.
  - rewrite Sc. cbn. apply IH.
Qed.

Lemma last_indep {A} (l : list A) d d' : l <> [] -> last l d = last l d'.
Proof.
  induction l as [|x l IH]; [congruence|]. intros _. destruct l as [|y l']; [reflexivity|].
  change (last (x :: y :: l') d) with (last (y :: l') d). change (last (x :: y :: l') d') with (last (y :: l') d').
  apply IH. discriminate.
Qed.

Lemma last_cons {A} (c : A) t d : last (c :: t) d = last t c.
Proof. destruct t as [|x t']; [reflexivity|]. change (last (c :: x :: t') d) with (last (x :: t') d). apply last_indep. discriminate. Qed.

Lemma last_app_ne {A} (a b : list A) d : b <> [] -> last (a ++ b) d = last b d.
Proof.
  intro H. induction a as [|x a IH]; [reflexivity|]. cbn [app]. rewrite last_cons.
  rewrite <- IH. apply last_indep. destruct a; cbn; [exact H|discriminate].
Qed.

Lemma esc_set_nonempty S n : n <> [] -> esc_set S n <> [].
Proof. destruct n as [|c t]; [congruence|]. intros _. rewrite esc_set_cons. destruct (S c); discriminate. Qed.

Lemma last_esc S : S BSL = false -> forall n d, bsl_safe S n = true -> n <> [] ->
  (last (esc_set S n) d =? BSL) = false.
Proof.
  intro Sb. induction n as [|c t IH]; intros d H NE; [congruence|].
  rewrite esc_set_cons. destruct t as [|c' t'].
  - cbn [esc_set flat_map]. rewrite List.app_nil_r. destruct (S c) eqn:Sc.
    + cbn. destruct (c =? BSL) eqn:E; [|reflexivity]. apply N.eqb_eq in E. subst. congruence.
    + cbn. cbn in H. destruct (c =? BSL); [discriminate|reflexivity].
  - rewrite last_app_ne; [|apply esc_set_nonempty; discriminate].
    apply IH; [eapply bsl_safe_tail; eauto|discriminate].
Qed.

(** scanMeasurement *)
Lemma scan_meas_loop_tok : forall w prev rest,
  pclean is_meas_stop prev w = true -> (last w prev =? BSL) = false ->
  scan_meas_loop prev (w ++ COMMA :: rest) = MTag w rest /\
  scan_meas_loop prev (w ++ SP :: rest) = MFld w (SP :: rest) /\
  scan_meas_loop prev w = MNoFields.
Proof.
  induction w as [|c t IH]; intros prev rest P L.
  - cbn [last] in L. cbn. rewrite L. auto.
  - cbn [pclean] in P. apply andb_true_iff in P as [P1 P2]. rewrite last_cons in L.
    destruct (IH c rest P2 L) as [I1 [I2 I3]]. cbn [app scan_meas_loop].
    destruct (prev =? BSL); [rewrite I1, I2, I3; auto|].
    rewrite orb_false_r in P1. apply negb_true_iff in P1. unfold is_meas_stop in P1.
    apply orb_false_iff in P1 as [C1 C2]. rewrite C1, C2, I1, I2, I3. auto.
Qed.

Lemma esc_head_not_comma S n : S COMMA = true -> n <> [] ->
  exists c0 w', esc_set S n = c0 :: w' /\ (c0 =? COMMA) = false.
Proof.
  intros Sc NE. destruct n as [|c t]; [congruence|]. rewrite esc_set_cons.
  destruct (S c) eqn:E; cbn; eexists _, _; (split; [reflexivity|]); [reflexivity|].
  destruct (c =? COMMA) eqn:C; [|reflexivity]. apply N.eqb_eq in C. subst. congruence.
Qed.

Lemma scan_meas_tok n rest : key_name_ok n = true ->
  scan_meas (escape_meas n ++ COMMA :: rest) = MTag (escape_meas n) rest /\
  scan_meas (escape_meas n ++ SP :: rest) = MFld (escape_meas n) (SP :: rest) /\
  scan_meas (escape_meas n) = MNoFields.
Proof.
  unfold key_name_ok. intro H. apply andb_true_iff in H as [NE H].
  assert (NE' : n <> []) by (destruct n; [discriminate|discriminate]).
  rewrite escape_meas_set.
  destruct (esc_head_not_comma is_meas_stop n eq_refl NE') as [c0 [w' [E C0]]].
  pose proof (pclean_esc is_meas_stop eq_refl n 0) as P. rewrite E in P. cbn in P.
  apply andb_true_iff in P as [_ P].
  pose proof (last_esc is_meas_stop eq_refl n 0 H NE') as L. rewrite E, last_cons in L.
  destruct (scan_meas_loop_tok w' c0 rest P L) as [I1 [I2 I3]].
  rewrite E. cbn [app scan_meas]. rewrite C0, I1, I2, I3. auto.
Qed.

(** scanTo *)
Lemma scan_to_loop_tok stop : forall w prev rest,
  pclean (N.eqb stop) prev w = true -> (last w prev =? BSL) = false ->
  scan_to_loop stop false prev (w ++ stop :: rest) = (w, stop :: rest) /\
  scan_to_loop stop false prev w = (w, []).
Proof.
  induction w as [|c t IH]; intros prev rest P L.
  - cbn [last] in L. cbn. rewrite N.eqb_refl, L. auto.
  - cbn [pclean] in P. apply andb_true_iff in P as [P1 P2]. rewrite last_cons in L.
    destruct (IH c rest P2 L) as [I1 I2]. cbn [app scan_to_loop]. cbn [orb].
    assert (X : (c =? stop) && negb (prev =? BSL) = false).
    { destruct (prev =? BSL); [apply andb_false_r|]. rewrite orb_false_r in P1.
      apply negb_true_iff in P1. rewrite N.eqb_sym, P1. reflexivity. }
    rewrite X, I1, I2. auto.
Qed.

Lemma scan_to_first stop c0 w' : (c0 =? stop) = false ->
  scan_to stop (c0 :: w') = pcons c0 (scan_to_loop stop false c0 w').
Proof. intro H. unfold scan_to. cbn [scan_to_loop]. rewrite H. reflexivity. Qed.

(** walkTags over an escaped tag list *)
Lemma frev_rev l : frev l = rev l.
Proof. unfold frev. rewrite rev_append_rev. apply List.app_nil_r. Qed.

Lemma walk_tags_tk : forall wk prev rk l,
  pclean (N.eqb EQ) prev wk = true -> (last wk prev =? BSL) = false ->
  walk_tags_st (TK false prev rk) (wk ++ EQ :: l) = walk_tags_st (TV EQ (rev rk ++ wk) []) l.
Proof.
  induction wk as [|c t IH]; intros prev rk l P L.
  - cbn [last] in L. cbn [app walk_tags_st]. rewrite N.eqb_refl, L. cbn. rewrite frev_rev, List.app_nil_r. reflexivity.
  - cbn [pclean] in P. apply andb_true_iff in P as [P1 P2]. rewrite last_cons in L.
    cbn [app walk_tags_st]. cbn [orb].
    assert (X : (c =? EQ) && negb (prev =? BSL) = false).
    { destruct (prev =? BSL); [apply andb_false_r|]. rewrite orb_false_r in P1.
      apply negb_true_iff in P1. rewrite N.eqb_sym, P1. reflexivity. }
    rewrite X. rewrite (IH c (c :: rk) l P2 L). cbn [rev]. rewrite <- List.app_assoc. reflexivity.
Qed.

Lemma walk_tags_tv : forall wv prev k rv,
  pclean (N.eqb COMMA) prev wv = true -> (last wv prev =? BSL) = false ->
  rev rv ++ wv <> [] ->
  (forall l, walk_tags_st (TV prev k rv) (wv ++ COMMA :: l)
             = (unescape_tag k, unescape_tag (rev rv ++ wv)) :: walk_tags_st (TK false COMMA []) l) /\
  walk_tags_st (TV prev k rv) wv = [(unescape_tag k, unescape_tag (rev rv ++ wv))].
Proof.
  induction wv as [|c t IH]; intros prev k rv P L NE.
  - cbn [last] in L. rewrite List.app_nil_r in *. cbn [app walk_tags_st]. rewrite N.eqb_refl, L. cbn [andb negb].
    destruct rv as [|r0 rv']; [cbn in NE; congruence|]. rewrite frev_rev. split; [intro l|]; reflexivity.
  - cbn [pclean] in P. apply andb_true_iff in P as [P1 P2]. rewrite last_cons in L.
    assert (X : (c =? COMMA) && negb (prev =? BSL) = false).
    { destruct (prev =? BSL); [apply andb_false_r|]. rewrite orb_false_r in P1.
      apply negb_true_iff in P1. rewrite N.eqb_sym, P1. reflexivity. }
    assert (NE' : rev (c :: rv) ++ t <> []) by (cbn [rev]; rewrite <- List.app_assoc; cbn; destruct (rev rv); discriminate).
    destruct (IH c k (c :: rv) P2 L NE') as [I1 I2].
    assert (E : rev (c :: rv) ++ t = rev rv ++ c :: t) by (cbn [rev]; rewrite <- List.app_assoc; reflexivity).
    rewrite E in *. cbn [app walk_tags_st]. rewrite X. split; [intro l; apply I1|apply I2].
Qed.

Definition tag_text (kv : bytes * bytes) : bytes := COMMA :: escape_tag (fst kv) ++ EQ :: escape_tag (snd kv).

Lemma hash_key_text ts : key_tags_ok ts = true -> hash_key ts = flat_map tag_text ts.
Proof.
  unfold hash_key. induction ts as [|[k v] r IH]; [reflexivity|]. cbn [key_tags_ok forallb flat_map].
  intro H. apply andb_true_iff in H as [H1 H2]. rewrite (IH H2). f_equal.
  apply andb_true_iff in H1 as [H1 _]. apply andb_true_iff in H1 as [H1 _]. cbn [fst snd] in *.
  assert (NE : escape_tag v <> []).
  { rewrite escape_tag_set. apply esc_set_nonempty. destruct v; [discriminate|discriminate]. }
  unfold tag_text. cbn [fst snd]. destruct (escape_tag v); [congruence|reflexivity].
Qed.

Lemma walk_tags_st_tags ts : key_tags_ok ts = true ->
  match flat_map tag_text ts with
  | [] => ts = []
  | c :: l => c = COMMA /\ walk_tags_st (TK false COMMA []) l = ts
  end.
Proof.
  induction ts as [|[k v] r IH]; [reflexivity|]. intro H. cbn [key_tags_ok forallb] in H.
  apply andb_true_iff in H as [H1 H2]. specialize (IH H2).
  apply andb_true_iff in H1 as [H1 Sv]. apply andb_true_iff in H1 as [NEv Sk]. cbn [fst snd] in *.
  cbn [flat_map]. unfold tag_text at 1. cbn [fst snd app]. split; [reflexivity|].
  rewrite <- !List.app_assoc. cbn [app].
  rewrite escape_tag_set at 1.
  assert (Pk : pclean (N.eqb EQ) COMMA (esc_set is_tag_stop k) = true).
  { eapply pclean_mono; [|apply (pclean_esc is_tag_stop eq_refl)]. intros c Hc. apply N.eqb_eq in Hc. subst. reflexivity. }
  assert (Lk : (last (esc_set is_tag_stop k) COMMA =? BSL) = false).
  { destruct k as [|k0 k']; [reflexivity|]. apply last_esc; auto. discriminate. }
  rewrite (walk_tags_tk _ COMMA [] _ Pk Lk). cbn [rev app].
  rewrite <- escape_tag_set.
  assert (NEv' : v <> []) by (destruct v; [discriminate|discriminate]).
  assert (Pv : pclean (N.eqb COMMA) EQ (escape_tag v) = true).
  { rewrite escape_tag_set. eapply pclean_mono; [|apply (pclean_esc is_tag_stop eq_refl)].
    intros c Hc. apply N.eqb_eq in Hc. subst. reflexivity. }
  assert (Lv : (last (escape_tag v) EQ =? BSL) = false) by (rewrite escape_tag_set; apply last_esc; auto).
  assert (NEe : rev [] ++ escape_tag v <> []) by (cbn; rewrite escape_tag_set; apply esc_set_nonempty; auto).
  destruct (walk_tags_tv (escape_tag v) EQ (escape_tag k) [] Pv Lv NEe) as [I1 I2]. cbn [rev app] in I1, I2.
  destruct (flat_map tag_text r) as [|c l] eqn:E.
  - subst r. rewrite List.app_nil_r, I2. rewrite !unescape_tag_escape; auto.
  - destruct IH as [-> IH]. rewrite I1, IH. rewrite !unescape_tag_escape; auto.
Qed.

(** * Series key round trip *)
Lemma key_roundtrip n ts :
  key_name_ok n = true -> key_tags_ok ts = true -> parse_key (make_key n ts) = (n, ts).
Proof.
  intros Hn Ht. unfold make_key, parse_key.
  pose proof Hn as Hn'. unfold key_name_ok in Hn'. apply andb_true_iff in Hn' as [NE Sn].
  rewrite (unescape_meas_safe n Sn), (hash_key_text ts Ht).
  pose proof (walk_tags_st_tags ts Ht) as W.
  destruct (scan_meas_tok n [] Hn) as [_ [_ M0]].
  destruct (flat_map tag_text ts) as [|c l] eqn:E.
  - subst ts. rewrite List.app_nil_r, M0, unescape_meas_escape; auto.
  - destruct W as [-> W]. destruct (scan_meas_tok n l Hn) as [M1 _]. rewrite M1.
    rewrite unescape_meas_escape; auto. f_equal.
    (* walkTags: the name ends at the first unescaped comma *)
    unfold walk_tags.
    assert (NE' : n <> []) by (destruct n; [discriminate|discriminate]).
    rewrite escape_meas_set.
    destruct (esc_head_not_comma is_meas_stop n eq_refl NE') as [c0 [w' [Ee C0]]].
    rewrite Ee. cbn [app]. rewrite (scan_to_first COMMA c0 _ C0).
    pose proof (pclean_esc is_meas_stop eq_refl n 0) as P. rewrite Ee in P. cbn in P.
    apply andb_true_iff in P as [_ P].
    assert (P' : pclean (N.eqb COMMA) c0 w' = true).
    { eapply pclean_mono; [|exact P]. intros c Hc. apply N.eqb_eq in Hc. subst. reflexivity. }
    pose proof (last_esc is_meas_stop eq_refl n 0 Sn NE') as L. rewrite Ee, last_cons in L.
    destruct (scan_to_loop_tok COMMA w' c0 l P' L) as [I1 _]. rewrite I1. cbn. exact W.
Qed.
