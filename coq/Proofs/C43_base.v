(** C43 — basic facts about the kv-bucket mirrors of Model/C43.v (map semantics via [lookup], index sets, default bucket, [Index.Walk]). *)
From Verif Require Import Base.Prelude Model.C43.
Local Open Scope N_scope.

(** ---- association-list facts (map semantics through [lookup]) ---- *)
Lemma lookup_put {A} k k' (v : A) l :
  lookup k' (put k v l) = if k' =? k then Some v else lookup k' l.
Proof.
  induction l as [|[a b] l IH]; cbn.
  - destruct (k' =? k); reflexivity.
  - destruct (k =? a) eqn:E1.
    + apply N.eqb_eq in E1; subst. cbn. destruct (k' =? a); reflexivity.
    + destruct (k <? a) eqn:E2; cbn.
      * destruct (k' =? k); reflexivity.
      * rewrite IH. destruct (k' =? a) eqn:E3; [|reflexivity].
        destruct (k' =? k) eqn:E4; [|reflexivity].
        apply N.eqb_eq in E3, E4. subst. rewrite N.eqb_refl in E1. discriminate.
Qed.

Lemma lookup_remove {A} k k' (l : list (N * A)) :
  lookup k' (remove k l) = if k' =? k then None else lookup k' l.
Proof.
  induction l as [|[a b] l IH]; cbn.
  - destruct (k' =? k); reflexivity.
  - destruct (k =? a) eqn:E1.
    + apply N.eqb_eq in E1; subst. rewrite IH. destruct (k' =? a); reflexivity.
    + cbn. rewrite IH. destruct (k' =? a) eqn:E3; [|reflexivity].
      destruct (k' =? k) eqn:E4; [|reflexivity].
      apply N.eqb_eq in E3, E4. subst. rewrite N.eqb_refl in E1. discriminate.
Qed.

Lemma e3_eqb_eq a b : e3_eqb a b = true <-> a = b.
Proof.
  destruct a as [[a1 a2] a3], b as [[b1 b2] b3]; unfold e3_eqb; cbn.
  rewrite !andb_true_iff, !N.eqb_eq. split; [intros [[? ?] ?]; subst; reflexivity | intros H; inversion H; auto].
Qed.

Lemma in_ins_by {A} (key : A -> N) (eqb : A -> A -> bool) :
  (forall a b, eqb a b = true <-> a = b) ->
  forall x z l, In z (ins_by key eqb x l) <-> z = x \/ In z l.
Proof.
  intros He x z l; induction l as [|y l IH]; cbn.
  - intuition.
  - destruct (eqb x y) eqn:E.
    + apply He in E; subst. cbn. intuition.
    + destruct (key x <? key y); cbn; [intuition|]. rewrite IH. intuition.
Qed.

Lemma in_ins3 x z l : In z (ins3 x l) <-> z = x \/ In z l.
Proof. apply in_ins_by. apply e3_eqb_eq. Qed.

Lemma in_del3 x z l : In z (del3 x l) <-> In z l /\ z <> x.
Proof.
  unfold del3. rewrite filter_In. split; intros [H1 H2]; split; auto.
  - intro; subst. rewrite (proj2 (e3_eqb_eq x x) eq_refl) in H2. discriminate.
  - destruct (e3_eqb x z) eqn:E; [|reflexivity]. apply e3_eqb_eq in E. congruence.
Qed.

(** default bucket *)
Lemma dkey_true o d t : dkey o d t = true <-> fst (fst t) = o /\ snd (fst t) = d.
Proof. unfold dkey. rewrite andb_true_iff, !N.eqb_eq. tauto. Qed.

Lemma dget_dremove o d o' d' l :
  dget o' d' (dremove o d l) = if (o' =? o) && (d' =? d) then None else dget o' d' l.
Proof.
  unfold dremove. induction l as [|t l IH]; cbn [filter dget].
  - destruct ((o' =? o) && (d' =? d)); reflexivity.
  - destruct (dkey o d t) eqn:E1; cbn [negb dget].
    + rewrite IH. destruct ((o' =? o) && (d' =? d)) eqn:E2; [reflexivity|].
      destruct (dkey o' d' t) eqn:E3; [|reflexivity].
      apply dkey_true in E1 as [? ?], E3 as [? ?]. subst.
      rewrite !N.eqb_refl in E2. discriminate.
    + destruct (dkey o' d' t) eqn:E3.
      * destruct ((o' =? o) && (d' =? d)) eqn:E2; [|reflexivity].
        apply andb_true_iff in E2 as [Ea Eb]. apply N.eqb_eq in Ea, Eb. subst.
        congruence.
      * apply IH.
Qed.

Lemma dget_dput o d id o' d' l :
  dget o' d' (dput o d id l) = if (o' =? o) && (d' =? d) then Some id else dget o' d' l.
Proof.
  unfold dput. cbn [dget]. unfold dkey at 1. cbn [fst snd].
  rewrite (N.eqb_sym o o'), (N.eqb_sym d d').
  destruct ((o' =? o) && (d' =? d)) eqn:E; [reflexivity|].
  rewrite dget_dremove, E. reflexivity.
Qed.

(** walk *)
Lemma in_walk ids s id r : In (id, r) (walk ids s) <-> In id ids /\ lookup id s = Some r.
Proof.
  induction ids as [|a ids IH]; cbn; [tauto|].
  destruct (lookup a s) eqn:E; cbn; rewrite IH; split.
  - intros [H | H]; [inversion H; subst; auto | tauto].
  - intros [[H | H] H2]; [subst; left; congruence | tauto].
  - tauto.
  - intros [[H | H] H2]; [subst; congruence | tauto].
Qed.

Lemma in_od_ids o d id l : In id (od_ids o d l) <-> In (o, d, id) l.
Proof.
  unfold od_ids. rewrite in_map_iff. split.
  - intros [[[a b] c] [H1 H2]]. apply filter_In in H2 as [H2 H3]. apply dkey_true in H3 as [? ?].
    cbn in *. subst. exact H2.
  - intro H. exists (o, d, id). split; [reflexivity|]. apply filter_In. split; [exact H|].
    apply dkey_true; auto.
Qed.

Lemma in_walk_od st o d id r :
  In (id, r) (walk_od st o d) <-> In (o, d, id) (iod st) /\ lookup id (src st) = Some r.
Proof. unfold walk_od. rewrite in_walk, in_od_ids. tauto. Qed.
