(** C40 — proofs about the write path of a shard. *)
From Verif Require Import Base.Prelude Model.C10 Model.C40 Proofs.C10.

Lemma filter_map_comm {A B} (f : A -> B) (p : B -> bool) (l : list A) :
  filter p (map f l) = map f (filter (fun x => p (f x)) l).
Proof. induction l as [|x l IH]; cbn; [reflexivity|]. destruct (p (f x)); cbn; rewrite IH; reflexivity. Qed.

Lemma filter_filter {A} (p q : A -> bool) (l : list A) :
  filter q (filter p l) = filter (fun x => p x && q x) l.
Proof.
  induction l as [|x l IH]; cbn; [reflexivity|].
  destruct (p x); cbn; [destruct (q x); cbn; rewrite IH; reflexivity | exact IH].
Qed.

Lemma filter_len_split {A} (p : A -> bool) (l : list A) :
  length (filter p l) + length (filter (fun x => negb (p x)) l) = length l.
Proof. induction l as [|x l IH]; cbn; [reflexivity|]. destruct (p x); cbn; lia. Qed.

(** What the engine receives: exactly the oracle's accepted points, in batch order. *)
Lemma engine_gets_accepted vk s batch sch cr acc d2 st :
  validate_points s (map to_w (filter (key_ok vk) batch)) = (sch, cr, acc, d2, st) ->
  ext s sch /\ acc = map to_w (accepted vk sch batch) /\
  (N.of_nat (length batch - length (filter (key_ok vk) batch)) + d2)%N
    = N.of_nat (length batch - length (accepted vk sch batch)).
Proof.
  intro Ev. apply validate_points_spec in Ev as [He [Hd Ha]]. split; [exact He|].
  assert (Hacc : accepted vk sch batch = filter (fun p => point_fits sch (to_w p)) (filter (key_ok vk) batch)).
  { unfold accepted. rewrite filter_filter. reflexivity. }
  split.
  - rewrite Ha, filter_map_comm, Hacc. reflexivity.
  - rewrite Hd. unfold count_rejected. rewrite filter_map_comm, map_length, Hacc.
    set (l1 := filter (key_ok vk) batch).
    pose proof (filter_len_split (key_ok vk) batch) as H1. fold l1 in H1.
    pose proof (filter_len_split (fun p => point_fits sch (to_w p)) l1) as H2.
    rewrite <- Nat2N.inj_add. f_equal. lia.
Qed.

(** The reported Dropped (when the engine reports no conflict): batch size minus accepted. *)
Lemma dropped_count vk e batch e' err dr :
  write_points vk e batch = (e', err, dr) -> err <> 2%N ->
  dr = N.of_nat (length batch - length (accepted vk (e_schema e') batch)) /\
  (err = 1%N <-> (0 < dr)%N \/ (dr = 0%N /\ snd (validate_points (e_schema e) (map to_w (filter (key_ok vk) batch))) = true)).
Proof.
  unfold write_points.
  destruct (validate_points (e_schema e) (map to_w (filter (key_ok vk) batch))) as [[[[sch cr] acc] d2] st] eqn:Ev.
  destruct (engine_gets_accepted _ _ _ _ _ _ _ _ Ev) as [He [Ha Hn]].
  set (conf := existsb _ (entries acc)).
  destruct conf; intros H Herr; inversion H; subst; [congruence|]. cbn [e_schema snd].
  split; [exact Hn|].
  destruct (0 <? _)%N eqn:E0; cbn.
  - apply N.ltb_lt in E0. split; [intros _; left; exact E0 | reflexivity].
  - apply N.ltb_ge in E0. destruct st; split; try discriminate; try reflexivity.
    + intros _. right. split; [lia | reflexivity].
    + intros [Hp | [_ Hq]]; [lia | discriminate].
Qed.

(** * The stored content *)
Lemma dkey_eqb_eq a b : dkey_eqb a b = true <-> a = b.
Proof.
  destruct a as [[m1 s1] f1], b as [[m2 s2] f2]. cbn.
  rewrite !andb_true_iff, !name_eqb_eq, N.eqb_eq. split.
  - intros [[-> ->] ->]. reflexivity.
  - intro E; inversion E; auto.
Qed.

Definition key_typed (sch : schema) (k : dkey) (ty : N) : Prop :=
  let '(m, _, f) := k in ftype sch m f = Some ty.
Definition store_typed (sch : schema) (st : vstore) : Prop :=
  forall k ty vs, slookup k st = Some (ty, vs) -> key_typed sch k ty.
Definition ents_typed (sch : schema) (ents : list (dkey * N * Z * Z)) : Prop :=
  forall k ty t v, In (k, ty, t, v) ents -> key_typed sch k ty.

Lemma key_typed_ext s s' k ty : ext s s' -> key_typed s k ty -> key_typed s' k ty.
Proof. destruct k as [[m x] f]. cbn. intros He H. apply He; exact H. Qed.

Lemma store_typed_ext s s' st : ext s s' -> store_typed s st -> store_typed s' st.
Proof. intros He H k ty vs Hk. eapply key_typed_ext; [exact He | eapply H; exact Hk]. Qed.

Lemma key_typed_fun sch k t1 t2 : key_typed sch k t1 -> key_typed sch k t2 -> t1 = t2.
Proof. destruct k as [[m x] f]. cbn. congruence. Qed.

Lemma no_conflict sch st ents k :
  store_typed sch st -> ents_typed sch ents -> conflict st ents k = false.
Proof.
  intros Hs He. unfold conflict.
  assert (Hall : forall t, In t (types_of st ents k) -> key_typed sch k t).
  { intros t Hin. unfold types_of in Hin. apply in_app_or in Hin as [Hin | Hin].
    - destruct (slookup k st) as [[ty vs]|] eqn:E; [|contradiction].
      destruct Hin as [<-|[]]. eapply Hs; exact E.
    - apply in_flat_map in Hin as [[[[k' ty] tt] v] [Hin1 Hin2]].
      destruct (dkey_eqb k k') eqn:E; [|contradiction]. destruct Hin2 as [<-|[]].
      apply dkey_eqb_eq in E; subst k'. eapply He; exact Hin1. }
  destruct (types_of st ents k) as [|t r]; [reflexivity|].
  assert (Hf : forallb (N.eqb t) r = true).
  { apply forallb_forall. intros t' Hin. apply N.eqb_eq.
    eapply key_typed_fun; apply Hall; [left; reflexivity | right; exact Hin]. }
  rewrite Hf. reflexivity.
Qed.

Lemma put_all_skip_ext ents : forall st f g, (forall k, f k = g k) -> put_all st ents f = put_all st ents g.
Proof.
  unfold put_all. induction ents as [|[[[k ty] t] v] ents IH]; intros st f g H; cbn; [reflexivity|].
  rewrite (H k). apply IH; exact H.
Qed.

Lemma slookup_sput k ty t v st k0 :
  slookup k0 (sput k ty t v st) =
  if dkey_eqb k k0 then match slookup k st with
                        | Some (ty', vs) => Some (ty', vset t v vs)
                        | None => Some (ty, [(t, v)])
                        end
  else slookup k0 st.
Proof.
  induction st as [|[[k' ty'] vs] st IH]; cbn.
  - destruct (dkey_eqb k k0); reflexivity.
  - destruct (dkey_eqb k' k) eqn:E1; cbn.
    + apply dkey_eqb_eq in E1; subst k'. destruct (dkey_eqb k k0); reflexivity.
    + destruct (dkey_eqb k' k0) eqn:E2.
      * destruct (dkey_eqb k k0) eqn:E3; [|reflexivity].
        apply dkey_eqb_eq in E2, E3. subst. rewrite (proj2 (dkey_eqb_eq k0 k0) eq_refl) in E1. discriminate.
      * exact IH.
Qed.

Lemma sput_typed sch st k ty t v :
  store_typed sch st -> key_typed sch k ty -> store_typed sch (sput k ty t v st).
Proof.
  intros Hs Hk k0 ty0 vs0 H. rewrite slookup_sput in H.
  destruct (dkey_eqb k k0) eqn:E.
  - apply dkey_eqb_eq in E; subst k0.
    destruct (slookup k st) as [[ty' vs]|] eqn:El; inversion H; subst.
    + eapply Hs; exact El.
    + exact Hk.
  - eapply Hs; exact H.
Qed.

Lemma put_all_typed sch ents : forall st,
  store_typed sch st -> ents_typed sch ents -> store_typed sch (put_all st ents (fun _ => false)).
Proof.
  unfold put_all. induction ents as [|[[[k ty] t] v] ents IH]; intros st Hs He; cbn; [exact Hs|].
  apply IH.
  - apply sput_typed; [exact Hs|]. eapply He. left; reflexivity.
  - intros k' ty' t' v' Hin. eapply He. right; exact Hin.
Qed.

Lemma entries_spec l : entries (map to_w l) = spec_entries l.
Proof.
  induction l as [|p l IH]; [reflexivity|].
  unfold entries, spec_entries in *. cbn [map flat_map]. rewrite IH. reflexivity.
Qed.

Lemma accepted_sub vk sch batch p : In p (accepted vk sch batch) -> In p batch /\ point_fits sch (to_w p) = true.
Proof.
  unfold accepted. intro H. apply filter_In in H as [H1 H2]. apply andb_true_iff in H2 as [_ H2]. auto.
Qed.

Lemma accepted_typed vk sch batch : ents_typed sch (spec_entries (accepted vk sch batch)).
Proof.
  intros k ty t v Hin. unfold spec_entries in Hin.
  apply in_flat_map in Hin as [p [Hp Hin]]. apply in_flat_map in Hin as [f [Hf Hin]].
  destruct (accepted_sub _ _ _ _ Hp) as [Hb Hfit].
  destruct (name_eqb (f_key f) TIME) eqn:Et; [contradiction|].
  destruct Hin as [E|[]]. inversion E; subst. cbn.
  unfold point_fits in Hfit. apply andb_true_iff in Hfit as [_ Hfit]. rewrite forallb_forall in Hfit.
  specialize (Hfit f Hf). unfold field_fits in Hfit. cbn [to_w w_meas] in Hfit.
  apply andb_true_iff in Hfit as [_ Hfit]. rewrite Et in Hfit. cbn in Hfit.
  destruct (ftype sch (b_meas p) (f_key f)) as [t0|]; [|discriminate]. cbn in Hfit.
  apply N.eqb_eq in Hfit; subst. reflexivity.
Qed.

(** On a store whose cached types agree with the schema, for EVERY batch: no engine conflict;
    cache and WAL become the previous content plus the non-time fields of exactly the accepted
    points; the agreement is preserved (so the statement chains). *)
Lemma accepted_stored vk e batch e' err dr :
  write_points vk e batch = (e', err, dr) ->
  store_typed (e_schema e) (e_cache e) ->
  let accB := accepted vk (e_schema e') batch in
  err <> 2%N /\
  e_cache e' = spec_store (e_cache e) accB /\ e_wal e' = spec_store (e_wal e) accB /\
  store_typed (e_schema e') (e_cache e').
Proof.
  unfold write_points.
  destruct (validate_points (e_schema e) (map to_w (filter (key_ok vk) batch))) as [[[[sch cr] acc] d2] st] eqn:Ev.
  destruct (engine_gets_accepted _ _ _ _ _ _ _ _ Ev) as [He [Ha Hn]].
  intros H Hty.
  assert (Hents : entries acc = spec_entries (accepted vk sch batch)) by (rewrite Ha; apply entries_spec).
  assert (Hty' : store_typed sch (e_cache e)) by (eapply store_typed_ext; eassumption).
  assert (Het : ents_typed sch (entries acc)) by (rewrite Hents; apply accepted_typed).
  assert (Hnc : forall k, conflict (e_cache e) (entries acc) k = false) by (intro k; eapply no_conflict; eassumption).
  assert (Hconf : existsb (fun '(k, _, _, _) => conflict (e_cache e) (entries acc) k) (entries acc) = false).
  { destruct (existsb _ (entries acc)) eqn:E; [|reflexivity].
    apply existsb_exists in E as [[[[k ty] t] v] [_ E]]. rewrite Hnc in E. discriminate. }
  rewrite Hconf in H. injection H as E1 E2 E3. subst e' err dr. cbn [e_schema e_cache e_wal].
  split; [destruct (_ || _); discriminate|].
  rewrite (put_all_skip_ext (entries acc) (e_cache e) _ (fun _ => false) Hnc), Hents.
  split; [reflexivity|]. split; [reflexivity|].
  apply put_all_typed; [exact Hty'|]. rewrite <- Hents. exact Het.
Qed.

(** * Histories: every state reachable from the empty shard has a typed cache. *)
Fixpoint run_batches (vk : bool) (e : estate) (bs : list (list bpoint)) : estate :=
  match bs with [] => e | b :: r => run_batches vk (fst (fst (write_points vk e b))) r end.

Lemma reachable_typed vk bs : forall e,
  store_typed (e_schema e) (e_cache e) ->
  store_typed (e_schema (run_batches vk e bs)) (e_cache (run_batches vk e bs)).
Proof.
  induction bs as [|b bs IH]; intros e H; cbn; [exact H|]. apply IH.
  destruct (write_points vk e b) as [[e' err] dr] eqn:E. cbn.
  exact (proj2 (proj2 (proj2 (accepted_stored _ _ _ _ _ _ E H)))).
Qed.

Lemma accepted_stored_history vk bs batch e' err dr :
  write_points vk (run_batches vk estate0 bs) batch = (e', err, dr) ->
  let e := run_batches vk estate0 bs in
  let accB := accepted vk (e_schema e') batch in
  err <> 2%N /\ e_cache e' = spec_store (e_cache e) accB /\ e_wal e' = spec_store (e_wal e) accB.
Proof.
  intros H e accB.
  assert (Ht : store_typed (e_schema e) (e_cache e)).
  { apply reachable_typed. intros k ty vs Hk. discriminate. }
  destruct (accepted_stored _ _ _ _ _ _ H Ht) as [H1 [H2 [H3 _]]]. auto.
Qed.
