(** C17 — Bucket deletes remove exactly the matching data and reconcile metadata.

    Mirror of
      - /repo/tsdb/store.go [Store.DeleteSeriesWithPredicate] (per shard: optional measurement
        shortcut taken from the measurement expression when it is an EQUALITY (repair of finding
        measurement-neq-shortcut; [mname] is what the store extracts), walk over the shard's measurements in
        name order, per measurement the series selected by the C16 predicate matcher, then
        [Shard.DeleteSeriesRange]), [Store.WriteToShard];
      - /repo/tsdb/engine/tsm1/engine.go [deleteSeriesRange]: early exit when no TSM file
        overlaps the time range and the cache is empty; per overlapping file a tombstone for
        every index key of a selected series ([indirectIndex.DeleteRange]: full-range shortcut,
        per-key time-range skip, fully-covered shortcut, tombstone coalescing window that drops
        the key from the file index); [Cache.DeleteRange] (emptied keys leave the cache); the
        index reconciliation (a selected series stays listed iff one of its keys is still in a
        file index or in the cache);
      - /repo/tsdb/epoch_tracker.go + guard.go (second half of this file).

    A shard is a cache (a log, last write wins), a list of immutable files (oldest first; per
    key its points, an "in the file index" flag and the coalesced tombstone ranges) and the
    list of series the shard's index lists.  Keys are numbers: key = 2*series + field.

    Abstractions: TSM blocks (one block per key here; how a key's blocks are merged across
    files is C06's business), the WAL, the byte order of keys inside a file (Seek/KeyAt walks
    are membership tests), the series file (a series dropped from the last shard's index also
    leaves the series file), level compactions (the driver keeps them from running).
    No proofs in this file. *)
From Verif Require Import Base.Prelude Model.C16.
Local Open Scope Z_scope.

Definition key := N.
Definition series_of (k : key) : N := (k / 2)%N.
Definition MinInt64 : Z := - 2 ^ 63.
Definition MaxInt64 : Z := 2 ^ 63 - 1.

(** * cache: a log, oldest first, the LAST entry for (k,t) wins *)
Definition log := list (key * Z * Z).
Fixpoint log_get (l : log) (k : key) (t : Z) : option Z :=
  match l with
  | [] => None
  | (k', t', v) :: r =>
      match log_get r k t with
      | Some x => Some x
      | None => if (N.eqb k k' && Z.eqb t t')%bool then Some v else None
      end
  end.

Definition trange := (Z * Z)%type.
Definition in_range (lo hi t : Z) : bool := (lo <=? t) && (t <=? hi).
Definition tombed (ts : list trange) (t : Z) : bool := existsb (fun r => in_range (fst r) (snd r) t) ts.

(** * files *)
Record kfile := KF { kf_key : key; kf_pts : list (Z * Z); kf_alive : bool; kf_tombs : list trange }.
Record file := F { f_keys : list kfile; f_min : Z; f_max : Z }.
Record shard := SH { sh_cache : log; sh_files : list file; sh_listed : list N }.

Fixpoint assoc (t : Z) (l : list (Z * Z)) : option Z :=
  match l with [] => None | (t', v) :: r => if t =? t' then Some v else assoc t r end.

Definition kf_get (kf : kfile) (t : Z) : option Z :=
  if kf_alive kf && negb (tombed (kf_tombs kf) t) then assoc t (kf_pts kf) else None.
Definition find_kf (f : file) (k : key) : option kfile := find (fun kf => N.eqb (kf_key kf) k) (f_keys f).
Definition file_get (f : file) (k : key) (t : Z) : option Z :=
  match find_kf f k with Some kf => kf_get kf t | None => None end.
(** the newest file with a live point wins *)
Fixpoint files_get (fs : list file) (k : key) (t : Z) : option Z :=
  match fs with
  | [] => None
  | f :: r => match files_get r k t with Some v => Some v | None => file_get f k t end
  end.
Definition get (sh : shard) (k : key) (t : Z) : option Z :=
  match log_get (sh_cache sh) k t with
  | Some v => Some v
  | None => files_get (sh_files sh) k t
  end.

(** ** indirectIndex.DeleteRange for one key of one file *)
Definition kf_min (kf : kfile) : Z := fold_left (fun m p => Z.min m (fst p)) (kf_pts kf) MaxInt64.
Definition kf_max (kf : kfile) : Z := fold_left (fun m p => Z.max m (fst p)) (kf_pts kf) MinInt64.

(** sort.Slice with less = (Min, then Max <=) *)
Definition tr_le (a b : trange) : bool :=
  if fst a =? fst b then snd a <=? snd b else fst a <? fst b.
Fixpoint ins_tr (a : trange) (l : list trange) : list trange :=
  match l with [] => [a] | x :: r => if tr_le a x then a :: l else x :: ins_tr a r end.

Definition dec64 (z : Z) : Z := if z =? MinInt64 then MaxInt64 else z - 1.
Definition tr_overlaps (a : trange) (lo hi : Z) : bool := (fst a <=? hi) && (lo <=? snd a).
(** the coalescing window loop: every CONSECUTIVE pair must be adjacent or overlapping *)
Fixpoint coalesce (prev : trange) (mn mx : Z) (l : list trange) : Z * Z :=
  match l with
  | [] => (mn, mx)
  | ts :: r =>
      if negb (snd prev =? dec64 (fst ts)) && negb (tr_overlaps prev (fst ts) (snd ts))
      then (MaxInt64, MinInt64)
      else coalesce ts (Z.min mn (fst ts)) (Z.max mx (snd ts)) r
  end.
Definition coalesce_all (l : list trange) : Z * Z :=
  match l with [] => (MaxInt64, MinInt64) | r0 :: r => coalesce r0 (fst r0) (snd r0) r end.

Definition kf_dead (kf : kfile) (ts : list trange) : kfile := KF (kf_key kf) (kf_pts kf) false ts.

Definition kf_delete (lo hi : Z) (kf : kfile) : kfile :=
  if negb (kf_alive kf) then kf                                   (* not in the index any more *)
  else if (lo =? MinInt64) && (hi =? MaxInt64) then kf_dead kf (kf_tombs kf)   (* d.Delete(keys) *)
  else
    let mn := kf_min kf in let mx := kf_max kf in
    if (mx <? lo) || (hi <? mn) then kf                           (* outside this key's range *)
    else if (lo <=? mn) && (mx <=? hi) then kf_dead kf (kf_tombs kf)           (* covers the key *)
    else
      let ts := ins_tr (lo, hi) (kf_tombs kf) in
      let '(a, b) := coalesce_all ts in
      if (a <=? mn) && (mx <=? b) then kf_dead kf ts
      else KF (kf_key kf) (kf_pts kf) true ts.

(** ** Engine.deleteSeriesRange on a batch of series *)
Definition in_sel (sel : list N) (k : key) : bool := existsb (N.eqb (series_of k)) sel.
Definition file_overlaps (f : file) (lo hi : Z) : bool := (f_min f <=? hi) && (lo <=? f_max f).

Definition file_delete (sel : list N) (lo hi : Z) (f : file) : file :=
  if file_overlaps f lo hi then
    F (map (fun kf => if in_sel sel (kf_key kf) then kf_delete lo hi kf else kf) (f_keys f)) (f_min f) (f_max f)
  else f.

Definition cache_delete (sel : list N) (lo hi : Z) (c : log) : log :=
  filter (fun e => negb (in_sel sel (fst (fst e)) && in_range lo hi (snd (fst e)))) c.

Definition on_disk (fs : list file) (s : N) : bool :=
  existsb (fun f => existsb (fun kf => kf_alive kf && N.eqb (series_of (kf_key kf)) s) (f_keys f)) fs.
Definition in_cache (c : log) (s : N) : bool :=
  existsb (fun e => N.eqb (series_of (fst (fst e))) s) c.
Definition memN (x : N) (l : list N) : bool := existsb (N.eqb x) l.

(** series key / composite key bytes (models.MakeKey; fields are "f0", "f1") *)
Definition sdef := (bytes * tagset)%type.
Definition sname (defs : list sdef) (s : N) : bytes := fst (nth (N.to_nat s) defs ([], [])).
Definition stags (defs : list sdef) (s : N) : tagset := snd (nth (N.to_nat s) defs ([], [])).
Definition skey_bytes (defs : list sdef) (s : N) : bytes := make_key (sname defs s) (stags defs s).
Definition ckey_bytes (defs : list sdef) (k : key) : bytes :=
  skey_bytes defs (series_of k) ++ SEP ++ [102; if (k mod 2 =? 0)%N then 48 else 49]%N.

(** the [hasCacheValues] loop of the reconciliation: it walks the cache keys of the batch
    (as they were before the delete) that have the series key as a byte prefix and keeps the
    series listed when a key OF THAT SERIES (series part of the composite key equal to the
    series key; repair of finding series-key-prefix-of-another-kept-listed: it used to accept
    any key that merely extends the series key) still has values. *)
Definition has_cache_values (defs : list sdef) (sel : list N) (old c : log) (s : N) : bool :=
  existsb (fun e => let k := fst (fst e) in
                    in_sel sel k && bytes_eqb (skey_bytes defs s) (cut_sep (ckey_bytes defs k)) &&
                    existsb (fun e' => N.eqb (fst (fst e')) k) c) old.

Definition eng_delete (defs : list sdef) (sh : shard) (sel : list N) (lo hi : Z) : shard :=
  match sel with
  | [] => sh
  | _ =>
      if negb (existsb (fun f => file_overlaps f lo hi) (sh_files sh)) &&
         (match sh_cache sh with [] => true | _ => false end)
      then sh
      else
        let fs := map (file_delete sel lo hi) (sh_files sh) in
        let c := cache_delete sel lo hi (sh_cache sh) in
        SH c fs (filter (fun s => negb (memN s sel && negb (on_disk fs s) && negb (in_cache c s)
                                        && negb (has_cache_values defs sel (sh_cache sh) c s)))
                        (sh_listed sh))
  end.

(** ** Store level *)
Definition no_regex : N -> bytes -> bool := fun _ _ => false.

Fixpoint ins_bytes (x : bytes) (l : list bytes) : list bytes :=
  match l with
  | [] => [x]
  | y :: r => match bcompare x y with Lt => x :: l | Eq => l | Gt => y :: ins_bytes x r end
  end.
Definition sort_names (l : list bytes) : list bytes := fold_right ins_bytes [] l.
Definition meas_of (defs : list sdef) (listed : list N) : list bytes :=
  sort_names (map (sname defs) listed).

Definition selected (defs : list sdef) (p : pred) (sh : shard) (mm : bytes) : list N :=
  filter (fun s => bytes_eqb (sname defs s) mm &&
                   matches no_regex p (engine_key (sname defs s) (stags defs s))) (sh_listed sh).

Fixpoint del_loop (defs : list sdef) (p : pred) (lo hi : Z) (mname : option bytes)
         (ms : list bytes) (sh : shard) : shard :=
  match ms with
  | [] => sh
  | mm :: r =>
      let sh' := eng_delete defs sh (selected defs p sh mm) lo hi in
      if match mname with Some n => bytes_eqb mm n | None => false end then sh'
      else del_loop defs p lo hi mname r sh'
  end.

Definition shard_delete (defs : list sdef) (p : pred) (lo hi : Z) (mname : option bytes) (sh : shard) : shard :=
  let ms := meas_of defs (sh_listed sh) in
  match mname with
  | Some n => if existsb (bytes_eqb n) ms then del_loop defs p lo hi mname ms sh else sh
  | None => del_loop defs p lo hi mname ms sh
  end.

Definition store := list shard.
Definition store_delete defs p lo hi mname (st : store) : store := map (shard_delete defs p lo hi mname) st.

Fixpoint upd_nth {A} (n : nat) (f : A -> A) (l : list A) : list A :=
  match l, n with
  | [], _ => []
  | x :: r, O => f x :: r
  | x :: r, S n' => x :: upd_nth n' f r
  end.

Fixpoint add_listed (ss : list N) (l : list N) : list N :=
  match ss with
  | [] => l
  | s :: r => let l' := add_listed r l in if memN s l' then l' else s :: l'
  end.
Definition shard_write (pts : log) (sh : shard) : shard :=
  SH (sh_cache sh ++ pts) (sh_files sh) (add_listed (map (fun e => series_of (fst (fst e))) pts) (sh_listed sh)).

(** Engine.WriteSnapshot: the cache becomes a new file (nothing happens on an empty cache) *)
Fixpoint nodupN (l : list N) : list N :=
  match l with [] => [] | x :: r => if memN x r then nodupN r else x :: nodupN r end.
Definition memZ (x : Z) (l : list Z) : bool := existsb (Z.eqb x) l.
Fixpoint nodupZ (l : list Z) : list Z :=
  match l with [] => [] | x :: r => if memZ x r then nodupZ r else x :: nodupZ r end.
Definition key_times (c : log) (k : key) : list Z :=
  nodupZ (flat_map (fun e => if N.eqb (fst (fst e)) k then [snd (fst e)] else []) c).
Definition snap_kf (c : log) (k : key) : kfile :=
  KF k (flat_map (fun t => match log_get c k t with Some v => [(t, v)] | None => [] end) (key_times c k)) true [].
Definition shard_snapshot (sh : shard) : shard :=
  match sh_cache sh with
  | [] => sh
  | c =>
      let ts := map (fun e => snd (fst e)) c in
      SH [] (sh_files sh ++ [F (map (snap_kf c) (nodupN (map (fun e => fst (fst e)) c)))
                               (fold_left Z.min ts MaxInt64) (fold_left Z.max ts MinInt64)])
         (sh_listed sh)
  end.

(** ** Reading everything back *)
Fixpoint ins_z (t : Z) (l : list Z) : list Z :=
  match l with [] => [t] | x :: r => if t <? x then t :: l else if t =? x then l else x :: ins_z t r end.
Definition sort_z (l : list Z) : list Z := fold_right ins_z [] l.
Definition shard_times (sh : shard) : list Z :=
  sort_z (map (fun e => snd (fst e)) (sh_cache sh) ++
          flat_map (fun f => flat_map (fun kf => map fst (kf_pts kf)) (f_keys f)) (sh_files sh)).
Definition read_key (g : key -> Z -> option Z) (ts : list Z) (k : key) : list (Z * Z) :=
  flat_map (fun t => match g k t with Some v => [(t, v)] | None => [] end) ts.
Definition keys_upto (n : nat) : list key := map N.of_nat (seq 0 n).
Fixpoint ins_n (x : N) (l : list N) : list N :=
  match l with [] => [x] | y :: r => if (x <? y)%N then x :: l else if (x =? y)%N then l else y :: ins_n x r end.
Definition sort_n (l : list N) : list N := fold_right ins_n [] l.

Record obs := { o_reads : list (list (list (Z * Z))); o_listed : list (list N);
                o_meas : list (list bytes); o_store_meas : list bytes }.

Definition observe (defs : list sdef) (st : store) : obs :=
  let nk := (2 * length defs)%nat in
  {| o_reads := map (fun sh => map (read_key (get sh) (shard_times sh)) (keys_upto nk)) st;
     o_listed := map (fun sh => sort_n (sh_listed sh)) st;
     o_meas := map (fun sh => meas_of defs (sh_listed sh)) st;
     o_store_meas := sort_names (flat_map (fun sh => map (sname defs) (sh_listed sh)) st) |}.

(** * The oracle: one abstract map per shard; a series is listed iff it has data *)
Definition ostore := list log.
Definition o_delete (defs : list sdef) (p : pred) (lo hi : Z) (l : log) : log :=
  filter (fun e => negb (holds no_regex p ((MTAG, sname defs (series_of (fst (fst e)))) :: stags defs (series_of (fst (fst e))))
                         && in_range lo hi (snd (fst e)))) l.
Definition o_series (l : log) (nser : nat) : list N :=
  filter (fun s => existsb (fun e => N.eqb (series_of (fst (fst e))) s) l) (keys_upto nser).
Definition o_observe (defs : list sdef) (os : ostore) : obs :=
  let nk := (2 * length defs)%nat in
  {| o_reads := map (fun l => map (read_key (log_get l) (sort_z (map (fun e => snd (fst e)) l))) (keys_upto nk)) os;
     o_listed := map (fun l => o_series l (length defs)) os;
     o_meas := map (fun l => meas_of defs (o_series l (length defs))) os;
     o_store_meas := sort_names (flat_map (fun l => map (sname defs) (o_series l (length defs))) os) |}.

(** * The epoch tracker and the delete guards (tsdb/epoch_tracker.go, tsdb/guard.go)

    Atomic steps (each is one critical section of [epochTracker.mu] in the code):
      [EStartWrite times]  StartWrite: gen := ++epoch; writes++; snapshot of the registered guards
      [EEndWrite gen]      the write passed its guards, wrote, and EndWrite(gen): every registered
                           delete with dgen >= gen gets pending--; writes--
      [EStartDelete g]     WaitDelete: pending := writes; gen := ++epoch; largest := gen; register
      [EDoneDelete gen]    the delete finished waiting (pending = 0), did its work, Done():
                           unregister, guard.Done()
    A write is BLOCKED while one of the guards it took at StartWrite matches its points and that
    delete is still registered; a delete is BLOCKED while its pending count is positive.
    The guard of DeleteSeriesWithPredicate is newGuard(min, max, nil, nil): it matches a batch
    iff some point's time lies in [min, max]. *)
Record dstate := DS { d_gen : N; d_lo : Z; d_hi : Z; d_pending : Z }.
Record wstate := WS { w_gen : N; w_times : list Z; w_guards : list (N * Z * Z) }.
Record tracker := TR { t_epoch : N; t_largest : N; t_writes : Z; t_deletes : list dstate; t_ws : list wstate }.

Definition tr_init : tracker := TR 0 0 0 [] [].

Definition guard_matches (lo hi : Z) (times : list Z) : bool := existsb (in_range lo hi) times.

Definition registered (tr : tracker) (g : N) : bool := existsb (fun d => N.eqb (d_gen d) g) (t_deletes tr).

Definition w_blocked (tr : tracker) (w : wstate) : bool :=
  existsb (fun g => registered tr (fst (fst g)) && guard_matches (snd (fst g)) (snd g) (w_times w)) (w_guards w).
Definition d_blocked (d : dstate) : bool := 0 <? d_pending d.

Inductive event :=
| EStartWrite (times : list Z)
| EEndWrite (gen : N)
| EStartDelete (lo hi : Z)
| EDoneDelete (gen : N).

(** [None] = the step is not enabled in this state (the thread is still waiting) *)
Definition tr_step (tr : tracker) (e : event) : option tracker :=
  match e with
  | EStartWrite times =>
      let gen := (t_epoch tr + 1)%N in
      Some (TR gen (t_largest tr) (t_writes tr + 1) (t_deletes tr)
               (WS gen times (map (fun d => (d_gen d, d_lo d, d_hi d)) (t_deletes tr)) :: t_ws tr))
  | EEndWrite gen =>
      match find (fun w => N.eqb (w_gen w) gen) (t_ws tr) with
      | None => None
      | Some w =>
          if w_blocked tr w then None
          else Some (TR (t_epoch tr) (t_largest tr) (t_writes tr - 1)
                        (if (gen <=? t_largest tr)%N
                         then map (fun d => if (gen <=? d_gen d)%N then DS (d_gen d) (d_lo d) (d_hi d) (d_pending d - 1) else d) (t_deletes tr)
                         else t_deletes tr)
                        (filter (fun w' => negb (N.eqb (w_gen w') gen)) (t_ws tr)))
      end
  | EStartDelete lo hi =>
      let gen := (t_epoch tr + 1)%N in
      Some (TR gen gen (t_writes tr) (DS gen lo hi (t_writes tr) :: t_deletes tr) (t_ws tr))
  | EDoneDelete gen =>
      match find (fun d => N.eqb (d_gen d) gen) (t_deletes tr) with
      | None => None
      | Some d =>
          if d_blocked d then None
          else Some (TR (t_epoch tr) (t_largest tr) (t_writes tr)
                        (filter (fun d' => negb (N.eqb (d_gen d') gen)) (t_deletes tr)) (t_ws tr))
      end
  end.

Fixpoint tr_run (tr : tracker) (es : list event) : option tracker :=
  match es with
  | [] => Some tr
  | e :: r => match tr_step tr e with Some tr' => tr_run tr' r | None => None end
  end.

(** * Correspondence case *)
Inductive cstep :=
| CWrite (sh : nat) (pts : log)
| CSnap (sh : nat)
| CDelete (lo hi : Z) (p : pred) (mname : option bytes) (o : obs)
| CGuard (sh : nat) (lo hi : Z) (p : pred) (mname : option bytes) (wa : log) (wbs : list log)
         (parked aearly : bool) (nblocked : N) (o : obs).

Record case := { c_defs : list sdef; c_nshards : nat; c_steps : list cstep }.

Definition zz_eqb := list_eqb (pair_eqb Z.eqb Z.eqb).
Definition obs_eqb (a b : obs) : bool :=
  list_eqb (list_eqb zz_eqb) (o_reads a) (o_reads b) &&
  list_eqb (list_eqb N.eqb) (o_listed a) (o_listed b) &&
  list_eqb (list_eqb bytes_eqb) (o_meas a) (o_meas b) &&
  list_eqb bytes_eqb (o_store_meas a) (o_store_meas b).

Definition conflicts (pts : log) (lo hi : Z) : bool := existsb (fun e => in_range lo hi (snd (fst e))) pts.

Fixpoint write_each (i : nat) (ws : list log) (st : store) : store :=
  match ws with [] => st | w :: r => write_each (S i) r (upd_nth i (shard_write w) st) end.
Fixpoint owrite_each (i : nat) (ws : list log) (os : ostore) : ostore :=
  match ws with [] => os | w :: r => owrite_each (S i) r (upd_nth i (fun l => l ++ w) os) end.

Fixpoint check_steps (defs : list sdef) (c : list cstep) (st : store) (os : ostore) (same ok : bool) : bool * bool :=
  match c with
  | [] => (same, ok)
  | CWrite sh pts :: r =>
      check_steps defs r (upd_nth sh (shard_write pts) st) (upd_nth sh (fun l => l ++ pts) os) same ok
  | CSnap sh :: r => check_steps defs r (upd_nth sh shard_snapshot st) os same ok
  | CDelete lo hi p mname o :: r =>
      let st' := store_delete defs p lo hi mname st in
      let os' := map (o_delete defs p lo hi) os in
      check_steps defs r st' os' (same && obs_eqb o (observe defs st')) (ok && obs_eqb o (o_observe defs os'))
  | CGuard sh lo hi p mname wa wbs parked ae nb o :: r =>
      (* writer A goes to shard [sh]; writer i of [wbs] goes to shard i; all are started while
         the delete is parked on ONE (unknown) shard: that shard's tracker has the delete
         registered, the others have none (already Done, or not yet reached: limiter of 1). *)
      let st' := write_each 0 wbs (upd_nth sh (shard_write wa) (store_delete defs p lo hi mname st)) in
      let os' := owrite_each 0 wbs (upd_nth sh (fun l => l ++ wa) (map (o_delete defs p lo hi) os)) in
      let times (l : log) := map (fun e => snd (fst e)) l in
      let blocked_parked (l : log) :=      (* on the shard the delete is parked on *)
        match tr_run tr_init [EStartDelete lo hi; EStartWrite (times l)] with
        | Some tr => existsb (w_blocked tr) (t_ws tr) | None => false end in
      let blocked_other (l : log) :=
        match tr_run tr_init [EStartWrite (times l)] with
        | Some tr => existsb (w_blocked tr) (t_ws tr) | None => false end in
      let ea := parked && negb (blocked_parked wa) && negb (blocked_other wa) in
      let g :=
        Bool.eqb ae ea &&
        (if parked then
           (* every writer of [wbs] conflicts: exactly the one on the parked shard waits *)
           if forallb blocked_parked wbs && negb (existsb blocked_other wbs)
           then N.eqb nb (match wbs with [] => 0 | _ => 1 end)%N else true
         else N.eqb nb 0%N) in
      check_steps defs r st' os' (same && g && obs_eqb o (observe defs st')) (ok && g && obs_eqb o (o_observe defs os'))
  end.

Definition check (c : case) : verdict :=
  let '(same, ok) :=
    check_steps (c_defs c) (c_steps c) (repeat (SH [] [] []) (c_nshards c)) (repeat [] (c_nshards c)) true true in
  judge same ok.

