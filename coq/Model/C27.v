(** C27 — Replication forwards every queued batch, in order, until the remote accepts it.

    Mirror of [replicationQueue.SendWrite] (replications/internal/queue_management.go)
    and [writer.Write], [backoff], [waitTimeFromHeader]
    (replications/remotewrite/writer.go).

    The durable queue is abstracted to the FIFO list of its pending batches (C26 is the
    refinement of that abstraction; the replication queue uses one 10 MB segment, so
    one scanner covers everything pending).  The remote and the config store are a
    script: one [item] per call of [Write].  The periodic in-loop [advanceScanner]
    (10 s ticker) is not modelled: in the driver's runs it never fires.  Durations are
    nanoseconds.  No proofs in this file. *)
From Verif Require Import Base.Prelude.
Open Scope Z_scope.

Definition second : Z := 1000000000.
Definition max_backoff : Z := 900 * second.          (* maximumBackoffTime = 15 min *)
Definition max_attempts : Z := 10.                   (* maximumAttempts *)

(** writer.backoff: 0.5 * 2^(n-1) seconds = 2^n quarter-seconds (exact in float64),
    or the cap after more than 10 attempts.  [attempts] is never negative. *)
Definition backoff (n : Z) : Z :=
  if n >? max_attempts then max_backoff else 2 ^ n * 250000000.

(** strconv.Atoi on the header bytes: optional sign, at least one decimal digit,
    nothing else, result within int64. *)
Fixpoint digits (l : list Z) (acc : Z) : option Z :=
  match l with
  | [] => Some acc
  | c :: r => if (48 <=? c) && (c <=? 57) then digits r (acc * 10 + (c - 48)) else None
  end.
Definition two63 : Z := 9223372036854775808.
Definition two64 : Z := 18446744073709551616.
Definition atoi (l : list Z) : option Z :=
  let '(neg, ds) := match l with
                    | 43 :: r => (false, r)
                    | 45 :: r => (true, r)
                    | _ => (false, l)
                    end in
  match ds with
  | [] => None
  | _ => match digits ds 0 with
         | None => None
         | Some v => let v' := if neg then - v else v in
                     if (- two63 <=? v') && (v' <? two63) then Some v' else None
         end
  end.
(** int64 wrap-around of [rtr * int(time.Second)] *)
Definition wrap64 (z : Z) : Z := let m := z mod two64 in if m <? two63 then m else m - two64.

(** writer.waitTimeFromHeader; [h] = bytes of the Retry-After value, [] = absent *)
Definition wait_from_header (h : list Z) : Z :=
  match h with
  | [] => 0
  | [48] => backoff 1
  | _ => match atoi h with None => 0 | Some v => wrap64 (v * second) end
  end.

(** What happens to one call of Write. *)
Inductive resp :=
| RStatus (code : Z) (retry_after : list Z)
| RTimeout                 (* no response, error is a timeout *)
| RConnErr.                (* no response, other transport error *)
Record item := { it_resp : resp; it_cfg_fail : bool; it_upd_fail : bool }.
Definition item_ok : item := {| it_resp := RStatus 204 []; it_cfg_fail := false; it_upd_fail := false |}.

Record wres := { w_wait : Z; w_ok : bool; w_posted : bool; w_recorded : option Z }.

(** writer.Write(data, attempts) with DropNonRetryableData = [drop]. *)
Definition write (drop : bool) (it : item) (attempts : Z) : wres :=
  let fail := backoff attempts in
  if it_cfg_fail it then {| w_wait := fail; w_ok := false; w_posted := false; w_recorded := None |} else
  match it_resp it with
  | RConnErr => {| w_wait := fail; w_ok := false; w_posted := true; w_recorded := Some 0 |}
  | RTimeout => {| w_wait := fail; w_ok := false; w_posted := true; w_recorded := Some 0 |}
  | RStatus c h =>
      let mk w ok := {| w_wait := w; w_ok := ok; w_posted := true; w_recorded := Some c |} in
      if it_upd_fail it then mk fail false
      else if c =? 204 then mk 0 true
      else if (c =? 400) && drop then mk 0 true
      else if c =? 429 then
        let ht := wait_from_header h in
        if negb (ht =? 0) then mk ht false else mk fail false
      else mk fail false
  end.

(** SendWrite.  State: pending batches [q], [failedWrites] [fw].
    Result: the batches posted (request log, in order), statuses recorded in the
    config store, (waitForRetry, shouldRetry), new queue, new failedWrites,
    remaining script. *)
Record sres := { s_posted : list (list Z); s_recorded : list Z; s_wait : Z; s_retry : bool;
                 s_q : list (list Z); s_fw : Z; s_script : list item }.

Fixpoint send_loop (drop : bool) (q0 todo : list (list Z)) (fw : Z) (script : list item)
         (posted : list (list Z)) (recd : list Z) : sres :=
  match todo with
  | [] => (* scanner exhausted: advanceScanner, return (0, true) *)
      {| s_posted := rev posted; s_recorded := rev recd; s_wait := 0; s_retry := true;
         s_q := []; s_fw := fw; s_script := script |}
  | b :: r =>
      let it := hd item_ok script in
      let w := write drop it fw in
      let posted' := if w_posted w then b :: posted else posted in
      let recd' := match w_recorded w with Some c => c :: recd | None => recd end in
      if w_ok w then send_loop drop q0 r 0 (tl script) posted' recd'
      else {| s_posted := rev posted'; s_recorded := rev recd'; s_wait := w_wait w; s_retry := true;
              s_q := q0; s_fw := fw + 1; s_script := tl script |}
  end.
Definition send_write (drop : bool) (q : list (list Z)) (fw : Z) (script : list item) : sres :=
  match q with
  | [] => {| s_posted := []; s_recorded := []; s_wait := 0; s_retry := false;
             s_q := []; s_fw := fw; s_script := script |}          (* NewScanner: io.EOF *)
  | _ => send_loop drop q q fw script [] []
  end.

(** ** histories with the implementation's outputs *)
Record sobs := { so_posted : list (list Z); so_recorded : list Z; so_wait : Z; so_retry : bool;
                 so_fw : Z; so_remaining : list (list Z) }.
Inductive op :=
| OEnq (b : list Z)
| OSend (script : list item) (o : sobs)
| OPurge (aged : bool) (remaining : list (list Z))
| OWrite (attempts : Z) (it : item) (wait : Z) (ok : bool).

Definition bytes_eqb := list_eqb Z.eqb.
Definition blocks_eqb := list_eqb bytes_eqb.
Definition zs_eqb := list_eqb Z.eqb.

Record mstate := { m_q : list (list Z); m_fw : Z }.

Definition step (drop : bool) (st : mstate) (o : op) : mstate * bool :=
  match o with
  | OEnq b => ({| m_q := m_q st ++ [b]; m_fw := m_fw st |}, true)
  | OSend script ob =>
      let r := send_write drop (m_q st) (m_fw st) script in
      ({| m_q := s_q r; m_fw := s_fw r |},
       blocks_eqb (s_posted r) (so_posted ob) && zs_eqb (s_recorded r) (so_recorded ob)
       && (s_wait r =? so_wait ob) && Bool.eqb (s_retry r) (so_retry ob)
       && (s_fw r =? so_fw ob) && blocks_eqb (s_q r) (so_remaining ob))
  | OPurge aged rem =>
      let q' := if aged then [] else m_q st in
      ({| m_q := q'; m_fw := m_fw st |}, blocks_eqb q' rem)
  | OWrite n it w ok =>
      let r := write drop it n in
      (st, (w_wait r =? w) && Bool.eqb (w_ok r) ok)
  end.
Fixpoint run (drop : bool) (st : mstate) (os : list op) : mstate * bool :=
  match os with
  | [] => (st, true)
  | o :: r => let '(st', s) := step drop st o in
              let '(st'', s') := run drop st' r in (st'', s && s')
  end.

(** ** the oracle: the property stated on the observations only.
    [pend] = batches enqueued and not yet seen to leave the queue. *)
Fixpoint is_prefix (a b : list (list Z)) : bool :=
  match a, b with
  | [], _ => true
  | x :: a', y :: b' => bytes_eqb x y && is_prefix a' b'
  | _, _ => false
  end.
(** accepted by the remote (or droppable) according to the property text *)
Definition accepts (drop : bool) (it : item) : bool :=
  negb (it_cfg_fail it) && negb (it_upd_fail it) &&
  match it_resp it with
  | RStatus c _ => (c =? 204) || ((c =? 400) && drop)
  | _ => false
  end.
(** documented delay rule: Retry-After seconds on a 429 carrying a usable non-zero
    header; otherwise 0.25 s doubled per failed attempt, capped at 15 min after 10. *)
Fixpoint doubling (n : nat) : Z := match n with O => 250000000 | S k => 2 * doubling k end.
Definition spec_backoff (n : Z) : Z := if n >? 10 then 900 * second else doubling (Z.to_nat n).
Definition spec_delay (it : item) (attempts : Z) : Z :=
  match it_resp it with
  | RStatus 429 h =>
      if it_cfg_fail it || it_upd_fail it then spec_backoff attempts else
      match h with
      | [] => spec_backoff attempts
      | [48] => spec_backoff 1
      | _ => match atoi h with
             | Some v => if wrap64 (v * second) =? 0 then spec_backoff attempts else wrap64 (v * second)
             | None => spec_backoff attempts
             end
      end
  | _ => spec_backoff attempts
  end.

(** number of leading script items (one per posted batch) that accept *)
Fixpoint count_accepted (drop : bool) (script : list item) (n : nat) : nat :=
  match n with
  | O => O
  | S k => if accepts drop (hd item_ok script) then S (count_accepted drop (tl script) k) else O
  end.

(** how many requests the remote must see: batches are attempted one after the other
    until the first one that is not accepted (inclusive, unless the config lookup
    failed, in which case nothing is sent for it) *)
Fixpoint expected_posts (drop : bool) (script : list item) (n : nat) : nat :=
  match n with
  | O => O
  | S k => let it := hd item_ok script in
           if it_cfg_fail it then O
           else if accepts drop it then S (expected_posts drop (tl script) k) else 1%nat
  end.

Definition ostep (drop : bool) (pend : list (list Z)) (o : op) : option (list (list Z)) :=
  match o with
  | OEnq b => Some (pend ++ [b])
  | OSend script ob =>
      (* posted in order: the requests of this call are a prefix of the pending batches *)
      if negb (is_prefix (so_posted ob) pend) then None else
      (* removed only if accepted: the queue is untouched unless every pending batch got an
         accepting answer in this call, in which case it is emptied *)
      let nacc := count_accepted drop script (length pend) in
      let all_acc := (nacc =? length pend)%nat in
      let rem_ok := if all_acc then blocks_eqb (so_remaining ob) []
                    else blocks_eqb (so_remaining ob) pend in
      (* forwarding does not stop early: everything up to and including the first
         non-accepted batch was attempted (a config-store lookup failure sends nothing) *)
      if negb rem_ok then None else
      if negb (length (so_posted ob) =? expected_posts drop script (length pend))%nat then None else
      Some (so_remaining ob)
  | OPurge aged rem =>
      if aged then (if blocks_eqb rem [] then Some [] else None)
      else (if blocks_eqb rem pend then Some pend else None)
  | OWrite n it w ok =>
      if Bool.eqb ok (accepts drop it) && (if ok then w =? 0 else w =? spec_delay it n)
      then Some pend else None
  end.
Fixpoint orun (drop : bool) (pend : list (list Z)) (os : list op) : option (list (list Z)) :=
  match os with
  | [] => Some pend
  | o :: r => match ostep drop pend o with Some p => orun drop p r | None => None end
  end.

(** ** SendWrite over a multi-segment backlog with the in-loop ticker advance.
    The scanner of SendWrite covers only the head segment.  After every successful
    Write the 10 s ticker is polled; when it has fired ([ticks], one boolean per batch
    of the head segment) [advanceScanner] persists the position.  If that happens right
    after the LAST block of the head segment, segment.advanceTo reports io.EOF and
    queueScanner.Advance trims the head.  Since the repair of finding
    repl-ticker-advance-at-segment-end-drops-next-segment the scanner is then finished
    (Next = false, further Advance = no-op), so the segments queued behind the head are
    untouched; before it, the final advanceScanner() force-trimmed the NEXT segment unsent.
    The remote accepts everything here.
    Result: batches posted, batches still queued afterwards (flattened). *)
Fixpoint send_ms_loop (todo : list (list Z)) (ticks : list bool) (rest : list (list (list Z)))
         (posted : list (list Z)) : list (list Z) * list (list Z) :=
  match todo with
  | [] => (rev posted, concat rest)                 (* final advance: EOF, trimHead(false) / no-op *)
  | b :: r =>
      let fired := hd false ticks in
      match r, rest with
      | [], _ :: _ =>
          (* last block of the head with segments behind it: a ticker advance trims the head
             and finishes the scanner; otherwise the loop ends and the final advance trims *)
          if fired then (rev (b :: posted), concat rest)
          else send_ms_loop r (tl ticks) rest (b :: posted)
      | _, _ => send_ms_loop r (tl ticks) rest (b :: posted)
      end
  end.
Definition send_ms (segs : list (list (list Z))) (ticks : list bool) : list (list Z) * list (list Z) :=
  match segs with
  | [] => ([], [])
  | [] :: _ => ([], concat segs)
  | head :: rest => send_ms_loop head ticks rest []
  end.
Record mscase := { ms_segs : list (list (list Z)); ms_ticks : list bool;
                   ms_posted : list (list Z); ms_remaining : list (list Z) }.
(** oracle: nothing lost, nothing reordered: posted ++ still-queued = everything enqueued *)
Definition ms_ok (c : mscase) : bool :=
  blocks_eqb (ms_posted c ++ ms_remaining c) (concat (ms_segs c)).
Definition ms_same (c : mscase) : bool :=
  let '(p, r) := send_ms (ms_segs c) (ms_ticks c) in
  blocks_eqb p (ms_posted c) && blocks_eqb r (ms_remaining c).

(** ** correspondence case *)
Record case := { c_drop : bool; c_ops : list op; c_final : list (list Z); c_ms : option mscase }.

Definition check (c : case) : verdict :=
  let '(st, same_ops) := run (c_drop c) {| m_q := []; m_fw := 0 |} (c_ops c) in
  let same := same_ops && blocks_eqb (m_q st) (c_final c) in
  let ok := match orun (c_drop c) [] (c_ops c) with
            | Some p => blocks_eqb p (c_final c)
            | None => false
            end in
  match c_ms c with
  | None => judge same ok
  | Some m => judge (same && ms_same m) (ok && ms_ok m)
  end.
