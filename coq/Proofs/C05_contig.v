(** C05 proofs, part 2: every group is a contiguous run of the generation list; groups of
    one response are pairwise disjoint. *)
From Verif Require Import Base.Prelude Model.C05 Proofs.C05.
From Coq Require Import Permutation.
Local Open Scope N_scope.

(** [segs l G]: [G] is a list of consecutive, non-overlapping segments of [l], in order. *)
Inductive segs : list gen -> list (list gen) -> Prop :=
| segs_nil l : segs l []
| segs_cons skip seg rest gs : segs rest gs -> segs (skip ++ seg ++ rest) (seg :: gs).

Lemma segs_prefix p l gs : segs l gs -> segs (p ++ l) gs.
Proof.
  intro H. destruct H as [l | skip seg rest gs H]; [constructor|].
  rewrite app_assoc. constructor. exact H.
Qed.

Lemma segs_suffix l gs q : segs l gs -> segs (l ++ q) gs.
Proof.
  intro H. induction H as [l | skip seg rest gs H IH]; [constructor|].
  rewrite <- !app_assoc. constructor. exact IH.
Qed.

Lemma segs_app a X b Y : segs a X -> segs b Y -> segs (a ++ b) (X ++ Y).
Proof.
  intros Ha Hb. induction Ha as [l | skip seg rest gs H IH]; simpl.
  - apply segs_prefix, Hb.
  - rewrite <- !app_assoc. constructor. exact IH.
Qed.

Lemma segs_one l : segs l [l].
Proof.
  rewrite <- (app_nil_l l) at 1. rewrite <- (app_nil_r l) at 1. constructor. constructor.
Qed.

Lemma segs_tail l seg gs : segs l (seg :: gs) -> segs l gs.
Proof.
  intro H. inversion H; subst. rewrite app_assoc. apply segs_prefix. assumption.
Qed.

Lemma segs_in l gs grp :
  segs l gs -> In grp gs -> exists pre post, l = pre ++ grp ++ post.
Proof.
  intro H. induction H as [l | skip seg rest gs H IH]; intro Hin; [destruct Hin|].
  destruct Hin as [-> | Hin].
  - exists skip, rest. reflexivity.
  - destruct (IH Hin) as [pre [post ->]].
    exists (skip ++ seg ++ pre), post. rewrite <- !app_assoc. reflexivity.
Qed.

(** selecting / refining segments *)
Lemma segs_flat_map (f : list gen -> list (list gen)) l gs :
  (forall x, segs x (f x)) -> segs l gs -> segs l (flat_map f gs).
Proof.
  intros Hf H. induction H as [l | skip seg rest gs H IH]; simpl; [constructor|].
  apply segs_prefix. apply segs_app; [apply Hf | exact IH].
Qed.

Lemma segs_filter (f : list gen -> bool) l gs : segs l gs -> segs l (filter f gs).
Proof.
  intro H. rewrite <- (flat_map_filter_eq f gs) || idtac.
  induction H as [l | skip seg rest gs H IH]; simpl; [constructor|].
  destruct (f seg).
  - constructor. exact IH.
  - rewrite app_assoc. apply segs_prefix, IH.
Qed.

(** paths *)
Lemma gs_paths_app a b : gs_paths (a ++ b) = gs_paths a ++ gs_paths b.
Proof. unfold gs_paths. apply flat_map_app. Qed.

Lemma segs_incl l gs :
  segs l gs -> incl (concat (map gs_paths gs)) (gs_paths l).
Proof.
  intro H. induction H as [l | skip seg rest gs H IH]; simpl; [intros x []|].
  rewrite !gs_paths_app. intros x Hx. apply in_app_or in Hx as [Hx|Hx].
  - apply in_or_app. right. apply in_or_app. left. exact Hx.
  - apply in_or_app. right. apply in_or_app. right. apply IH, Hx.
Qed.

Lemma NoDup_app_l {A} (a b : list A) : NoDup (a ++ b) -> NoDup a.
Proof.
  induction a as [|x a IH]; simpl; intro H; [constructor|].
  inversion H; subst. constructor; [|auto]. intro Hx. apply H2, in_or_app. left; exact Hx.
Qed.

Lemma NoDup_app_r {A} (a b : list A) : NoDup (a ++ b) -> NoDup b.
Proof.
  induction a as [|x a IH]; simpl; intro H; [exact H|]. inversion H; subst. auto.
Qed.

Lemma NoDup_app_disj {A} (a b : list A) x : NoDup (a ++ b) -> In x a -> In x b -> False.
Proof.
  induction a as [|y a IH]; simpl; intros H Ha Hb; [exact Ha|].
  inversion H; subst. destruct Ha as [-> | Ha].
  - apply H2, in_or_app. right; exact Hb.
  - eapply IH; eauto.
Qed.

Lemma NoDup_app_intro {A} (a b : list A) :
  NoDup a -> NoDup b -> (forall x, In x a -> In x b -> False) -> NoDup (a ++ b).
Proof.
  induction a as [|y a IH]; simpl; intros Ha Hb Hd; [exact Hb|].
  inversion Ha; subst. constructor.
  - intro Hy. apply in_app_or in Hy as [Hy|Hy]; [contradiction|]. eapply Hd; eauto.
  - apply IH; auto. intros x Hx Hx'. eapply Hd; eauto.
Qed.

Lemma segs_nodup l gs :
  segs l gs -> NoDup (gs_paths l) -> NoDup (concat (map gs_paths gs)).
Proof.
  intro H. induction H as [l | skip seg rest gs H IH]; simpl; intro Hn; [constructor|].
  rewrite !gs_paths_app in Hn. apply NoDup_app_r in Hn.
  apply NoDup_app_intro.
  - eapply NoDup_app_l; eauto.
  - apply IH. eapply NoDup_app_r; eauto.
  - intros x Hx Hy. apply (segs_incl _ _ H) in Hy. eapply NoDup_app_disj; eauto.
Qed.

(** ---- groupAdjacentGenerations ---- *)
Lemma flush_segs cur l gs : segs l gs -> segs (cur ++ l) (flush cur ++ gs).
Proof.
  intro H. unfold flush. destruct cur as [|g cur]; simpl; [exact H|].
  change (g :: cur ++ l) with ([] ++ (g :: cur) ++ l). constructor. exact H.
Qed.

Lemma group_adjacent_segs iu test gens : forall cur,
  segs (cur ++ gens) (group_adjacent iu test gens cur).
Proof.
  induction gens as [|g rest IH]; intro cur; simpl.
  - rewrite <- (app_nil_r (flush cur)). apply flush_segs. constructor.
  - destruct (is_in_use iu g).
    + apply flush_segs. apply (segs_prefix [g]). apply (IH []).
    + match goal with |- context [if ?b then _ else _] => destruct b end.
      * specialize (IH (cur ++ [g])). rewrite <- app_assoc in IH. exact IH.
      * apply flush_segs. apply (IH [g]).
Qed.

(** every generation of every group is not in use *)
Lemma group_adjacent_free iu test gens : forall cur,
  Forall (fun g => is_in_use iu g = false) cur ->
  Forall (Forall (fun g => is_in_use iu g = false)) (group_adjacent iu test gens cur).
Proof.
  assert (Hfl : forall cur, Forall (fun g => is_in_use iu g = false) cur ->
                 Forall (Forall (fun g => is_in_use iu g = false)) (flush cur)).
  { intros cur H. unfold flush. destruct (is_nil cur); constructor; auto. }
  induction gens as [|g rest IH]; intros cur Hc; simpl.
  - apply Hfl, Hc.
  - destruct (is_in_use iu g) eqn:Eg.
    + apply Forall_app. split; [apply Hfl, Hc | apply IH; constructor].
    + match goal with |- context [if ?b then _ else _] => destruct b end.
      * apply IH. apply Forall_app. split; [exact Hc | constructor; auto].
      * apply Forall_app. split; [apply Hfl, Hc | apply IH; constructor; auto].
Qed.

(** ---- chunk ---- *)
Lemma chunk_f_segs n fuel : forall l, segs l (chunk_f fuel n l).
Proof.
  induction fuel as [|k IH]; intro l; simpl; [constructor|].
  destruct l as [|x l]; [constructor|].
  rewrite <- (firstn_skipn n (x :: l)) at 1.
  change (firstn n (x :: l) ++ skipn n (x :: l))
    with ([] ++ firstn n (x :: l) ++ skipn n (x :: l)).
  constructor. apply IH.
Qed.

Lemma level_chunks_segs level minG grp later : segs grp (level_chunks level minG grp later).
Proof.
  unfold level_chunks. apply segs_flat_map; [|apply chunk_f_segs].
  intro x. destruct (_ && _); [destruct (existsb _ later)|]; try apply segs_one; constructor.
Qed.

Lemma level_groups_segs level minG l gs : segs l gs -> segs l (level_groups level minG gs).
Proof.
  intro H. induction H as [l | skip seg rest gs H IH]; simpl; [constructor|].
  apply segs_prefix. apply segs_app; [|exact IH].
  destruct (gs_level seg =? level); [apply level_chunks_segs | constructor].
Qed.

Lemma plan_level_gens_segs st gens level : segs gens (plan_level_gens st gens level).
Proof.
  unfold plan_level_gens. destruct (force_full st); [constructor|].
  destruct (_ && _); [constructor|].
  apply level_groups_segs. apply (group_adjacent_segs _ _ gens []).
Qed.

Lemma plan_optimize_gens_segs st gens cold : segs gens (plan_optimize_gens st gens cold).
Proof.
  unfold plan_optimize_gens. destruct (force_full st); [constructor|].
  destruct (_ || _); [constructor|].
  apply segs_filter. apply (group_adjacent_segs _ _ gens []).
Qed.

(** ---- Plan, level-4 branch ---- *)
Lemma take_group_prefix iu : forall n l,
  l = take_group iu n l ++ skipn (length (take_group iu n l)) l.
Proof.
  induction n as [|k IH]; intros [|g r]; simpl; try reflexivity.
  destruct (_ || _); simpl; [reflexivity|]. f_equal. apply IH.
Qed.

Lemma plan_groups_f_segs iu fuel : forall l, segs l (plan_groups_f iu fuel l).
Proof.
  induction fuel as [|k IH]; intro l; [constructor|].
  cbn [plan_groups_f].
  destruct l as [|x tl]; [constructor|].
  pose proof (take_group_prefix iu 4 (x :: tl)) as Hp.
  remember (take_group iu 4 (x :: tl)) as cg eqn:Ecg.
  set (rest := skipn (length cg) (x :: tl)) in *.
  destruct (is_nil cg) eqn:En.
  - apply (segs_prefix [x]). apply IH.
  - rewrite Hp. apply (segs_cons [] cg rest). apply IH.
Qed.

Lemma plan_l4_window_split gens : exists pre post, gens = pre ++ plan_l4_window gens ++ post.
Proof.
  unfold plan_l4_window.
  set (e := find_end gens 0 0). set (s := find_start (firstn e gens) 0 None false 0).
  exists (firstn s (firstn e gens)), (skipn e gens).
  rewrite app_assoc, firstn_skipn, firstn_skipn. reflexivity.
Qed.

Lemma plan_l4_gens_segs st gens : segs gens (plan_l4_gens st gens).
Proof.
  unfold plan_l4_gens. destruct (_ && _); [constructor|].
  apply segs_filter.
  destruct (plan_l4_window_split gens) as [pre [post E]].
  rewrite E at 1. apply segs_prefix, segs_suffix, plan_groups_f_segs.
Qed.

(** ---- Plan, full branch: kept generations are a subsequence ---- *)
Lemma full_kept_incl iu n gens : incl (gs_paths (full_kept iu n gens)) (gs_paths gens).
Proof.
  induction gens as [|g rest IH]; simpl; [intros x []|].
  assert (H : incl (gs_paths (full_kept iu n rest)) (g_paths g ++ gs_paths rest)).
  { intros x Hx. apply in_or_app. right. apply IH, Hx. }
  destruct (is_in_use iu g); [exact H|].
  match goal with |- context [if ?b then _ else _] => destruct b end; [exact H|].
  simpl. intros x Hx. apply in_app_or in Hx as [Hx|Hx]; apply in_or_app; [left|right]; auto.
Qed.

Lemma full_kept_nodup iu n gens :
  NoDup (gs_paths gens) -> NoDup (gs_paths (full_kept iu n gens)).
Proof.
  induction gens as [|g rest IH]; simpl; intro Hn; [constructor|].
  assert (H : NoDup (gs_paths (full_kept iu n rest))) by (apply IH; eapply NoDup_app_r; eauto).
  destruct (is_in_use iu g); [exact H|].
  match goal with |- context [if ?b then _ else _] => destruct b end; [exact H|].
  simpl. apply NoDup_app_intro; [eapply NoDup_app_l; eauto | exact H |].
  intros x Hx Hy. apply full_kept_incl in Hy. eapply NoDup_app_disj; eauto.
Qed.

(** when nothing is in use and nothing is maxed-out, the full plan keeps everything *)
Definition full_skippable (g : gen) : bool :=
  (MaxTSMFileSize <? g_size g) && (DefaultMaxPointsPerBlock <=? g_fbc0 g) && negb (g_tomb g).

Lemma full_kept_all iu n gens :
  Forall (fun g => is_in_use iu g = false /\ full_skippable g = false) gens ->
  full_kept iu n gens = gens.
Proof.
  induction gens as [|g rest IH]; simpl; intro H; [reflexivity|].
  inversion H as [|? ? [Hi Hs] Hr]; subst. rewrite Hi.
  unfold full_skippable in Hs.
  assert (Hs' : (2 <? n) && (MaxTSMFileSize <? g_size g)
                && (DefaultMaxPointsPerBlock <=? g_fbc0 g) && negb (g_tomb g) = false).
  { rewrite <- !andb_assoc. rewrite <- !andb_assoc in Hs. rewrite Hs. apply andb_false_r. }
  rewrite Hs'. rewrite (IH Hr).
  destruct rest as [|g' r]; [reflexivity|]. destruct (g_level g' <=? 3); reflexivity.
Qed.

(** ---- contiguity as a proposition ---- *)
Definition contiguous (gens : list gen) (grp : list N) : Prop :=
  exists pre run post, gens = pre ++ run ++ post /\ Permutation grp (gs_paths run).

Lemma segs_contiguous gens gs (f : list N -> list N) :
  (forall l, Permutation (f l) l) ->
  segs gens gs -> Forall (contiguous gens) (map (fun grp => f (gs_paths grp)) gs).
Proof.
  intros Hf H. apply Forall_forall. intros x Hx. apply in_map_iff in Hx as [grp [<- Hin]].
  destruct (segs_in _ _ _ H Hin) as [pre [post E]].
  exists pre, grp, post. split; [exact E | apply Hf].
Qed.

Lemma sort_paths_perm l : Permutation (sort_paths l) l.
Proof. unfold sort_paths. symmetry. apply NSort.Permuted_sort. Qed.

Lemma finish_out_cases st groups :
  snd (finish st groups) = groups \/ snd (finish st groups) = [].
Proof.
  destruct (finish st groups) as [st' out] eqn:E. apply finish_spec in E as [H _]. exact H.
Qed.

Lemma Forall_finish (P : list N -> Prop) st groups :
  Forall P groups -> Forall P (snd (finish st groups)).
Proof. intro H. destruct (finish_out_cases st groups) as [-> | ->]; [exact H | constructor]. Qed.

Lemma plan_level_contiguous st gens level :
  Forall (contiguous gens) (snd (plan_level st gens level)).
Proof.
  unfold plan_level. apply Forall_finish.
  apply (segs_contiguous gens _ (fun l => l)); [reflexivity | apply plan_level_gens_segs].
Qed.

Lemma plan_optimize_contiguous st gens cold :
  Forall (contiguous gens) (snd (plan_optimize st gens cold)).
Proof.
  unfold plan_optimize. apply Forall_finish.
  apply (segs_contiguous gens _ (fun l => l)); [reflexivity | apply plan_optimize_gens_segs].
Qed.

Lemma plan_nonfull_contiguous st gens cold recent :
  plan_is_full st gens cold = false ->
  Forall (contiguous gens) (snd (plan st gens cold recent)).
Proof.
  intro Hf. unfold plan. rewrite Hf. destruct (_ && negb (gs_tomb gens)); [constructor|].
  apply Forall_finish. apply (segs_contiguous gens _ sort_paths);
    [apply sort_paths_perm | apply plan_l4_gens_segs].
Qed.

Lemma plan_full_contiguous_clean st gens cold recent :
  Forall (fun g => is_in_use (in_use st) g = false /\ full_skippable g = false) gens ->
  Forall (contiguous gens) (snd (plan st gens cold recent)).
Proof.
  intro Hc. destruct (plan_is_full st gens cold) eqn:Hf;
    [|apply plan_nonfull_contiguous; exact Hf].
  unfold plan. rewrite Hf. apply Forall_finish.
  unfold plan_full_gens. simpl in_use. rewrite (full_kept_all _ _ _ Hc).
  destruct (_ || _); simpl; [constructor|]. constructor; [|constructor].
  exists [], gens, []. rewrite app_nil_r. split; [reflexivity | apply sort_paths_perm].
Qed.

(** ---- groups of one response are pairwise disjoint (no file twice) ---- *)
Lemma concat_map_perm (f : list N -> list N) (gs : list (list N)) :
  (forall l, Permutation (f l) l) -> Permutation (concat (map f gs)) (concat gs).
Proof.
  intro Hf. induction gs as [|g gs IH]; simpl; [constructor|].
  apply Permutation_app; [apply Hf | exact IH].
Qed.

Lemma NoDup_finish st groups : NoDup (concat groups) -> NoDup (concat (snd (finish st groups))).
Proof.
  intro H. destruct (finish_out_cases st groups) as [-> | ->]; [exact H | constructor].
Qed.

Lemma plan_level_nodup st gens level :
  NoDup (gs_paths gens) -> NoDup (concat (snd (plan_level st gens level))).
Proof.
  intro Hn. unfold plan_level. apply NoDup_finish.
  eapply segs_nodup; [apply plan_level_gens_segs | exact Hn].
Qed.

Lemma plan_optimize_nodup st gens cold :
  NoDup (gs_paths gens) -> NoDup (concat (snd (plan_optimize st gens cold))).
Proof.
  intro Hn. unfold plan_optimize. apply NoDup_finish.
  eapply segs_nodup; [apply plan_optimize_gens_segs | exact Hn].
Qed.

Lemma plan_nodup st gens cold recent :
  NoDup (gs_paths gens) -> NoDup (concat (snd (plan st gens cold recent))).
Proof.
  intro Hn. unfold plan. destruct (plan_is_full st gens cold).
  - apply NoDup_finish. unfold plan_full_gens.
    destruct (_ || _); simpl; [constructor|]. rewrite app_nil_r.
    eapply Permutation_NoDup; [symmetry; apply sort_paths_perm|].
    apply full_kept_nodup, Hn.
  - destruct (_ && negb (gs_tomb gens)); [constructor|].
    apply NoDup_finish.
    rewrite <- (map_map gs_paths sort_paths).
    eapply Permutation_NoDup; [symmetry; apply concat_map_perm, sort_paths_perm|].
    eapply segs_nodup; [apply plan_l4_gens_segs | exact Hn].
Qed.

Lemma step_nodup_out st gens o :
  NoDup (gs_paths gens) -> NoDup (concat (snd (step st gens o))).
Proof.
  intro Hn. destruct o; simpl; try constructor.
  - apply plan_level_nodup, Hn.
  - apply plan_nodup, Hn.
  - apply plan_optimize_nodup, Hn.
Qed.
