(** C20 — Windowed aggregate pushdown equals aggregating the raw data.

    Mirror of the window array cursors of /repo/storage/reads/array_cursor.gen.go
    ([*Window{Count,Sum,Min,Max,Mean}ArrayCursor.Next], [*WindowFirstArrayCursor.Next],
    [*WindowLastArrayCursor.Next], [*LimitArrayCursor.Next]) and of the dispatch in
    array_cursor.go / aggregate_resultset.go.

    Input: the series as the underlying cursor hands it out, i.e. a list of arrays
    ("chunks") of (timestamp, value) pairs; an empty array is the cursor's end-of-data
    signal.  Output: the list of arrays the window cursor returns from successive [Next()]
    calls until the first empty one.

    The five generated "accumulating" cursors (count, sum, min, max, mean) are the SAME loop
    for every value type and differ only in the accumulator: they are mirrored ONCE, generically
    over a [kernel] (initial accumulator, reset at a window change, per-point step, emit).
    The window is a function [stop_of : Z -> Z] ([interval.Window.GetLatestBounds(t).Stop()]);
    [zero] is [window.IsZero()] (whole-series aggregate; [windowEnd = MaxInt64]);
    [B] is [MaxPointsPerBlock] (1000 in the code; a parameter here).

    No proofs in this file. *)
From Coq Require Import Floats.SpecFloat.
From Verif Require Import Base.Prelude.
Open Scope Z_scope.

Definition two63 : Z := 9223372036854775808.
Definition two64 : Z := 18446744073709551616.
Definition MinI64 : Z := - two63.
Definition MaxI64 : Z := two63 - 1.
Definition wrap64 (z : Z) : Z := (z + two63) mod two64 - two63.
Definition wrapU64 (z : Z) : Z := z mod two64.

(* ------------------------------------------------------------------ *)
(** * The underlying array cursor and the carry-over buffer [tmp] *)
Section Cursors.
Context {V : Type}.
Notation pt := (Z * V)%type.

(** [cursor.Next()]: the next array; [[]] when exhausted. *)
Definition pull (rest : list (list pt)) : list pt * list (list pt) :=
  match rest with [] => ([], []) | c :: r => (c, r) end.

(** [if c.tmp.Len() > 0 { a = c.tmp } else { a = c.cursor.Next() }] *)
Definition take_input (tmp : list pt) (rest : list (list pt)) : list pt * list (list pt) :=
  match tmp with [] => pull rest | _ => (tmp, rest) end.

(* ------------------------------------------------------------------ *)
(** * count / sum / min / max / mean : the generated WINDOWS loop *)
Section Acc.
Context {R A : Type}.
Variable stop_of : Z -> Z.
Variable zero : bool.
Variable B : N.

Record kernel := {
  k_init : A;                      (* accumulator at the top of Next() *)
  k_reset : A -> A;                (* "start the new window" *)
  k_step : bool -> A -> pt -> A;   (* else-branch; the bool is windowHasPoints *)
  k_emit : Z -> A -> Z * R         (* (res.Timestamps[pos], res.Values[pos]) given windowEnd *)
}.
Variable K : kernel.

Inductive ires :=
| TCont (acc : A) (has : bool) (wend : Z) (pos : N)   (* array read completely *)
| TFull (tmp : list pt)                               (* output full: remaining input saved in tmp *)
| TDiverge.                                           (* the Go loop would spin: stop_of ts <= ts *)

Definition emit_if (has : bool) (wend : Z) (acc : A) : list (Z * R) :=
  if has then [k_emit K wend acc] else [].

(** The inner [for ; rowIdx < a.Len(); rowIdx++] loop over the current array.  Returns the
    result points written by it (in order) and how it ended.  In the Go code the branch
    "new window detected" ends with [continue WINDOWS], which re-enters the loop at the SAME
    row with the new [windowEnd]; that second visit is inlined here: it takes the else-branch
    when [ts < stop_of ts] and otherwise repeats forever ([TDiverge]). *)
Fixpoint inner (a : list pt) (acc : A) (has : bool) (wend : Z) (pos : N) : list (Z * R) * ires :=
  match a with
  | [] => ([], TCont acc has wend pos)
  | p :: a' =>
      let ts := fst p in
      if negb zero && (wend <=? ts) then
        if has && (B <=? pos + 1)%N then ([k_emit K wend acc], TFull a)
        else
          let pos' := if has then (pos + 1)%N else pos in
          let wend' := stop_of ts in
          if wend' <=? ts then (emit_if has wend acc, TDiverge)
          else
            let '(o, r) := inner a' (k_step K false (k_reset K acc) p) true wend' pos' in
            (emit_if has wend acc ++ o, r)
      else inner a' (k_step K has acc p) true wend pos
  end.

(** The outer [WINDOWS: for { ...; a = cursor.Next(); if a.Len() == 0 { final point; break } }]. *)
Fixpoint outer (rest : list (list pt)) (a : list pt) (acc : A) (has : bool) (wend : Z) (pos : N)
  : option (list (Z * R) * (list pt * list (list pt))) :=
  match inner a acc has wend pos with
  | (o, TDiverge) => None
  | (o, TFull tmp') => Some (o, (tmp', rest))
  | (o, TCont acc' has' wend' pos') =>
      match rest with
      | [] => Some (o ++ emit_if has' wend' acc', ([], []))
      | [] :: rest' => Some (o ++ emit_if has' wend' acc', ([], rest'))
      | c :: rest' =>
          match outer rest' c acc' has' wend' pos' with
          | Some (o', st) => Some (o ++ o', st)
          | None => None
          end
      end
  end.

(** One call of [Next()]: state = (tmp, remaining arrays of the underlying cursor). *)
Definition next_acc (st : list pt * list (list pt)) : option (list (Z * R) * (list pt * list (list pt))) :=
  let '(a, rest1) := take_input (fst st) (snd st) in
  match a with
  | [] => Some ([], ([], rest1))
  | p :: _ =>
      let wend := if zero then MaxI64 else stop_of (fst p) in
      outer rest1 a (k_init K) false wend 0%N
  end.

(** The consumer: call [Next()] until it returns an empty array. *)
Fixpoint run_acc (fuel : nat) (st : list pt * list (list pt)) : option (list (list (Z * R))) :=
  match fuel with
  | O => None
  | S f =>
      match next_acc st with
      | None => None
      | Some ([], _) => Some []
      | Some (o, st') => match run_acc f st' with Some os => Some (o :: os) | None => None end
      end
  end.

(** What the loop computes on a flat series, without arrays and without output blocks. *)
Fixpoint scan (l : list pt) (acc : A) (has : bool) (wend : Z) : list (Z * R) :=
  match l with
  | [] => emit_if has wend acc
  | p :: l' =>
      if negb zero && (wend <=? fst p)
      then emit_if has wend acc ++ scan l' (k_step K false (k_reset K acc) p) true (stop_of (fst p))
      else scan l' (k_step K has acc p) true wend
  end.
Definition scan_fresh (l : list pt) : list (Z * R) :=
  match l with
  | [] => []
  | p :: _ => scan l (k_init K) false (if zero then MaxI64 else stop_of (fst p))
  end.

(** Fold of one window's points through the kernel, from the initial accumulator. *)
Fixpoint kfold (g : list pt) (acc : A) (has : bool) : A :=
  match g with [] => acc | p :: g' => kfold g' (k_step K has acc p) true end.
End Acc.

(* ------------------------------------------------------------------ *)
(** * first : [*WindowFirstArrayCursor.Next] ([c.windowEnd] persists across calls) *)
Section First.
Variable stop_of : Z -> Z.
Variable B : N.

Inductive fres := FCont (wend : Z) (n : N) | FFull (wend : Z) (tmp : list pt).

Fixpoint first_inner (a : list pt) (wend : Z) (n : N) : list pt * fres :=
  match a with
  | [] => ([], FCont wend n)
  | p :: a' =>
      if fst p <? wend then first_inner a' wend n
      else
        let wend' := stop_of (fst p) in
        if (n + 1 =? B)%N then ([p], FFull wend' a')
        else let '(o, r) := first_inner a' wend' (n + 1)%N in (p :: o, r)
  end.

(** the [NEXT: ... goto NEXT] loop; state = (tmp, rest, windowEnd) *)
Fixpoint first_outer (rest : list (list pt)) (a : list pt) (wend : Z) (n : N)
  : list pt * (list pt * list (list pt) * Z) :=
  match first_inner a wend n with
  | (o, FFull wend' tmp') => (o, (tmp', rest, wend'))
  | (o, FCont wend' n') =>
      match rest with
      | [] => (o, ([], [], wend'))
      | [] :: rest' => (o, ([], rest', wend'))
      | c :: rest' => let '(o', st) := first_outer rest' c wend' n' in (o ++ o', st)
      end
  end.

Definition next_first (st : list pt * list (list pt) * Z) : list pt * (list pt * list (list pt) * Z) :=
  let '(tmp, rest, wend) := st in
  let '(a, rest1) := take_input tmp rest in
  match a with
  | [] => ([], ([], rest1, wend))
  | _ => first_outer rest1 a wend 0%N
  end.

Fixpoint run_first (fuel : nat) (st : list pt * list (list pt) * Z) : option (list (list pt)) :=
  match fuel with
  | O => None
  | S f =>
      match next_first st with
      | ([], _) => Some []
      | (o, st') => match run_first f st' with Some os => Some (o :: os) | None => None end
      end
  end.

Fixpoint scan_first (l : list pt) (wend : Z) : list pt :=
  match l with
  | [] => []
  | p :: l' => if fst p <? wend then scan_first l' wend else p :: scan_first l' (stop_of (fst p))
  end.
End First.

(* ------------------------------------------------------------------ *)
(** * last : [*WindowLastArrayCursor.Next]

    [res[0..cur-1]] are final once [cur] has moved on; [res[cur]] is the only slot still
    being overwritten: it is [pending] here, and a slot is appended to the output when it
    becomes final.  [cur = -1] with no increment would index [res[-1]] ([LPanic]). *)
Section Last.
Variable stop_of : Z -> Z.
Variable B : Z.

Inductive lres := LCont (cur : Z) (wend : Z) (pending : option pt) | LFull (wend : Z) (tmp : list pt) | LPanic.

Definition opt_list {X} (o : option X) : list X := match o with Some x => [x] | None => [] end.

Fixpoint last_inner (a : list pt) (cur : Z) (wend : Z) (pending : option pt) : list pt * lres :=
  match a with
  | [] => ([], LCont cur wend pending)
  | p :: a' =>
      let newwin := wend <=? fst p in
      let cur' := if newwin then cur + 1 else cur in
      if cur' =? B then (opt_list pending, LFull wend a)
      else if cur' <? 0 then ([], LPanic)
      else
        let '(o, r) := last_inner a' cur' (stop_of (fst p)) (Some p) in
        ((if newwin then opt_list pending else []) ++ o, r)
  end.

Fixpoint last_outer (rest : list (list pt)) (a : list pt) (cur wend : Z) (pending : option pt)
  : option (list pt * (list pt * list (list pt) * Z)) :=
  match last_inner a cur wend pending with
  | (o, LPanic) => None
  | (o, LFull wend' tmp') => Some (o, (tmp', rest, wend'))
  | (o, LCont cur' wend' pending') =>
      match rest with
      | [] => Some (o ++ opt_list pending', ([], [], wend'))
      | [] :: rest' => Some (o ++ opt_list pending', ([], rest', wend'))
      | c :: rest' =>
          match last_outer rest' c cur' wend' pending' with
          | Some (o', st) => Some (o ++ o', st)
          | None => None
          end
      end
  end.

Definition next_last (st : list pt * list (list pt) * Z) : option (list pt * (list pt * list (list pt) * Z)) :=
  let '(tmp, rest, wend) := st in
  let '(a, rest1) := take_input tmp rest in
  match a with
  | [] => Some ([], ([], rest1, wend))
  | _ => last_outer rest1 a (-1) wend None
  end.

Fixpoint run_last (fuel : nat) (st : list pt * list (list pt) * Z) : option (list (list pt)) :=
  match fuel with
  | O => None
  | S f =>
      match next_last st with
      | None => None
      | Some ([], _) => Some []
      | Some (o, st') => match run_last f st' with Some os => Some (o :: os) | None => None end
      end
  end.

Fixpoint scan_last (l : list pt) (wend : Z) (pending : option pt) : list pt :=
  match l with
  | [] => opt_list pending
  | p :: l' =>
      (if wend <=? fst p then opt_list pending else []) ++ scan_last l' (stop_of (fst p)) (Some p)
  end.
End Last.

(* ------------------------------------------------------------------ *)
(** * limit : [*LimitArrayCursor.Next] (first/last without a window) *)
Definition next_limit (st : bool * list (list pt)) : list pt * (bool * list (list pt)) :=
  let '(done, rest) := st in
  if done then ([], (true, rest))
  else let '(a, rest1) := pull rest in
       match a with [] => ([], (false, rest1)) | p :: _ => ([p], (true, rest1)) end.

Definition run_limit (rest : list (list pt)) : list (list pt) :=
  match next_limit (false, rest) with ([], _) => [] | (o, _) => [o] end.

(* ------------------------------------------------------------------ *)
(** * The reference: group the raw points by window and aggregate each group *)
Section Reference.
Variable stop_of : Z -> Z.

(** the distinct window stops, in order of first occurrence *)
Fixpoint dedupZ (seen : list Z) (l : list Z) : list Z :=
  match l with
  | [] => []
  | x :: r => if existsb (Z.eqb x) seen then dedupZ seen r else x :: dedupZ (x :: seen) r
  end.
Definition in_window (w : Z) (p : pt) : bool := stop_of (fst p) =? w.
(** every point tagged with its window stop (computed once per point) *)
Definition keyed (l : list pt) : list (Z * pt) := map (fun p => (stop_of (fst p), p)) l.
Definition windows_of (l : list pt) : list Z := dedupZ [] (map fst (keyed l)).

(** [ref_groups l]: for every distinct window stop [w] (in order of first occurrence) the
    points of [l] whose window stops at [w];  [reference agg l]: one output per non-empty
    window, [agg w group]. *)
Definition ref_groups (l : list pt) : list (Z * list pt) :=
  let kl := keyed l in
  map (fun w => (w, map snd (filter (fun kp => fst kp =? w) kl))) (dedupZ [] (map fst kl)).
Definition reference {O} (agg : Z -> list pt -> O) (l : list pt) : list O :=
  map (fun wg => agg (fst wg) (snd wg)) (ref_groups l).

(** the same grouping as one left-to-right pass (consecutive runs) *)
Fixpoint groups_aux (w : Z) (cur : list pt) (l : list pt) : list (Z * list pt) :=
  match l with
  | [] => [(w, rev cur)]
  | p :: l' =>
      if w <=? fst p then (w, rev cur) :: groups_aux (stop_of (fst p)) [p] l'
      else groups_aux w (p :: cur) l'
  end.
Definition groups (l : list pt) : list (Z * list pt) :=
  match l with [] => [] | p :: l' => groups_aux (stop_of (fst p)) [p] l' end.
End Reference.

Fixpoint sortedb (l : list pt) : bool :=
  match l with
  | p :: ((q :: _) as r) => (fst p <=? fst q) && sortedb r
  | _ => true
  end.
End Cursors.

Arguments kernel : clear implicits.

(** the concrete nanosecond window of [interval.Window] with period = every, UTC:
    [lastIndex(zero, t, every)] is floor division; stop = zero + every*index + every. *)
Definition ns_stop (every off : Z) (t : Z) : Z := ((t - off) / every + 1) * every + off.
Definition ns_start (every off : Z) (t : Z) : Z := ((t - off) / every) * every + off.

(** Calendar-month windows of [interval.Window] (every = period = n months, offset 0, UTC):
    [lastIndex] works in "months since the epoch" and the bounds are first-of-month instants:
    stop = start of month [(monthsSince(t) div n + 1) * n].  The window function is written
    over a pair (month_of, month_start); the concrete pair is the proleptic Gregorian calendar
    (days <-> civil date, the standard era/day-of-era algorithm, all divisions flooring). *)
Definition month_stop_gen (month_of month_start : Z -> Z) (n : Z) (t : Z) : Z :=
  month_start ((month_of t / n + 1) * n).

Definition ns_per_day : Z := 86400000000000.
(** (year, month 1..12) of the day number [z] (days since 1970-01-01) *)
Definition civil_ym_of_days (z0 : Z) : Z * Z :=
  let z := z0 + 719468 in
  let era := z / 146097 in
  let doe := z - era * 146097 in
  let yoe := (doe - doe / 1460 + doe / 36524 - doe / 146096) / 365 in
  let doy := doe - (365 * yoe + yoe / 4 - yoe / 100) in
  let mp := (5 * doy + 2) / 153 in
  let m := if mp <? 10 then mp + 3 else mp - 9 in
  let y := yoe + era * 400 in
  ((if m <=? 2 then y + 1 else y), m).
(** day number of the first day of month [m] of year [y] *)
Definition days_of_civil (y0 m : Z) : Z :=
  let y := if m <=? 2 then y0 - 1 else y0 in
  let era := y / 400 in
  let yoe := y - era * 400 in
  let doy := (153 * (if 2 <? m then m - 3 else m + 9) + 2) / 5 in
  let doe := yoe * 365 + yoe / 4 - yoe / 100 + doy in
  era * 146097 + doe - 719468.
(** monthsSince(t) and the first instant of month number [k] (0 = 1970-01) *)
Definition month_of (t : Z) : Z :=
  let '(y, m) := civil_ym_of_days (t / ns_per_day) in (y - 1970) * 12 + (m - 1).
Definition month_start (k : Z) : Z := days_of_civil (1970 + k / 12) (k mod 12 + 1) * ns_per_day.
Definition month_stop (n : Z) (t : Z) : Z := month_stop_gen month_of month_start n t.

(* ------------------------------------------------------------------ *)
(** * Value types and the seven aggregates *)
Definition sf := spec_float.
Definition SFofZ (z : Z) : sf := binary_normalize 53 1024 z 0 false.
Definition sf_eqb (a b : sf) : bool :=
  match a, b with
  | S754_zero s, S754_zero s' => Bool.eqb s s'
  | S754_infinity s, S754_infinity s' => Bool.eqb s s'
  | S754_nan, S754_nan => true
  | S754_finite s m e, S754_finite s' m' e' => Bool.eqb s s' && Pos.eqb m m' && Z.eqb e e'
  | _, _ => false
  end.

(** A field value.  Strings are interned by the driver (only compared for equality). *)
Inductive val := VI (z : Z) | VU (z : Z) | VF (f : sf) | VB (b : bool) | VS (s : N).
Inductive ty := TInt | TUint | TFloat | TBool | TStr.
Inductive aggk := Count | Sum | Min | Max | Mean | First | Last.

Definition val_eqb (a b : val) : bool :=
  match a, b with
  | VI x, VI y => Z.eqb x y
  | VU x, VU y => Z.eqb x y
  | VF x, VF y => sf_eqb x y
  | VB x, VB y => Bool.eqb x y
  | VS x, VS y => N.eqb x y
  | _, _ => false
  end.

(** Go [+] on the accumulator ([int64]/[uint64] wrap, [float64] IEEE add) *)
Definition v_add (a b : val) : val :=
  match a, b with
  | VI x, VI y => VI (wrap64 (x + y))
  | VU x, VU y => VU (wrapU64 (x + y))
  | VF x, VF y => VF (SFadd 53 1024 x y)
  | _, _ => a
  end.
(** Go [<] *)
Definition v_lt (a b : val) : bool :=
  match a, b with
  | VI x, VI y => x <? y
  | VU x, VU y => x <? y
  | VF x, VF y => SFltb x y
  | _, _ => false
  end.
Definition v_zero (t : ty) : val :=
  match t with TInt => VI 0 | TUint => VU 0 | TFloat => VF (S754_zero false)
             | TBool => VB false | TStr => VS 0%N end.
(** [float64(sum)] *)
Definition v_toF (a : val) : sf :=
  match a with VI x => SFofZ x | VU x => SFofZ x | VF x => x | _ => S754_nan end.
Definition v_mean (sum : val) (count : Z) : val := VF (SFdiv 53 1024 (v_toF sum) (SFofZ count)).

(** kernels: accumulator = (tsAcc, acc, count) *)
Definition kacc := (Z * val * Z)%type.
Definition K_count : kernel val val kacc := {|
  k_init := (0, VI 0, 0);
  k_reset := fun _ => (0, VI 0, 0);
  k_step := fun _ a _ => let '(t, v, n) := a in (t, v, wrap64 (n + 1));
  k_emit := fun w a => let '(_, _, n) := a in (w, VI n) |}.
Definition K_sum (t : ty) : kernel val val kacc := {|
  k_init := (0, v_zero t, 0);
  k_reset := fun _ => (0, v_zero t, 0);
  k_step := fun _ a p => let '(ts, v, n) := a in (ts, v_add v (snd p), n);
  k_emit := fun w a => let '(_, v, _) := a in (w, v) |}.
Definition K_mean (t : ty) : kernel val val kacc := {|
  k_init := (0, v_zero t, 0);
  k_reset := fun _ => (0, v_zero t, 0);
  k_step := fun _ a p => let '(ts, v, n) := a in (ts, v_add v (snd p), wrap64 (n + 1));
  k_emit := fun w a => let '(_, v, n) := a in (w, v_mean v n) |}.
(** min/max: [tsAcc] is NOT reset at a window change in the Go code (it is always
    overwritten by the first point of the window); the initial [acc] (MaxFloat64, MaxInt64,
    ...) is likewise never observed, the type's zero stands for it here. *)
Definition K_sel (t : ty) (better : val -> val -> bool) : kernel val val kacc := {|
  k_init := (0, v_zero t, 0);
  k_reset := fun a => let '(ts, _, _) := a in (ts, v_zero t, 0);
  k_step := fun has a p => let '(ts, v, n) := a in
                           if negb has || better (snd p) v then (fst p, snd p, n) else a;
  k_emit := fun _ a => let '(ts, v, _) := a in (ts, v) |}.
Definition K_min t := K_sel t v_lt.
Definition K_max t := K_sel t (fun a b => v_lt b a).

(** The specification of each aggregate on one window's points [g] (non-empty, in time order)
    with window stop [w].  Independent of the kernels: plain list functions. *)
Definition sum_of (t : ty) (g : list (Z * val)) : val := fold_left v_add (map snd g) (v_zero t).
Fixpoint best_of (better : val -> val -> bool) (cur : Z * val) (g : list (Z * val)) : Z * val :=
  match g with
  | [] => cur
  | p :: g' => best_of better (if better (snd p) (snd cur) then p else cur) g'
  end.
Definition agg_spec (t : ty) (k : aggk) (w : Z) (g : list (Z * val)) : list (Z * val) :=
  match g with
  | [] => []
  | p0 :: g' =>
      match k with
      | Count => [(w, VI (wrap64 (Z.of_nat (length g))))]
      | Sum => [(w, sum_of t g)]
      | Mean => [(w, v_mean (sum_of t g) (wrap64 (Z.of_nat (length g))))]
      | Min => [best_of v_lt p0 g']
      | Max => [best_of (fun a b => v_lt b a) p0 g']
      | First => [p0]
      | Last => [last g' p0]
      end
  end.

(** which aggregates exist for which input type (array_cursor.gen.go dispatch) *)
Definition supported (t : ty) (k : aggk) : bool :=
  match k, t with
  | (Count | First | Last), _ => true
  | _, (TInt | TUint | TFloat) => true
  | _, _ => false
  end.

Definition Bblock : N := 1000.

(** The model of [newWindowAggregateArrayCursor] / [newAggregateArrayCursor] + consumer.
    [zero] = the request asked for the whole series (every = MaxInt64 -> zero Window). *)
Definition fuel_for {X} (chunks : list (list X)) : nat := length (concat chunks) + length chunks + 2.

Definition run_model (stop_of : Z -> Z) (zero : bool) (B : N) (t : ty) (k : aggk)
           (chunks : list (list (Z * val))) : option (list (list (Z * val))) :=
  let f := fuel_for chunks in
  match k with
  | Count => run_acc stop_of zero B K_count f ([], chunks)
  | Sum => run_acc stop_of zero B (K_sum t) f ([], chunks)
  | Mean => run_acc stop_of zero B (K_mean t) f ([], chunks)
  | Min => run_acc stop_of zero B (K_min t) f ([], chunks)
  | Max => run_acc stop_of zero B (K_max t) f ([], chunks)
  | First => if zero then Some (run_limit chunks) else run_first stop_of B f ([], chunks, MinI64)
  | Last => if zero then Some (run_limit chunks) else run_last stop_of (Z.of_N B) f ([], chunks, MinI64)
  end.

(** The oracle: reference over the flat series.  For the zero window every point is in the
    one window ending at MaxInt64.  ([Last] without a window is a limit cursor over a
    DESCENDING underlying cursor: the flat series handed to the oracle is re-sorted
    ascending by [rev].) *)
Definition oracle (stop_of : Z -> Z) (zero : bool) (t : ty) (k : aggk)
           (flat : list (Z * val)) : list (Z * val) :=
  if zero then agg_spec t k MaxI64 flat
  else concat (reference stop_of (agg_spec t k) flat).
(** the same with the grouping shared between the aggregates of one case *)
Definition oracle_from (gs : list (Z * list (Z * val))) (zero : bool) (t : ty) (k : aggk)
           (flat : list (Z * val)) : list (Z * val) :=
  if zero then agg_spec t k MaxI64 flat
  else concat (map (fun wg => agg_spec t k (fst wg) (snd wg)) gs).

(* ------------------------------------------------------------------ *)
(** * Correspondence case *)
Definition pt_eqb := pair_eqb Z.eqb val_eqb.
Definition arrs_eqb (a b : list (list (Z * val))) : bool := list_eqb (list_eqb pt_eqb) a b.

Record case := {
  c_ty : ty;
  c_zero : bool;                       (* whole-series request (WindowEvery = MaxInt64) *)
  c_every : Z; c_off : Z;              (* nanosecond window otherwise ... *)
  c_months : Z;                        (* ... or, when > 0, a calendar window of that many months (offset 0) *)
  c_chunks : list (list (Z * val));    (* ascending arrays the mock cursor served *)
  c_outs : list (aggk * list (list (Z * val)))  (* per aggregate: arrays the real cursor returned *)
}.

(** [Last] without a window reads the underlying cursor in DESCENDING order: the driver's
    mock serves the reversed arrays of the reversed list (the same chunking mirrored). *)
Definition served (c : case) (k : aggk) : list (list (Z * val)) :=
  match k with
  | Last => if c_zero c then rev (map (@rev _) (c_chunks c)) else c_chunks c
  | _ => c_chunks c
  end.

Definition case_stop (c : case) : Z -> Z :=
  if 0 <? c_months c then month_stop (c_months c) else ns_stop (c_every c) (c_off c).

Definition check_one (c : case) (flat : list (Z * val)) (gs : list (Z * list (Z * val)))
           (ko : aggk * list (list (Z * val))) : bool * bool :=
  let '(k, out) := ko in
  let st := case_stop c in
  let same := match run_model st (c_zero c) Bblock (c_ty c) k (served c k) with
              | Some m => arrs_eqb out m
              | None => false
              end in
  let ok := supported (c_ty c) k
            && list_eqb pt_eqb (concat out) (oracle_from gs (c_zero c) (c_ty c) k flat) in
  (same, ok).

Definition check (c : case) : verdict :=
  let flat := concat (c_chunks c) in
  let gs := if c_zero c then [] else ref_groups (case_stop c) flat in
  let rs := map (check_one c flat gs) (c_outs c) in
  judge (forallb fst rs) (forallb snd rs).
