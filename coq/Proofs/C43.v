(** C43 — property-level consequences of the invariant, and the counterexamples the
    faithful model yields for the unrestricted statements. *)
From Verif Require Import Base.Prelude Model.C43 Proofs.C43_base Proofs.C43_inv.
Local Open Scope N_scope.

(** the physical mappings of a state, as a relation *)
Definition live (st : state) (id : N) (r : rec) : Prop := lookup id (src st) = Some r.

(** at most one physical mapping per (org, db, rp) *)
Lemma pair_unique bk base ops :
  wf_bk bk base -> Forall (legal base) ops ->
  forall id1 id2 r1 r2, live (run bk base ops) id1 r1 -> live (run bk base ops) id2 r2 ->
    r_org r1 = r_org r2 -> r_db r1 = r_db r2 -> r_rp r1 = r_rp r2 -> id1 = id2 /\ r_bkt r1 = r_bkt r2.
Proof.
  intros W L id1 id2 r1 r2 H1 H2 E1 E2 E3.
  pose proof (inv_uniq _ _ (run_inv _ _ _ W L) id1 id2 r1 r2 H1 H2 E1 E2 E3) as E.
  split; [exact E|]. subst id2. unfold live in *. congruence.
Qed.

(** exactly one default per (org, db) that has a mapping *)
Lemma one_default_inv base st o d :
  Inv base st -> (exists id r, live st id r /\ r_org r = o /\ r_db r = d) ->
  exists id r, live st id r /\ r_org r = o /\ r_db r = d /\ is_default st o d id = true /\
               forall id', is_default st o d id' = true -> id' = id.
Proof.
  intros I [id0 [r0 [L0 [Ho Hd]]]]. pose proof (inv_dfl _ _ I o d) as D. unfold dfl_ok_at in D.
  destruct (dget o d (dfl st)) as [x|] eqn:G.
  - destruct D as [r [L [H1 H2]]]. exists x, r. unfold is_default. rewrite G, N.eqb_refl.
    repeat split; auto. intros id' H. apply N.eqb_eq in H. auto.
  - exfalso. apply (D id0). exists r0. auto.
Qed.

Lemma one_default bk base ops o d :
  wf_bk bk base -> Forall (legal base) ops ->
  (exists id r, live (run bk base ops) id r /\ r_org r = o /\ r_db r = d) ->
  exists id r, live (run bk base ops) id r /\ r_org r = o /\ r_db r = d /\
               is_default (run bk base ops) o d id = true /\
               forall id', is_default (run bk base ops) o d id' = true -> id' = id.
Proof. intros W L. apply one_default_inv with (base := base). apply run_inv; assumption. Qed.

(** the default index and the (org, db) index agree with the stored mappings *)
Lemma index_consistent bk base ops :
  wf_bk bk base -> Forall (legal base) ops ->
  let st := run bk base ops in
  (forall o d id, dget o d (dfl st) = Some id ->
     exists r, live st id r /\ r_org r = o /\ r_db r = d /\ find_by_id st o id = Some (rec2m id r true)) /\
  (forall o d, dget o d (dfl st) = None -> forall id r, live st id r -> ~ (r_org r = o /\ r_db r = d)) /\
  (forall o d id, In (o, d, id) (iod st) <-> exists r, live st id r /\ r_org r = o /\ r_db r = d).
Proof.
  intros W L st. pose proof (run_inv _ _ _ W L) as I. fold st in I. repeat split.
  - intros o d id G. pose proof (inv_dfl _ _ I o d) as D. unfold dfl_ok_at in D. rewrite G in D.
    destruct D as [r [Lk [H1 H2]]]. exists r. repeat split; auto.
    unfold find_by_id. unfold live in *. rewrite Lk, H1, N.eqb_refl. unfold is_default. rewrite H2, G, N.eqb_refl.
    reflexivity.
  - intros o d G id r Lk. pose proof (inv_dfl _ _ I o d) as D. unfold dfl_ok_at in D. rewrite G in D.
    intros [H1 H2]. apply (D id). exists r. auto.
  - apply (inv_idx _ _ I).
  - apply (inv_idx _ _ I).
Qed.

(** ---- counterexamples of the faithful model (replayed on the real code by the driver) ---- *)

(** buckets: 14 = org 1 "db" (plain), 15 = org 1 "zz" *)
Definition bk_shadow : list bucket := [B 14 1 1 0 true 0; B 15 1 3 0 true 1].
Definition ops_shadow : list op := [Create 1 1 2 15 false; Create 1 1 0 15 false].

(** after two legal creates the listing of (org 1, db) shows TWO mappings for (db, autogen)
    pointing to different buckets: the physical one (id 101 -> bucket 15) and the virtual
    one of the plain bucket "db" (id 14 -> bucket 14) *)
Lemma shadow_witness :
  Forall (legal 100) ops_shadow /\
  find_many (run bk_shadow 100 ops_shadow) (fod 1 1) =
    ROk [M 100 1 1 2 15 true false; M 101 1 1 0 15 false false; M 14 1 1 0 14 false true].
Proof. split; [repeat constructor; cbn; lia | vm_compute; reflexivity]. Qed.

(** buckets: 14 = org 1 "db/r1", 15 = org 1 "zz" *)
Definition bk_ghost : list bucket := [B 14 1 1 1 false 0; B 15 1 3 0 true 1].
Definition ops_ghost : list op :=
  [Create 1 1 2 15 false; Create 1 1 0 15 false; Update 1 14 1 true true].

(** updating the VIRTUAL mapping of bucket 14 stores an un-indexed record and points the
    default entry at it: database (1, db) has two physical mappings in its listing and none
    is the default, while the default lookup returns the un-indexed record *)
Lemma ghost_witness :
  let st := run bk_ghost 100 ops_ghost in
  find_many st (fod 1 1) =
    ROk [M 100 1 1 2 15 false false; M 101 1 1 0 15 false false; M 14 1 1 1 14 false true] /\
  find_many st (fdef 1 1) = ROk [M 14 1 1 1 14 true true] /\
  is_default st 1 1 100 = false /\ is_default st 1 1 101 = false /\
  ~ In (1, 1, 14) (iod st).
Proof. vm_compute. repeat split; try reflexivity. intros [H | [H | H]]; try discriminate; exact H. Qed.

(** ... and the listing without an org filter dereferences a nil default id when the
    un-indexed record's database has no default entry *)
Lemma ghost_panic_witness :
  find_many (run [B 14 2 1 1 false 0] 100 [Update 2 14 1 false true]) F0 = RPanic.
Proof. vm_compute. reflexivity. Qed.
