(** C13 — torn append: what a scan sees when only a prefix of the last entry reached the
    zero-filled segment. *)
From Verif Require Import Base.Prelude Model.C13 Proofs.C13_bytes Proofs.C13_inv.
From Coq Require Import ZifyBool ZifyNat ZifyN.
Ltac Zify.zify_post_hook ::= Z.div_mod_to_equations.
Open Scope N_scope.

Arguments byte_at : simpl never.

(** An entry as the real code writes it: id fits uint64; an insert carries a well-formed key
    whose body is shorter than 128 bytes (1-byte length varint). *)
Definition small_entry (e : entry) : Prop :=
  match e with
  | Ins id k => id < 2 ^ 64 /\ exists body, k = mk_key body /\ N.of_nat (length body) < 128
  | Tomb id => id < 2 ^ 64
  end.

Lemma read_key_torn body m : N.of_nat (length body) < 128 ->
  (m <= length (mk_key body))%nat -> (m <= length (read_key (firstn m (mk_key body))))%nat.
Proof.
  intros Hb Hm. unfold mk_key in *. rewrite put_uvarint_small in * by assumption.
  cbn [app length] in *. destruct m as [|m].
  - lia.
  - cbn [firstn]. unfold read_key. rewrite uvarint_one by assumption.
    rewrite take0_length. lia.
Qed.

(** At most one entry is decoded from the torn bytes. *)
Lemma scan_go_torn e n f pos : small_entry e -> (n <= length (enc e))%nat ->
  scan_go (S f) (firstn n (enc e)) pos = scan_go 1 (firstn n (enc e)) pos.
Proof.
  intros He Hn. destruct n as [|m]; [reflexivity|].
  destruct e as [id k | id]; cbn [enc firstn scan_go].
  - destruct He as [Hid [body [-> Hb]]].
    change (valid_flag FLAG_INS) with true. cbv iota.
    change (FLAG_INS =? FLAG_INS) with true. cbv iota.
    f_equal.
    set (r := firstn m (be64 id ++ mk_key body)).
    assert (Hr : (length r <= 8 + length (read_key (skipn 8 r)))%nat).
    { unfold r. rewrite skipn_firstn_comm.
      replace (skipn 8 (be64 id ++ mk_key body)) with (mk_key body) by reflexivity.
      rewrite firstn_length. cbn [enc length] in Hn. rewrite app_length, be64_length in *.
      pose proof (read_key_torn body (m - 8) Hb). lia. }
    rewrite (skipn_all2 r) by exact Hr. rewrite scan_go_nil. now destruct f.
  - change (valid_flag FLAG_TOMB) with true. cbv iota.
    change (FLAG_TOMB =? FLAG_INS) with false. cbv iota. f_equal.
    cbn [length Nat.add]. cbn [enc length] in Hn. rewrite be64_length in Hn.
    rewrite skipn_all2 by (rewrite firstn_length, be64_length; lia).
    rewrite scan_go_nil. now destruct f.
Qed.

(** The crash theorem at the byte level: every old entry is decoded unchanged at the same
    offset; the torn bytes contribute what one decoding step makes of them (at most one entry). *)
Theorem torn_scan L e n : Forall wf_entry L -> small_entry e -> (n <= length (enc e))%nat ->
  scan (bytes_of L ++ firstn n (enc e))
  = with_offsets L HDR ++ scan_go 1 (firstn n (enc e)) (HDR + N.of_nat (length (bytes_of L))).
Proof.
  intros HL He Hn. rewrite scan_app by assumption. f_equal.
  destruct n as [|m]; [cbn [firstn]; now rewrite !scan_go_nil|].
  set (F := (length (bytes_of L ++ firstn (S m) (enc e)) - length L)%nat).
  assert (HF : (1 <= F)%nat).
  { unfold F. pose proof (bytes_of_length_ge L). rewrite app_length, firstn_length.
    destruct e; cbn [enc length] in *; lia. }
  destruct F as [|F']; [lia|]. now apply scan_go_torn.
Qed.

(** What the torn entry looks like. *)
Definition torn_id (id : N) (m : nat) : N := be_dec (take0 8 (firstn m (be64 id))).

Lemma scan_go_1_torn_ins id k m pos :
  scan_go 1 (firstn (S m) (enc (Ins id k))) pos =
  [{| se_flag := FLAG_INS; se_id := be_dec (take0 8 (firstn m (be64 id ++ k))); se_off := pos;
      se_key := read_key (firstn (m - 8) k) |}].
Proof.
  cbn [enc firstn scan_go].
  change (valid_flag FLAG_INS) with true. cbv iota.
  change (FLAG_INS =? FLAG_INS) with true. cbv iota.
  rewrite skipn_firstn_comm. reflexivity.
Qed.

Lemma scan_go_1_torn_tomb id m pos :
  scan_go 1 (firstn (S m) (enc (Tomb id))) pos =
  [{| se_flag := FLAG_TOMB; se_id := torn_id id m; se_off := pos; se_key := [] |}].
Proof. reflexivity. Qed.

Lemma torn_id_app id k m : be_dec (take0 8 (firstn m (be64 id ++ k))) = torn_id id m.
Proof.
  unfold torn_id. rewrite firstn_app, be64_length.
  destruct (Nat.le_gt_cases 8 m) as [H|H].
  - rewrite !firstn_all2 by (rewrite be64_length; lia).
    cbn [be64 map app take0]. reflexivity.
  - replace (m - 8)%nat with 0%nat by lia. cbn [firstn]. now rewrite app_nil_r.
Qed.

(** Once the 8 id bytes are on disk the id is exact. *)
Lemma torn_id_full id m : id < 2 ^ 64 -> (8 <= m)%nat -> torn_id id m = id.
Proof.
  intros Hid Hm. unfold torn_id. rewrite firstn_all2 by (rewrite be64_length; lia).
  cbn [be64 map take0]. now apply be_dec_bytes.
Qed.

Lemma byte_at_small id i : id < 256 -> 1 <= i -> byte_at id i = 0.
Proof.
  intros Hid Hi. unfold byte_at.
  assert (256 <= 2 ^ (8 * i)).
  { change 256 with (2 ^ 8). apply N.pow_le_mono_r; lia. }
  rewrite N.div_small by lia. reflexivity.
Qed.

(** With ids below 256 (fewer than 32 series in the partition) a cut inside the id bytes
    leaves id 0 — the value that means "no series". *)
Lemma torn_id_small id m : id < 256 -> (m < 8)%nat -> torn_id id m = 0.
Proof.
  intros Hid Hm. unfold torn_id. cbn [be64 map].
  rewrite !(byte_at_small id) by (assumption || lia).
  do 8 (destruct m as [|m]; [reflexivity|]). lia.
Qed.

(** In general a cut after [m] id bytes keeps the high [m] bytes of the id and zeroes the rest:
    [torn_id id 7 = id - id mod 256], which for ids >= 256 is ANOTHER id. *)
Lemma torn_id_7 id : id < 2 ^ 64 -> torn_id id 7 = id - id mod 256.
Proof.
  intro Hid. unfold torn_id. cbn [be64 map firstn take0].
  pose proof (be_dec_bytes id Hid) as E. unfold be_dec in *. cbn [fold_left] in *.
  unfold byte_at in *. change (2 ^ (8 * 0)) with 1 in *. rewrite N.div_1_r in E. lia.
Qed.
