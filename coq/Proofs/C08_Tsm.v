(** C08 proofs: the TSM reader reads back the index section and the blocks that the
    serialisation lays out, and the writer state machine produces exactly that layout. *)
From Verif Require Import Base.Prelude Base.C08_BE Model.C08_File Proofs.C08_Tomb.

Definition wf_entry (e : entry) : Prop :=
  in_i64 (emin e) /\ in_i64 (emax e) /\ (eoff e < 18446744073709551616)%N /\ (esize e < 4294967296)%N.
Definition wf_ikey (ik : ikey) : Prop :=
  (N.of_nat (length (ik_key ik)) < 65536)%N /\ (N.of_nat (length (ik_ents ik)) < 65536)%N /\
  Forall wf_entry (ik_ents ik).

(** what directIndex.flush appends for one key *)
Definition ser_key (ik : ikey) : bytes :=
  u16 (N.of_nat (length (ik_key ik))) ++ ik_key ik ++ [ik_typ ik]
  ++ u16 (N.of_nat (length (ik_ents ik))) ++ flat_map enc_entry (ik_ents ik).
Definition ser_index (ks : list ikey) : bytes := flat_map ser_key ks.

Lemma enc_entry_length e : length (enc_entry e) = 28%nat.
Proof. unfold enc_entry. rewrite !app_length. unfold i64, u64, u32. rewrite !be_length. reflexivity. Qed.

Lemma parse_entry_enc e rest : wf_entry e -> parse_entry (enc_entry e ++ rest) = Some (e, rest).
Proof.
  intros [H1 [H2 [H3 H4]]]. unfold parse_entry, enc_entry. rewrite <- !app_assoc.
  rewrite (take_app_n 8) by apply i64_length. cbn [obind].
  rewrite (take_app_n 8) by apply i64_length. cbn [obind].
  rewrite (take_app_n 8) by apply be_length. cbn [obind].
  rewrite (take_app_n 4) by apply be_length. cbn [obind].
  rewrite !i64_rt by assumption. rewrite u64_rt, u32_rt by assumption. destruct e; reflexivity.
Qed.

Lemma parse_entries_enc es : forall rest, Forall wf_entry es ->
  parse_entries (length es) (flat_map enc_entry es ++ rest) = Some (es, rest).
Proof.
  induction es as [|e es IH]; intros rest Hwf; [reflexivity|].
  inversion Hwf; subst. cbn [length parse_entries flat_map]. rewrite <- app_assoc.
  rewrite parse_entry_enc by assumption. cbn [obind]. rewrite IH by assumption. reflexivity.
Qed.

Lemma parse_key_ser ik rest : wf_ikey ik -> parse_key (ser_key ik ++ rest) = Some (ik, rest).
Proof.
  intros [H1 [H2 H3]]. unfold parse_key, ser_key. rewrite <- !app_assoc.
  rewrite (take_app_n 2) by apply be_length. cbn [obind].
  rewrite u16_rt by exact H1. rewrite Nat2N.id, take_app. cbn [obind].
  change ([ik_typ ik] ++ ?x) with ([ik_typ ik] ++ x). rewrite (take_app_n 1 [ik_typ ik]) by reflexivity. cbn [obind].
  rewrite (take_app_n 2) by apply be_length. cbn [obind].
  rewrite u16_rt by exact H2. rewrite Nat2N.id, parse_entries_enc by exact H3. cbn [obind hd].
  destruct ik; reflexivity.
Qed.

Lemma ser_key_length ik : (5 <= length (ser_key ik))%nat.
Proof. unfold ser_key. rewrite !app_length. unfold u16. rewrite !be_length. cbn [length]. lia. Qed.

Lemma ser_index_length ks : (length ks <= length (ser_index ks))%nat.
Proof.
  unfold ser_index. induction ks as [|ik ks IH]; cbn [flat_map length]; [lia|].
  rewrite app_length. pose proof (ser_key_length ik). lia.
Qed.

Lemma parse_index_ser ks : forall fuel, (length ks <= fuel)%nat -> Forall wf_ikey ks ->
  parse_index fuel (ser_index ks) = Some ks.
Proof.
  induction ks as [|ik ks IH]; intros fuel Hf Hwf; [destruct fuel; reflexivity|].
  inversion Hwf; subst. destruct fuel as [|f]; [cbn in Hf; lia|].
  unfold ser_index. cbn [flat_map]. fold (ser_index ks).
  destruct (ser_key ik ++ ser_index ks) as [|x b] eqn:Eb.
  { pose proof (ser_key_length ik) as L. apply app_eq_nil in Eb as [Eb _]. rewrite Eb in L. cbn in L. lia. }
  cbn [parse_index]. rewrite <- Eb. rewrite parse_key_ser by assumption. cbn [obind].
  rewrite IH by (cbn in Hf; try lia; assumption). reflexivity.
Qed.

Lemma tsm_header_length : length tsm_header = 5%nat.
Proof. reflexivity. Qed.

(** header + footer framing: the reader finds exactly the index section *)
Lemma tsm_index_framed blocks ks : ks <> [] -> Forall wf_ikey ks ->
  let body := tsm_header ++ blocks in
  (N.of_nat (length body) < 18446744073709551616)%N ->
  tsm_index (body ++ ser_index ks ++ u64 (N.of_nat (length body))) = Some ks.
Proof.
  intros Hne Hwf body Hlen. unfold tsm_index.
  assert (Hidx : (1 <= length (ser_index ks))%nat).
  { pose proof (ser_index_length ks). destruct ks; [congruence|cbn [length] in *; lia]. }
  set (file := body ++ ser_index ks ++ u64 (N.of_nat (length body))).
  assert (Htake : take 5 file = Some (tsm_header, blocks ++ ser_index ks ++ u64 (N.of_nat (length body)))).
  { unfold file, body. rewrite <- app_assoc. apply take_app_n. reflexivity. }
  rewrite Htake. cbn [obind]. rewrite bytes_eqb_refl. cbn [negb].
  assert (Hfl : length file = (length body + length (ser_index ks) + 8)%nat).
  { unfold file. rewrite !app_length. unfold u64. rewrite be_length. lia. }
  destruct (Nat.ltb_spec (length file) 8) as [Hl|Hl]; [lia|].
  assert (Hskip : skipn (length file - 8) file = u64 (N.of_nat (length body))).
  { unfold file at 2. rewrite app_assoc. rewrite skipn_app.
    replace (length file - 8)%nat with (length (body ++ ser_index ks)) by (rewrite app_length; lia).
    rewrite skipn_all, Nat.sub_diag. reflexivity. }
  rewrite Hskip, u64_rt by exact Hlen. rewrite Nat2N.id.
  destruct (Nat.leb_spec (length file - 8) (length body)) as [Hle|Hgt]; [lia|].
  replace (length file - 8 - length body)%nat with (length (ser_index ks)) by lia.
  unfold file. rewrite slice_app. apply parse_index_ser; [apply ser_index_length|exact Hwf].
Qed.

Section TsmProofs.
  Variable crc : bytes -> N.
  Hypothesis crc_u32 : forall b, (crc b < 4294967296)%N.

  (** a block laid out at the offset and with the size its index entry says is read back *)
  Lemma read_block_framed pre post b e :
    eoff e = N.of_nat (length pre) -> esize e = N.of_nat (length (frame crc b)) ->
    read_block (pre ++ frame crc b ++ post) e = Some (crc b, b).
  Proof.
    intros Ho Hs. unfold read_block. rewrite Ho, Hs, !Nat2N.id.
    destruct (Nat.ltb_spec (length (pre ++ frame crc b ++ post)) (length pre + length (frame crc b))) as [H|H].
    { rewrite !app_length in H. lia. }
    rewrite slice_app. unfold frame. rewrite (take_app_n 4) by apply be_length. cbn [obind].
    rewrite u32_rt by apply crc_u32. reflexivity.
  Qed.

  (** ** the file layout for grouped input: per key a list of (min, max, block) *)
  Definition blk := (Z * Z * bytes)%type.
  Definition flen (b : blk) : N := N.of_nat (length (frame crc (snd b))).
  Fixpoint ents_of (off : N) (bs : list blk) : list entry :=
    match bs with
    | [] => []
    | b :: r => E (fst (fst b)) (snd (fst b)) off (flen b) :: ents_of (off + flen b) r
    end.
  Definition frames (bs : list blk) : bytes := flat_map (fun b => frame crc (snd b)) bs.
  Definition typ_of (bs : list blk) : N := match bs with b :: _ => hd 0%N (snd b) | [] => 0%N end.
  Fixpoint ikeys_of (off : N) (gs : list (key * list blk)) : list ikey :=
    match gs with
    | [] => []
    | (k, bs) :: r => IK k (typ_of bs) (ents_of off bs) :: ikeys_of (off + N.of_nat (length (frames bs))) r
    end.
  Definition all_frames (gs : list (key * list blk)) : bytes := flat_map (fun g => frames (snd g)) gs.
  Definition layout (gs : list (key * list blk)) : bytes :=
    let body := tsm_header ++ all_frames gs in
    body ++ ser_index (ikeys_of 5 gs) ++ u64 (N.of_nat (length body)).
  (** what must be read back: key, type, and per block its entry, checksum and bytes *)
  Definition expect_blocks (off : N) (bs : list blk) : list (entry * N * bytes) :=
    combine (combine (ents_of off bs) (map (fun b => crc (snd b)) bs)) (map (fun b => snd b) bs).
  Fixpoint expect (off : N) (gs : list (key * list blk)) : list (key * N * list (entry * N * bytes)) :=
    match gs with
    | [] => []
    | (k, bs) :: r => (k, typ_of bs, expect_blocks off bs) :: expect (off + N.of_nat (length (frames bs))) r
    end.

  Lemma read_blocks_framed bs : forall pre post,
    read_blocks (pre ++ frames bs ++ post) (ents_of (N.of_nat (length pre)) bs)
    = Some (expect_blocks (N.of_nat (length pre)) bs).
  Proof.
    induction bs as [|b r IH]; intros pre post; [reflexivity|].
    cbn [ents_of read_blocks frames flat_map]. fold (frames r). rewrite <- app_assoc.
    rewrite read_block_framed by reflexivity. cbn [obind].
    assert (E : (N.of_nat (length pre) + flen b)%N = N.of_nat (length (pre ++ frame crc (snd b)))).
    { unfold flen. rewrite app_length, Nat2N.inj_add. reflexivity. }
    rewrite E. replace (pre ++ frame crc (snd b) ++ frames r ++ post) with ((pre ++ frame crc (snd b)) ++ frames r ++ post)
      by (rewrite <- app_assoc; reflexivity).
    rewrite IH. cbn [obind]. unfold expect_blocks. cbn [ents_of map combine]. rewrite E. reflexivity.
  Qed.

  Lemma read_keys_framed gs : forall pre post,
    read_keys (pre ++ all_frames gs ++ post) (ikeys_of (N.of_nat (length pre)) gs)
    = Some (expect (N.of_nat (length pre)) gs).
  Proof.
    induction gs as [|[k bs] r IH]; intros pre post; [reflexivity|].
    cbn [ikeys_of read_keys all_frames flat_map snd ik_ents ik_key ik_typ expect]. fold (all_frames r).
    rewrite <- app_assoc. rewrite read_blocks_framed. cbn [obind].
    assert (E : (N.of_nat (length pre) + N.of_nat (length (frames bs)))%N = N.of_nat (length (pre ++ frames bs))).
    { rewrite app_length, Nat2N.inj_add. reflexivity. }
    rewrite E. replace (pre ++ frames bs ++ all_frames r ++ post) with ((pre ++ frames bs) ++ all_frames r ++ post)
      by (rewrite <- app_assoc; reflexivity).
    rewrite IH. reflexivity.
  Qed.

  (** reader after layout = identity: keys, types, index entries, checksums and block bytes *)
  Lemma tsm_read_layout gs : gs <> [] -> Forall wf_ikey (ikeys_of 5 gs) ->
    (N.of_nat (length (tsm_header ++ all_frames gs)) < 18446744073709551616)%N ->
    tsm_read (layout gs) = Some (expect 5 gs).
  Proof.
    intros Hne Hwf Hlen. unfold tsm_read, layout. cbv zeta.
    rewrite tsm_index_framed; auto.
    - cbn [obind]. rewrite <- app_assoc.
      exact (read_keys_framed gs tsm_header (ser_index (ikeys_of 5 gs) ++ u64 (N.of_nat (length (tsm_header ++ all_frames gs))))).
    - destruct gs as [|[k bs] r]; [congruence|discriminate].
  Qed.
End TsmProofs.

(** ** the writer's limits *)
Lemma write_block_key_too_long crc s k mn mx b :
  (65535 < N.of_nat (length k))%N -> write_block crc s k mn mx b = (s, 1%N).
Proof.
  intro H. unfold write_block, key_too_long, max_key_len.
  destruct (N.ltb_spec 65535 (N.of_nat (length k))); [reflexivity|lia].
Qed.

Lemma write_block_empty crc s k mn mx :
  (N.of_nat (length k) <= 65535)%N -> write_block crc s k mn mx [] = (s, 0%N).
Proof.
  intro H. unfold write_block, key_too_long, max_key_len.
  destruct (N.ltb_spec 65535 (N.of_nat (length k))); [lia|reflexivity].
Qed.

Lemma write_index_no_values s : w_cnt s = 0%N -> write_index s = None.
Proof. intro H. unfold write_index. rewrite H. reflexivity. Qed.

Lemma flush_limit s : w_key s <> [] ->
  (w_fail (flush s) = true <-> w_fail s = true \/ (65535 < N.of_nat (length (w_ents s)))%N).
Proof.
  intro Hk. unfold flush, max_entries. destruct (w_key s) eqn:E; [congruence|].
  destruct (N.ltb_spec 65535 (N.of_nat (length (w_ents s)))); cbn [w_fail]; split; auto; try tauto.
  intros [A|A]; [exact A|lia].
Qed.

Lemma status_after_spec cnt : status_after cnt = if (65535 <=? cnt)%N then 2%N else 0%N.
Proof. reflexivity. Qed.
