(** C09 — Cache behaves as a size-bounded newest-wins map.

    Sequential mirror of [tsdb/engine/tsm1/cache.go] (Cache.WriteMulti, Snapshot,
    ClearSnapshot, DeleteRange, Delete, Values, Size, Keys; entry.add,
    newEntryValues, entry.deduplicate, entry.filter), [ring.go] (partition.write /
    remove / keys: a map key -> *entry; the 16-way partitioning is invisible
    sequentially) and of [Values.Deduplicate], [Values.Size], [Values.Exclude]
    (encoding.gen.go) and [Value.Size] (encoding.go).

    Faithful points that matter (all confirmed on the real code):
    - entries hold the RAW appended values; only [Values] (both stores' entry of
      the key) and [DeleteRange] (hot entry) deduplicate them, in place, and
      [Values] does not touch [size];
    - [WriteMulti] checks the limit against [Size()+added] first, optimistically
      adds [added], subtracts a key's batch again on a type conflict, adds
      [len key] for a newly created key;
    - [entry.add] checks types only against the HOT entry's [vtype]; an entry without
      values (created by an empty write, [vtype] 0) requires a homogeneous batch, like
      [newEntryValues] for a new key;
    - [Snapshot]: error when snapshotting; the retry path (snapshot size > 0)
      returns the old snapshot without swapping; otherwise swap, snapshotSize :=
      Size(), size := 0;
    - [DeleteRange] touches only the hot store and subtracts the entry's CURRENT
      raw size.
    Sizes are mathematical integers ([Z]); [Proofs/C09.v] shows they never go
    negative on any history, so the uint64 wrap-around of [decreaseSize] is never
    exercised sequentially.  No proofs in this file. *)
From Verif Require Import Base.Prelude.
Local Open Scope Z_scope.

(** * Values *)
Inductive val :=
| VFloat (bits : N) | VInt (z : Z) | VStr (s : list N) | VBool (b : bool) | VUns (n : N).
Definition point := (Z * val)%type.
Definition tsof (p : point) : Z := fst p.

(** valueType (cache.go): float 1, integer 2, string 3, boolean 4, unsigned 5. *)
Definition vtype_of (v : val) : N :=
  match v with VFloat _ => 1 | VInt _ => 2 | VStr _ => 3 | VBool _ => 4 | VUns _ => 5 end%N.
(** Value.Size (encoding.go): 8 bytes of timestamp + payload. *)
Definition vsize (v : val) : Z :=
  match v with
  | VStr s => 8 + Z.of_nat (length s)
  | VBool _ => 9
  | _ => 16
  end.
Definition ptype (p : point) : N := vtype_of (snd p).
Fixpoint vals_size (l : list point) : Z :=
  match l with [] => 0 | p :: r => vsize (snd p) + vals_size r end.

Definition val_eqb (a b : val) : bool :=
  match a, b with
  | VFloat x, VFloat y => N.eqb x y
  | VInt x, VInt y => Z.eqb x y
  | VStr x, VStr y => list_eqb N.eqb x y
  | VBool x, VBool y => Bool.eqb x y
  | VUns x, VUns y => N.eqb x y
  | _, _ => false
  end.
Definition point_eqb (a b : point) : bool := Z.eqb (fst a) (fst b) && val_eqb (snd a) (snd b).

(** * Values.Deduplicate: if already strictly ascending return as is, else stable
      sort by timestamp and keep the LAST value of every run of equal timestamps. *)
Fixpoint insert (x : point) (l : list point) : list point :=
  match l with
  | [] => [x]
  | y :: r => if tsof x <=? tsof y then x :: l else y :: insert x r
  end.
Fixpoint isort (l : list point) : list point :=
  match l with [] => [] | x :: r => insert x (isort r) end.
Fixpoint keep_last (l : list point) : list point :=
  match l with
  | [] => []
  | x :: r => match r with
              | [] => [x]
              | y :: _ => if tsof x =? tsof y then keep_last r else x :: keep_last r
              end
  end.
Fixpoint strict_sorted_b (l : list point) : bool :=
  match l with
  | [] => true
  | x :: r => match r with
              | [] => true
              | y :: _ => (tsof x <? tsof y) && strict_sorted_b r
              end
  end.
Definition dedup (l : list point) : list point :=
  if strict_sorted_b l then l else keep_last (isort l).

(** Values.Exclude on a sorted deduplicated slice = drop the points in [mn,mx]
    (FindRange's binary search is abstracted; min > max leaves the slice alone). *)
Definition in_range (mn mx : Z) (p : point) : bool := (mn <=? tsof p) && (tsof p <=? mx).
Definition exclude (mn mx : Z) (l : list point) : list point :=
  filter (fun p => negb (in_range mn mx p)) l.

(** * Keys, entries, stores *)
Definition key := list N.            (* the key's bytes *)
Definition key_eqb : key -> key -> bool := list_eqb N.eqb.
Definition klen (k : key) : Z := Z.of_nat (length k).

Record entry := { evals : list point; evtype : N }.
Definition store := list (key * entry).

Fixpoint find_e (k : key) (st : store) : option entry :=
  match st with
  | [] => None
  | (k', e) :: r => if key_eqb k k' then Some e else find_e k r
  end.
Fixpoint upd_e (k : key) (e : entry) (st : store) : store :=
  match st with
  | [] => [(k, e)]
  | (k', e') :: r => if key_eqb k k' then (k, e) :: r else (k', e') :: upd_e k e r
  end.
Fixpoint rem_e (k : key) (st : store) : store :=
  match st with
  | [] => []
  | (k', e') :: r => if key_eqb k k' then rem_e k r else (k', e') :: rem_e k r
  end.

Definition all_type (t : N) (vs : list point) : bool := forallb (fun p => N.eqb (ptype p) t) vs.

(** newEntryValues *)
Definition new_entry (vs : list point) : option entry :=
  match vs with
  | [] => Some {| evals := []; evtype := 0 |}
  | p :: _ => if all_type (ptype p) vs then Some {| evals := vs; evtype := ptype p |} else None
  end.
(** entry.add: [None] = ErrFieldTypeConflict *)
Definition entry_add (e : entry) (vs : list point) : option entry :=
  match vs with
  | [] => Some e
  | p :: _ =>
      if negb (N.eqb (evtype e) 0) && negb (all_type (evtype e) vs) then None
      else match evals e with
           | [] => (* no type recorded yet: the batch must be homogeneous, as in newEntryValues *)
                   if all_type (ptype p) vs then Some {| evals := vs; evtype := ptype p |} else None
           | _ => Some {| evals := evals e ++ vs; evtype := evtype e |}
           end
  end.
(** partition.write: [None] = conflict, [Some (store, newKey)] *)
Definition key_write (oe : option entry) (vs : list point) : option entry :=
  match oe with Some e => entry_add e vs | None => new_entry vs end.
Definition write_key (st : store) (k : key) (vs : list point) : option (store * bool) :=
  match key_write (find_e k st) vs with
  | None => None
  | Some e' => Some (upd_e k e' st, match find_e k st with None => true | Some _ => false end)
  end.

(** * The cache *)
Record state := {
  hot : store; snap : store;
  size : Z; snapsize : Z; maxsize : Z;
  snapshotting : bool }.

Definition init (mx : Z) : state :=
  {| hot := []; snap := []; size := 0; snapsize := 0; maxsize := mx; snapshotting := false |}.

Definition cache_size (s : state) : Z := size s + snapsize s.

Definition batch := list (key * list point).
Fixpoint batch_size (b : batch) : Z :=
  match b with [] => 0 | (_, vs) :: r => vals_size vs + batch_size r end.

Inductive op :=
| OWrite (b : batch)
| OSnapshot
| OClear (success : bool)
| ODelRange (ks : list key) (mn mx : Z)
| ODelete (ks : list key)
| OValues (k : key)
| OSize
| OKeys.

Inductive resp :=
| ROk | RLimit | RConflict | RInProgress
| RSnap (n : Z)             (* Snapshot ok; Size() of the returned snapshot cache *)
| RVals (l : list point) | RSize (n : Z) | RKeys (ks : list key)
| ROther.                   (* anything the model never produces (panic, unknown error) *)

(** WriteMulti's loop over the batch: [sz] is c.size, already increased by addedSize. *)
Fixpoint write_loop (b : batch) (st : store) (sz : Z) (werr : bool) : store * Z * bool :=
  match b with
  | [] => (st, sz, werr)
  | (k, vs) :: r =>
      match write_key st k vs with
      | None => write_loop r st (sz - vals_size vs) true
      | Some (st', nk) => write_loop r st' (if nk then sz + klen k else sz) werr
      end
  end.

Definition over_limit (s : state) (b : batch) : bool :=
  (0 <? maxsize s) && (maxsize s <? cache_size s + batch_size b).

Definition write_multi (b : batch) (s : state) : state * resp :=
  if over_limit s b then (s, RLimit)
  else
    let '(st, sz, werr) := write_loop b (hot s) (size s + batch_size b) false in
    ({| hot := st; snap := snap s; size := sz; snapsize := snapsize s; maxsize := maxsize s;
        snapshotting := snapshotting s |},
     if werr then RConflict else ROk).

Definition do_snapshot (s : state) : state * resp :=
  if snapshotting s then (s, RInProgress)
  else if 0 <? snapsize s then
    ({| hot := hot s; snap := snap s; size := size s; snapsize := snapsize s; maxsize := maxsize s;
        snapshotting := true |}, RSnap (snapsize s))
  else
    ({| hot := []; snap := hot s; size := 0; snapsize := size s + snapsize s; maxsize := maxsize s;
        snapshotting := true |}, RSnap (size s + snapsize s)).

Definition clear_snapshot (success : bool) (s : state) : state :=
  if success then
    {| hot := hot s; snap := []; size := size s; snapsize := 0; maxsize := maxsize s;
       snapshotting := false |}
  else
    {| hot := hot s; snap := snap s; size := size s; snapsize := snapsize s; maxsize := maxsize s;
       snapshotting := false |}.

Definition MinInt64 : Z := -9223372036854775808.
Definition MaxInt64 : Z := 9223372036854775807.

Definition dedup_entry (e : entry) : entry := {| evals := dedup (evals e); evtype := evtype e |}.
(** entry.filter *)
Definition filter_entry (mn mx : Z) (e : entry) : entry :=
  {| evals := exclude mn mx (dedup (evals e)); evtype := evtype e |}.

Fixpoint del_loop (ks : list key) (mn mx : Z) (st : store) (sz : Z) : store * Z :=
  match ks with
  | [] => (st, sz)
  | k :: r =>
      match find_e k st with
      | None => del_loop r mn mx st sz
      | Some e =>
          let orig := vals_size (evals e) in
          if (mn =? MinInt64) && (mx =? MaxInt64) then
            del_loop r mn mx (rem_e k st) (sz - (orig + klen k))
          else
            let e' := filter_entry mn mx e in
            match evals e' with
            | [] => del_loop r mn mx (rem_e k st) (sz - (orig + klen k))
            | _ :: _ => del_loop r mn mx (upd_e k e' st) (sz - (orig - vals_size (evals e')))
            end
      end
  end.

Definition delete_range (ks : list key) (mn mx : Z) (s : state) : state :=
  let '(st, sz) := del_loop ks mn mx (hot s) (size s) in
  {| hot := st; snap := snap s; size := sz; snapsize := snapsize s; maxsize := maxsize s;
     snapshotting := snapshotting s |}.

Definition raw (k : key) (st : store) : list point :=
  match find_e k st with Some e => evals e | None => [] end.

Definition dedup_in (k : key) (st : store) : store :=
  match find_e k st with Some e => upd_e k (dedup_entry e) st | None => st end.

(** Cache.Values: deduplicates the hot and the snapshot entry IN PLACE (size untouched),
    returns Deduplicate(snapshot values ++ hot values). *)
Definition values (k : key) (s : state) : state * list point :=
  ({| hot := dedup_in k (hot s); snap := dedup_in k (snap s); size := size s;
      snapsize := snapsize s; maxsize := maxsize s; snapshotting := snapshotting s |},
   dedup (dedup (raw k (snap s)) ++ dedup (raw k (hot s)))).

(** Cache.Keys: sorted keys of the hot store whose entry is non-empty. *)
Fixpoint key_leb (a b : key) : bool :=
  match a, b with
  | [], _ => true
  | _ :: _, [] => false
  | x :: a', y :: b' => if N.ltb x y then true else if N.ltb y x then false else key_leb a' b'
  end.
Fixpoint kinsert (k : key) (l : list key) : list key :=
  match l with [] => [k] | y :: r => if key_leb k y then k :: l else y :: kinsert k r end.
Fixpoint ksort (l : list key) : list key :=
  match l with [] => [] | x :: r => kinsert x (ksort r) end.
Definition nonempty_entry (ke : key * entry) : bool :=
  match evals (snd ke) with [] => false | _ :: _ => true end.
Definition keys_of (st : store) : list key := ksort (map fst (filter nonempty_entry st)).

Definition step (s : state) (o : op) : state * resp :=
  match o with
  | OWrite b => write_multi b s
  | OSnapshot => do_snapshot s
  | OClear ok => (clear_snapshot ok s, ROk)
  | ODelRange ks mn mx => (delete_range ks mn mx s, ROk)
  | ODelete ks => (delete_range ks MinInt64 MaxInt64 s, ROk)
  | OValues k => let '(s', l) := values k s in (s', RVals l)
  | OSize => (s, RSize (cache_size s))
  | OKeys => (s, RKeys (keys_of (hot s)))
  end.

Definition run (s : state) (h : list op) : state := fold_left (fun s o => fst (step s o)) h s.

(** * The property's oracle (independent of [dedup], of the size counters and of
      [entry_add]): computed from the RAW content of the two stores. *)

(** what is actually held: every key and every raw value of both stores *)
Fixpoint held (st : store) : Z :=
  match st with [] => 0 | (k, e) :: r => klen k + vals_size (evals e) + held r end.
Definition held_all (s : state) : Z := held (hot s) + held (snap s).

(** the last point of [l] carrying timestamp [t] *)
Definition last_at (t : Z) (l : list point) : option point :=
  find (fun p => tsof p =? t) (rev l).
(** [r] is the time-sorted newest-wins view of [l] *)
Definition lastwins_b (l r : list point) : bool :=
  strict_sorted_b r
  && forallb (fun p => option_eqb point_eqb (last_at (tsof p) l) (Some p)) r
  && forallb (fun p => existsb (fun q => Z.eqb (tsof q) (tsof p)) r) l.

(** strict reading of "type conflicts with the key's existing type": some new value
    differs in type from a value held for the key (hot OR snapshot) or from another
    value of the same batch entry *)
Definition clash (s : state) (k : key) (vs : list point) : bool :=
  let held_pts := raw k (snap s) ++ raw k (hot s) in
  existsb (fun p => existsb (fun q => negb (N.eqb (ptype q) (ptype p))) (held_pts ++ vs)) vs.

Definition resp_eqb (a b : resp) : bool :=
  match a, b with
  | ROk, ROk | RLimit, RLimit | RConflict, RConflict | RInProgress, RInProgress => true
  | RSnap x, RSnap y => Z.eqb x y
  | RVals x, RVals y => list_eqb point_eqb x y
  | RSize x, RSize y => Z.eqb x y
  | RKeys x, RKeys y => list_eqb key_eqb x y
  | _, _ => false
  end.

Fixpoint keys_sorted_b (l : list key) : bool :=
  match l with
  | [] => true
  | x :: r => match r with
              | [] => true
              | y :: _ => key_leb x y && negb (key_eqb x y) && keys_sorted_b r
              end
  end.

(** [oracle s o r]: the implementation's response [r] to [o] in (model) pre-state [s]
    is what the PROPERTY demands. *)
Definition oracle (s : state) (o : op) (r : resp) : bool :=
  match o with
  | OWrite b =>
      let over := (0 <? maxsize s) && (maxsize s <? held_all s + batch_size b) in
      if over then resp_eqb r RLimit
      else if existsb (fun kv => clash s (fst kv) (snd kv)) b then resp_eqb r RConflict
      else resp_eqb r ROk
  | OSnapshot =>
      if snapshotting s then resp_eqb r RInProgress
      else match r with RSnap _ => true | _ => false end
  | OClear _ | ODelRange _ _ _ | ODelete _ => resp_eqb r ROk
  | OValues k =>
      match r with RVals l => lastwins_b (raw k (snap s) ++ raw k (hot s)) l | _ => false end
  | OSize => resp_eqb r (RSize (held_all s))
  | OKeys =>
      match r with
      | RKeys ks =>
          keys_sorted_b ks
          && forallb (fun k => match raw k (hot s) with [] => false | _ => true end) ks
          && forallb (fun ke => negb (nonempty_entry ke) || existsb (key_eqb (fst ke)) ks) (hot s)
      | _ => false
      end
  end.

(** * Correspondence case: the limit and one whole history with the responses the
      real Cache gave. *)
Record case := { c_max : Z; c_hist : list (op * resp) }.

Fixpoint run_check (s : state) (h : list (op * resp)) (same ok : bool) : bool * bool :=
  match h with
  | [] => (same, ok)
  | (o, r) :: t =>
      let '(s', rm) := step s o in
      run_check s' t (same && resp_eqb r rm) (ok && oracle s o r)
  end.

Definition check (c : case) : verdict :=
  let '(same, ok) := run_check (init (c_max c)) (c_hist c) true true in
  judge same ok.
