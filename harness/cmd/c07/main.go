// C07 driver: value codecs of tsm1 and simple8b on generated inputs.
//
// For every case the REAL encoders (scalar *Encoder types and batch *ArrayEncodeAll,
// simple8b.EncodeAll / Encode / Encoder, jwilder simple8b used by the scalar codecs) are
// run, their output BYTES/words are recorded, and every real decoder (scalar and batch)
// is run on every encoder's output.  The Coq judge recomputes the model's bytes and
// checks the round-trip oracle on the decoded values.
package main

import (
	"fmt"
	"math/rand/v2"
	"strconv"
	"strings"

	"verifh/vh"
)

type jcase struct {
	Kind string    `json:"kind"` // s8b | int | uint | time | bool | float | str | block
	S8b  *s8bCase  `json:"s8b,omitempty"`
	Int  *intCase  `json:"int,omitempty"`
	Time *intCase  `json:"time,omitempty"`
	Bool *boolCase `json:"bool,omitempty"`
	Flt  *fltCase  `json:"float,omitempty"`
	Str  *strCase  `json:"str,omitempty"`
	Blk  *blkCase  `json:"block,omitempty"`
}

func run(w *vh.W, c *jcase) {
	switch c.Kind {
	case "s8b":
		runS8b(w, c)
	case "int", "uint":
		runInt(w, c)
	case "time":
		runTime(w, c)
	case "bool":
		runBool(w, c)
	case "float":
		runFloat(w, c)
	case "str":
		runStr(w, c)
	case "block":
		runBlock(w, c)
	default:
		panic("unknown kind " + c.Kind)
	}
}

// ---------- shared generators ----------

var selBits = []uint{1, 2, 3, 4, 5, 6, 7, 8, 10, 12, 15, 20, 30, 60}
var selN = []int{240, 120, 60, 30, 20, 15, 12, 10, 8, 7, 6, 5, 4, 3, 2, 1}

// genLen: lengths 0,1,2,... small mostly; around every selector count; around 1000 rarely.
func genLen(r *rand.Rand, big bool) int {
	switch x := r.IntN(100); {
	case x < 8:
		return r.IntN(3)
	case x < 55:
		return r.IntN(24)
	case x < 75:
		n := selN[2+r.IntN(14)]
		return max(0, n-2+r.IntN(5)) // n-2..n+2
	case x < 85:
		return 24 + r.IntN(60)
	case x < 93:
		return 117 + r.IntN(8) // around 120
	case x < 98:
		return 236 + r.IntN(10) // around 240
	default:
		if big {
			return 990 + r.IntN(20)
		}
		return 300 + r.IntN(200)
	}
}

// boundary value around 2^k for a selector width k
func boundary(r *rand.Rand) uint64 {
	k := selBits[r.IntN(len(selBits))]
	switch r.IntN(4) {
	case 0:
		return 1<<k - 1
	case 1:
		return 1 << k
	case 2:
		if k > 1 {
			return 1<<k - 2
		}
		return 0
	default:
		return 1<<(k-1) | r.Uint64()&(1<<(k-1)-1) // top bit of the k-bit field set
	}
}

// genPackVals: non-negative values mostly packable by simple8b.
func genPackVals(r *rand.Rand, n int) []uint64 {
	v := make([]uint64, n)
	mode := r.IntN(10)
	k := selBits[r.IntN(len(selBits))]
	for i := range v {
		switch mode {
		case 0: // all ones
			v[i] = 1
		case 1, 2: // ones with rare disruptors
			v[i] = 1
			if r.IntN(60) == 0 {
				v[i] = boundary(r)
			}
		case 3, 4, 5: // uniform k-bit values
			v[i] = r.Uint64() & (1<<k - 1)
		case 6: // boundaries
			v[i] = boundary(r)
		case 7: // mostly small, occasional boundary
			v[i] = uint64(r.IntN(4))
			if r.IntN(8) == 0 {
				v[i] = boundary(r)
			}
		case 8: // k-bit with the max of the field frequent
			v[i] = 1<<k - 1
			if r.IntN(3) == 0 {
				v[i] = r.Uint64() & (1<<k - 1)
			}
		default: // runs
			if i > 0 && r.IntN(5) != 0 {
				v[i] = v[i-1]
			} else {
				v[i] = r.Uint64() & (1<<k - 1)
			}
		}
	}
	// runs of ones of length >= 240 / around 120 embedded in other data
	if n >= 120 && r.IntN(3) == 0 {
		runLen := []int{119, 120, 121, 239, 240, 241}[r.IntN(6)]
		if runLen > n {
			runLen = n
		}
		at := r.IntN(n - runLen + 1)
		for i := at; i < at+runLen; i++ {
			v[i] = 1
		}
	}
	return v
}

// ---- Gallina term rendering with sharing ----
// Big list literals dominate the Coq-side cost (each number literal is interpreted by
// the number notation), so identical literals are emitted once and shared through
// `let`: the denoted term is exactly the same as with the literals repeated.
type lets struct {
	names map[string]string
	binds []string
}

func (l *lets) ref(typ, lit string) string {
	key := typ + "|" + lit
	if l.names == nil {
		l.names = map[string]string{}
	}
	if n, ok := l.names[key]; ok {
		return n
	}
	n := fmt.Sprintf("x%d", len(l.binds))
	l.names[key] = n
	l.binds = append(l.binds, fmt.Sprintf("let %s : %s := %s in ", n, typ, lit))
	return n
}
func (l *lets) wrap(body string) string {
	return "(" + strings.Join(l.binds, "") + body + ")"
}

// numbers are written without %N: every shard opens N_scope
func nlist(v []uint64) string {
	var b strings.Builder
	b.WriteByte('[')
	for i, x := range v {
		if i > 0 {
			b.WriteString("; ")
		}
		b.WriteString(strconv.FormatUint(x, 10))
	}
	b.WriteByte(']')
	return b.String()
}

// blist renders a byte string as a Gallina [list N].  Strings with long runs of equal
// bytes are emitted run-length encoded, `(rle [(count, byte); ...])` (Model/C07.v expands
// it under vm_compute), so that 64 KiB strings do not cost 64 Ki number literals.
func blist(v []byte) string {
	if len(v) >= 48 {
		type seg struct {
			n int
			b byte
		}
		var segs []seg
		for _, x := range v {
			if k := len(segs); k > 0 && segs[k-1].b == x {
				segs[k-1].n++
			} else {
				segs = append(segs, seg{1, x})
			}
		}
		if 4*len(segs) < len(v) {
			var b strings.Builder
			b.WriteString("(rle [")
			for i, sg := range segs {
				if i > 0 {
					b.WriteString("; ")
				}
				fmt.Fprintf(&b, "(%d, %d)", sg.n, sg.b)
			}
			b.WriteString("])")
			return b.String()
		}
	}
	var b strings.Builder
	b.WriteByte('[')
	for i, x := range v {
		if i > 0 {
			b.WriteString("; ")
		}
		b.WriteString(strconv.Itoa(int(x)))
	}
	b.WriteByte(']')
	return b.String()
}
func (l *lets) u64s(v []uint64) string { return l.ref("list N", nlist(v)) }
func (l *lets) optU64s(v []uint64, ok bool) string {
	if !ok {
		return "None"
	}
	return "(Some " + l.ref("list N", nlist(v)) + ")"
}
func (l *lets) optBytes(b []byte, ok bool) string {
	if !ok {
		return "None"
	}
	return "(Some " + l.ref("list N", blist(b)) + ")"
}
func (l *lets) bools(v []bool) string { return l.ref("list bool", vh.Bools(v)) }
func (l *lets) optBools(v []bool, ok bool) string {
	if !ok {
		return "None"
	}
	return "(Some " + l.ref("list bool", vh.Bools(v)) + ")"
}
func lenClass(n int) string {
	switch {
	case n <= 2:
		return fmt.Sprint(n)
	case n < 24:
		return "3-23"
	case n < 117:
		return "24-116"
	case n < 125:
		return "117-124"
	case n < 236:
		return "125-235"
	case n < 246:
		return "236-245"
	case n < 900:
		return "246-899"
	default:
		return ">=900"
	}
}

func main() {
	w := vh.New("C07", "From Verif Require Import Base.Prelude Model.C07.\nLocal Open Scope N_scope.", "case", "check")
	w.Rule = "per codec (simple8b, integer, unsigned, timestamp, boolean, float, string, block): hand-picked edge cases first, then random value lists: lengths 0,1,2.. biased to selector counts (1..60), around 120, around 240, rarely ~1000; values: runs of 1s (>=240, ~120, embedded), k-bit uniform for every selector width, boundaries 2^k-1/2^k, RLE-friendly arithmetic progressions, int64/uint64 extremes, floats from bit patterns (+-0, subnormals, +-Inf, NaN payloads), and a malformed stream (value >= 2^60 for simple8b, NaN for floats); a LONG-string stream (string codec and string blocks): 1-6 strings with lengths around the uvarint boundaries 127/128, 16383/16384 and 40-64 KiB mixed with a few short ones, written run-length encoded in the Gallina term. Non-trivial: the list has >= 2 values (or is a rejection case). Distinct: distinct Gallina terms."
	var rc jcase
	if w.ReplayCase(&rc) {
		run(w, &rc)
		w.Finish()
		return
	}
	for _, c := range fixedCases() {
		c := c
		run(w, &c)
	}
	r := w.Rng
	for w.Len() < w.N {
		c := genCase(r, w.N >= 3000)
		run(w, &c)
	}
	w.Finish()
}
