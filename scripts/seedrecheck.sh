#!/bin/bash
# seedrecheck.sh <Cxx> <mN> [check-id]: re-run only our check against an already confirmed seeded change
# (seeded/<Cxx>-<mN>/patch.diff) and refresh our_check in its meta.json.
P=$1; M=$2; DST=/verif/seeded/$P-$M; WT=/tmp/sw-$P-$M
CHK=${3:-$(python3 -c "import json;print(json.load(open('$DST/meta.json')).get('check_run','$P'))")}
git -C /repo worktree remove --force $WT 2>/dev/null; git -C /repo worktree add -q $WT HEAD || exit 2
git -C $WT apply $DST/patch.diff || { echo "$P-$M patch does not apply"; git -C /repo worktree remove --force $WT; exit 2; }
cd /verif
VERIF_REPO=$WT VERIF_JOBS=${VERIF_JOBS:-8} ./check $CHK > $DST/check.log 2>&1; CK=$?
ALT=$(ls -d build/alt/*/ 2>/dev/null | while read d; do grep -l "$WT" $d/harness/go.mod >/dev/null 2>&1 && echo $d; done | head -1)
REPLAY=$(grep -h "VIOLATION" $DST/check.log | head -1 | sed 's/.*replay=\([^ ]*\).*/\1/')
[ -n "$REPLAY" ] && [ -f "$REPLAY" ] && cp "$REPLAY" $DST/replay.json
python3 - <<PY
import json
m=json.load(open('$DST/meta.json'))
m['check_run']='$CHK'
m['our_check']={'cmd':'VERIF_REPO=<scratch worktree with patch> ./check $CHK','exit':$CK,'detected':$CK==1,
                'verdict_line':open('$DST/check.log').read().strip().split('\n')[-2:]}
json.dump(m,open('$DST/meta.json','w'),indent=1)
print('$P-$M recheck with $CHK: exit', $CK)
PY
git -C /repo worktree remove --force $WT
[ -n "$ALT" ] && rm -rf $ALT
