(** C25 — Only active tasks are scheduled.  Property theorems only.

    Main theorem [C25_scheduled_iff_active]: after ANY history (unbounded) of create /
    update / delete / restart through the coordinating task service, with parsable
    schedules, the scheduler's set is exactly the existing tasks whose status is
    active, each with its latest schedule.  It is about the code as it is since /repo
    commit da7c7e4fac ([run true]); before that commit [TaskCreated] scheduled a task
    created with status inactive ([C25_before_fix_counterexample], an Example kept for
    the record, about [run false]). *)
From Verif Require Import Base.Prelude Model.C25 Proofs.C25.

(** every schedule handed to create/update is a parsable cron/every (not "") *)
Definition valid_op (o : op) : Prop :=
  match o with
  | Create _ s => valid s = true
  | Update _ _ spec _ => spec <> Some 0%N
  | _ => True
  end.

Definition not_inactive_create (o : op) : Prop :=
  match o with Create (Some false) _ => False | _ => True end.

Lemma ok_of strict fx ops :
  Forall valid_op ops -> (strict = true -> fx = false -> Forall not_inactive_create ops) ->
  ops_ok strict fx ops.
Proof.
  intros Hv Hn. unfold ops_ok. apply Forall_forall. intros o Ho.
  pose proof (proj1 (Forall_forall _ _) Hv o Ho) as V.
  destruct o as [status s|id status spec off|id|]; cbn in *; try exact V; try exact I.
  split; [exact V|].
  intros Hs Hf E. subst status.
  exact (proj1 (Forall_forall _ _) (Hn Hs Hf) _ Ho).
Qed.

Theorem C25_scheduled_iff_active :
  forall ops, Forall valid_op ops -> scheduled_iff_active (run true ops).
Proof.
  intros ops Hv. apply inv_strict_iff. apply run_inv. apply ok_of; auto. discriminate.
Qed.
Print Assumptions C25_scheduled_iff_active.

Theorem C25_active_tasks_always_scheduled :
  forall ops, Forall valid_op ops ->
  forall id t, lookup id (st_tasks (run true ops)) = Some t -> t_active t = true ->
    lookup id (st_sch (run true ops)) = Some (t_sched t).
Proof.
  intros ops Hv id t Hl Ha.
  assert (I : inv false (run true ops)) by (apply run_inv; apply ok_of; auto; discriminate).
  specialize (I id). rewrite Hl, Ha in I. exact I.
Qed.
Print Assumptions C25_active_tasks_always_scheduled.

Theorem C25_inactive_tasks_never_scheduled :
  forall ops, Forall valid_op ops ->
  forall id t, lookup id (st_tasks (run true ops)) = Some t -> t_active t = false ->
    lookup id (st_sch (run true ops)) = None.
Proof.
  intros ops Hv id t Hl Ha. rewrite (C25_scheduled_iff_active ops Hv id).
  unfold expected. rewrite Hl, Ha. reflexivity.
Qed.
Print Assumptions C25_inactive_tasks_never_scheduled.

Theorem C25_scheduled_tasks_exist :
  forall ops, Forall valid_op ops ->
  forall id s, lookup id (st_sch (run true ops)) = Some s ->
    exists t, lookup id (st_tasks (run true ops)) = Some t.
Proof.
  intros ops Hv id s Hl.
  assert (I : inv false (run true ops)) by (apply run_inv; apply ok_of; auto; discriminate).
  specialize (I id). destruct (lookup id (st_tasks (run true ops))) as [t|]; [eauto|congruence].
Qed.
Print Assumptions C25_scheduled_tasks_exist.

(** The code before the fix also satisfied the statement on histories without an
    inactive create (kept: it is what the pre-fix correspondence runs relied on). *)
Theorem C25_before_fix_without_inactive_create :
  forall ops, Forall valid_op ops -> Forall not_inactive_create ops ->
    scheduled_iff_active (run false ops).
Proof.
  intros ops Hv Hn. apply inv_strict_iff. apply run_inv. apply ok_of; auto.
Qed.
Print Assumptions C25_before_fix_without_inactive_create.

Example C25_before_fix_counterexample :
  ~ scheduled_iff_active (run false [Create (Some false) {| sc_spec := 1; sc_off := 0 |}]).
Proof. intro H. specialize (H 1%N). vm_compute in H. discriminate. Qed.

(** Non-vacuity: a history with creates (default, active AND inactive), a schedule
    update of an inactive task, activation, deactivation, delete and restart; the
    scheduler then holds exactly tasks 1 and 4 (task 4 was created inactive, had its
    schedule changed while inactive, and was then activated: latest schedule). *)
Example C25_nonvacuous :
  let s1 := {| sc_spec := 1; sc_off := 0 |} in
  let s2 := {| sc_spec := 2; sc_off := 5 |} in
  let ops := [Create None s1; Create (Some true) s2; Create None s1; Create (Some false) s1;
              Update 1 None (Some 2%N) (Some 7%Z); Update 2 (Some false) None None;
              Update 4 None (Some 2%N) None; Update 3 (Some false) None None;
              Update 4 (Some true) None None; Delete 2; Restart] in
  Forall valid_op ops /\
  st_sch (run true ops) = [(1%N, {| sc_spec := 2; sc_off := 7 |}); (4%N, {| sc_spec := 2; sc_off := 0 |})].
Proof.
  cbn zeta. split.
  - repeat constructor; cbn; congruence.
  - vm_compute. reflexivity.
Qed.
